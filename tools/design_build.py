#!/usr/bin/env python3
"""Assembles DESIGN.md from docs/design_head.md + section 5 (tools/design_sec5.py) + docs/design_tail.md,
filling the seeded-change table from seeded/results.json and seeded/*/meta.json and the timing table
from evidence/*.json.  Usage: tools/design_build.py"""
import json
import os
import subprocess
import sys

ROOT = os.path.dirname(os.path.dirname(os.path.abspath(__file__)))


def seeded_table():
    res_path = os.path.join(ROOT, "seeded", "results.json")
    res = json.load(open(res_path)) if os.path.exists(res_path) else {}
    rows = ["| seed | changed | needs | own quick check | other quick checks that also report it |", "|---|---|---|---|---|"]
    for pid in sorted(x for x in os.listdir(os.path.join(ROOT, "seeded")) if x.startswith("C")):
        meta = json.load(open(os.path.join(ROOT, "seeded", pid, "meta.json")))
        r = res.get(pid, {})
        checks = r.get("checks", {})
        prop = pid[:3]
        own = checks.get(prop, {})
        own_txt = "—"
        if own:
            v = own.get("verdict") or []
            own_txt = ("VIOLATION" + (" (no-failing-input-found)" if v and "no-failing-input-found" in v[0] else "")) if own.get("exit") == 1 else ("pass (exit %s)" % own.get("exit"))
        others = sorted(c for c, d in checks.items() if c != prop and d.get("exit") == 1)
        infra = sorted(c for c, d in checks.items() if d.get("exit") not in (0, 1))
        other_txt = ", ".join(others) if others else ("none" if len(checks) > 1 else "not run")
        if infra:
            other_txt += " (exit 2: %s)" % ", ".join(infra)
        rows.append("| %s | %s | %s | %s | %s |" % (pid, meta.get("what", ", ".join(meta.get("files_touched", []))), meta.get("trigger", ""), own_txt, other_txt))
    return "\n".join(rows)


def timings():
    rows = ["| check | theorems | quick: evaluations (distinct non-trivial) | model requests |", "|---|---|---|---|"]
    for i in range(1, 20):
        pid = "C%02d" % i
        p = os.path.join(ROOT, "evidence", pid + ".json")
        if not os.path.exists(p):
            continue
        e = json.load(open(p))
        c = e["coverage"]
        rows.append("| %s | %d | %d (%d) | %s |" % (pid, c.get("obligations", 0), c.get("evaluations", 0), c.get("distinct_nontrivial", 0), c.get("model_requests", "")))
    return "\n".join(rows)


def main():
    head = open(os.path.join(ROOT, "docs", "design_head.md"), encoding="utf-8").read()
    tail = open(os.path.join(ROOT, "docs", "design_tail.md"), encoding="utf-8").read()
    sec5 = subprocess.run([sys.executable, os.path.join(ROOT, "tools", "design_sec5.py")], stdout=subprocess.PIPE, text=True, check=True).stdout
    tail = tail.replace("{{SEEDED_TABLE}}", seeded_table()).replace("{{TIMINGS}}", timings())
    with open(os.path.join(ROOT, "DESIGN.md"), "w", encoding="utf-8") as f:
        f.write(head + sec5 + "\n" + tail)
    print("DESIGN.md written:", len((head + sec5 + tail).split("\n")), "lines")


if __name__ == "__main__":
    main()
