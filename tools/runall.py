#!/usr/bin/env python3
"""Run every claimed check (quick by default) on the current tree; print one line each."""
import json, os, subprocess, sys, time
ROOT = os.path.dirname(os.path.dirname(os.path.abspath(__file__)))
tier = sys.argv[1] if len(sys.argv) > 1 else "quick"
only = sys.argv[2:]
m = json.load(open(os.path.join(ROOT, "MANIFEST.json")))
bad = 0
for c in m["checks"]:
    if only and c["property_id"] not in only:
        continue
    cmd = c["quick_cmd"] if tier == "quick" else c["thorough_cmd"]
    t0 = time.time()
    p = subprocess.run(cmd, shell=True, cwd=ROOT, stdout=subprocess.PIPE, stderr=subprocess.PIPE, text=True)
    last = (p.stderr.strip().split("\n") or [""])[-1]
    print("%s rc=%d %.0fs %s %s" % (c["property_id"], p.returncode, time.time() - t0, p.stdout.strip().replace("\n", " | ")[:300], last[:200]), flush=True)
    bad += p.returncode != 0
sys.exit(1 if bad else 0)
