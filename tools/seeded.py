#!/usr/bin/env python3
"""Seeded changes (written by sub-agents that saw only the property text and a scratch
worktree of /repo, nothing of /verif): harvest them into /verif/seeded/<id>/ and run the
checks against each.

  tools/seeded.py harvest            copy SEED_* from /tmp/wt_Cxx into seeded/Cxx/
  tools/seeded.py run [ids...]       apply each patch to /repo, run that property's quick check
                                     (and with --all every quick check), restore /repo
Results go to seeded/results.json (and are summarised in DESIGN.md by hand)."""
import json
import os
import shutil
import subprocess
import sys

ROOT = os.path.dirname(os.path.dirname(os.path.abspath(__file__)))
SEEDED = os.path.join(ROOT, "seeded")
REPO = os.environ.get("VERIF_REPO", "/repo")


def sh(cmd, **kw):
    return subprocess.run(cmd, shell=True, stdout=subprocess.PIPE, stderr=subprocess.STDOUT, text=True, **kw)


def harvest(rnd=1):
    os.makedirs(SEEDED, exist_ok=True)
    for i in range(1, 20):
        prop = "C%02d" % i
        pid = prop if rnd == 1 else "%s-%d" % (prop, rnd)
        wt = "/tmp/wt%s_%s" % ("" if rnd == 1 else str(rnd), prop)
        patch = os.path.join(wt, "SEED_patch.diff")
        if not os.path.exists(patch):
            print(pid, "no patch yet")
            continue
        d = os.path.join(SEEDED, pid)
        os.makedirs(d, exist_ok=True)
        # take the diff from the worktree itself (the agent's file may be stale)
        diff = sh("git -C %s diff -- pdpy11" % wt).stdout
        with open(os.path.join(d, "patch.diff"), "w", encoding="utf-8") as f:
            f.write(diff)
        demo = os.path.join(wt, "SEED_demo.md")
        if os.path.exists(demo):
            shutil.copy(demo, os.path.join(d, "demonstration.md"))
        inp = os.path.join(wt, "SEED_input")
        if os.path.isdir(inp):
            shutil.rmtree(os.path.join(d, "input"), ignore_errors=True)
            shutil.copytree(inp, os.path.join(d, "input"))
        meta_path = os.path.join(d, "meta.json")
        meta = {}
        if os.path.exists(meta_path):
            meta = json.load(open(meta_path))
        meta.update({"property": prop, "origin": "sub-agent given only the property text and a scratch worktree of /repo",
                     "base_commit": sh("git -C %s rev-parse HEAD" % wt).stdout.strip(),
                     "files_touched": [l[6:] for l in diff.split("\n") if l.startswith("+++ b/")]})
        json.dump(meta, open(meta_path, "w"), indent=1)
        print(pid, "harvested", meta["files_touched"])


def clean_repo():
    out = sh("git -C %s status --porcelain" % REPO).stdout.strip()
    return out == ""


def run(ids, all_checks):
    res_path = os.path.join(SEEDED, "results.json")
    results = json.load(open(res_path)) if os.path.exists(res_path) else {}
    for pid in ids:
        d = os.path.join(SEEDED, pid)
        patch = os.path.join(d, "patch.diff")
        if not os.path.exists(patch) or not open(patch).read().strip():
            print(pid, "no patch")
            continue
        if not clean_repo():
            print("refusing: /repo has uncommitted changes")
            return 2
        a = sh("git -C %s apply %s" % (REPO, patch))
        if a.returncode != 0:
            print(pid, "patch does not apply:", a.stdout[-300:])
            results.setdefault(pid, {})["applies"] = False
            continue
        try:
            entry = results.setdefault(pid, {})
            entry["applies"] = True
            if "--no-tests" not in sys.argv or "tests" not in entry:
                t = sh("cd %s && /venv/bin/python -m pytest -q -p no:cacheprovider --timeout=900 --continue-on-collection-errors 2>&1 | tail -1" % REPO)
                entry["tests"] = t.stdout.strip()
            prop = pid[:3]
            targets = [prop] if not all_checks else ["C%02d" % i for i in range(1, 20)]
            entry.setdefault("checks", {})
            for c in targets:
                r = sh("cd %s && ./check %s --tier quick" % (ROOT, c))
                lines = [l for l in r.stdout.strip().split("\n") if l.strip()]
                verdict = [l for l in lines if l.startswith(("VIOLATION", "KNOWN-FINDING"))]
                entry["checks"][c] = {"exit": r.returncode, "verdict": verdict[:2], "summary": lines[-1] if lines else ""}
                print(pid, "->", c, "exit", r.returncode, (verdict[0] if verdict else ""), "|", lines[-1][-110:] if lines else "")
                # keep the replay of the property's own check next to the seed
                if c == prop and verdict and "replay=" in verdict[0]:
                    rp = verdict[0].split("replay=")[1].split()[0]
                    if os.path.exists(rp):
                        shutil.copy(rp, os.path.join(d, "replay_found.json"))
        finally:
            sh("git -C %s checkout -- ." % REPO)
            json.dump(results, open(res_path, "w"), indent=1)
    # regenerate tables from the clean tree
    sh("cd %s && PYTHONPATH=/repo /venv/bin/python tools/extract.py" % ROOT)
    return 0


if __name__ == "__main__":
    if len(sys.argv) < 2:
        print(__doc__)
        sys.exit(2)
    if sys.argv[1] == "harvest":
        harvest(int(sys.argv[2]) if len(sys.argv) > 2 else 1)
    elif sys.argv[1] == "run":
        args = [a for a in sys.argv[2:] if not a.startswith("--")]
        ids = args or sorted(x for x in os.listdir(SEEDED) if x.startswith("C"))
        sys.exit(run(ids, "--all" in sys.argv))
