#!/usr/bin/env python3
"""Prints section 5 of DESIGN.md (one subsection per property) from tools/manifest.py's CLAIMED
table, the theorem names found in lean/Pdpy11/Props/Cxx.lean and the SEARCH notes below, so that
DESIGN.md, MANIFEST.json and the Lean files cannot drift apart.  Usage: tools/design_sec5.py > /tmp/sec5.md"""
import importlib.util
import json
import os
import re

ROOT = os.path.dirname(os.path.dirname(os.path.abspath(__file__)))
spec = importlib.util.spec_from_file_location("manifest", os.path.join(ROOT, "tools", "manifest.py"))
m = importlib.util.module_from_spec(spec)
spec.loader.exec_module(m)

MODEL = {
    "C01": "Gen/Opcodes, Model/Pattern (init(): template expansion, stub inference, field layout), Model/Insn (operand classes, encodeRM/Reg/Acc/Offset/Imm, getOpcode, compileInsn), Spec/Isa (independent ISA table and decoder)",
    "C02": "Gen/Meta (announced sizes), Model/Directive, Model/Asm (whole program), hook trace of compile_block",
    "C03": "Model/Scope (lookup/define), Model/Defs (total lazy evaluator), Model/Ops, Model/Poly, Model/Thunk (memoised Deferred), Model/Asm",
    "C04": "Model/Insn.offsetField / relWord, Spec/Ea (handbook effective-address rules)",
    "C05": "Model/Ops (operator functions on Int), Model/Shunt and Model/ShuntP (the operator-precedence loop, with leading prefix operators), Model/Parse + Model/Eval (transliterated parser/evaluator), Spec/Arith (independent evaluator), Gen/Operators",
    "C06": "Model/Insn.getAsInt, Model/Directive (every data directive), Gen/Codecs",
    "C07": "Model/State (report latch), Model/Cli (main_cli control flow), Gen/Reports",
    "C08": "Model/Insn, Model/Directive, Model/Defs, Model/State (Loud invariant over the error-log monad), Model/Await (the awaiting stack: termination and cycle reports on cyclic graphs)",
    "C09": "Model/Lin (affine forms in the link base), Model/Asm",
    "C10": "Model/Parse (intOf, digitVal, lowerS, table lookups), Model/Insn (regNum, encodeRM), Model/Directive (wordList/wordDir)",
    "C11": "Model/Scope (qualified names, lookup, define, resolve), Model/Asm",
    "C12": "Model/Link (decideBase, setLink, skipBytes) on Model/Lin, Model/Poly (deferred.LinearPolynomial), Model/Asm",
    "C13": "Model/Container (raw, bin, WAV, tape-name inference), Gen/Wav (pulse shapes), Spec/Tape (RIFF reader, demodulators, end-around-carry sum)",
    "C14": "Gen/BkTable, Model/Bk, Spec/Koi8r",
    "C15": "Gen/Rad50, Model/Rad50, Spec/Rad50",
    "C16": "Model/Path (resolve_relative_path), Model/Layout (statements as functions of their address; emitBlock, repeatEmit, linkFiles, .end, .once), Model/Directive.byteDir, Model/Asm",
    "C17": "Model/LineCol (Context.__repr__), Spec/Scan (left-to-right scanner)",
    "C18": "Model/State (try_compute, Awaiting, handle_reports as a language of bracketed computations)",
    "C19": "Model/Listing (generate_listing, --lst path)",
}

SEARCH = {
    "C01": "every word the real assembler emits is decoded by Spec.Isa.decode and compared with the source statement (operation, operands, order, values, length); label operands in placement worlds (linked files, nested includes) with addresses known by construction; a decode mismatch is the replay",
    "C02": "hook trace: address given to a statement = base + bytes emitted before it, announced size = actual size, image slice = the statement's bytes; label values against the next statement's address",
    "C03": "metamorphic on the implementation alone: all placements of the definitions must give equal (outcome, base, image, error kinds); chains against the value the generator computed; constant-in-position against the literal program",
    "C04": "the displacement in the emitted word is run through Spec.Ea (what a PDP-11 would compute) and compared with the target written in the source; accept/reject against the handbook reach; placement worlds: every branch and relative operand to a label in the same file, another linked file, the including or an included file",
    "C05": "the value the generator's own tree has under Spec.Arith (floor arithmetic written independently) against the emitted word; error kinds for division by zero / negative and absurd shifts",
    "C06": "expected bytes computed in Python from the directive's definition (little-endian, two's complement, zero fill length) at every boundary value; refuse-not-truncate checked as: failed + error kind, no image",
    "C07": "exit status != 0 iff an error-severity report was displayed; scratch directory unchanged on failure; equal (exit, files, bytes) across every -W / format selection",
    "C08": "outcome classes over grammar G; a crash/hang/silent failure is the replay, shrunk by lines then characters; signature = exception type + innermost /repo frame",
    "C09": "word-wise difference of the images at three bases must be 0 or +-(difference of bases); PIC stream byte-identical",
    "C10": "a program and its respelled variants must give equal (outcome, base, image, error kinds)",
    "C11": "the generator derives from the rules of the property which definition every reference binds to, the whole image and the expected error kinds",
    "C12": "expected base computed from label offsets of a reference assembly; every label at base + offset; forward skip zero fill / backward skip refused",
    "C13": "every WAV is demodulated by the executable Lean BK-0010/turbo demodulator (header, data, checksum) and parsed by the independent RIFF reader; raw/bin compared with their definition",
    "C14": "round trip through the real codec for all bytes and all code points; '.ascii'/character literals through the assembler",
    "C15": "emitted words unpacked by Spec.Rad50 and compared with the upper-cased, space-padded input",
    "C16": "pairs (program, written-out equivalent) on the implementation alone: unrolled repeat, concatenated files, '.byte' data for insert_file, truncated file for '.end', single inclusion for '.once'",
    "C17": "the first error report must start at the planted token (position found by the independent scanner), all locations inside their file with start <= end, bare format prints the scanner's line:column",
    "C18": "a probe assembled after any history of <= 50 assemblies (incl. failing, crashing ones) must equal the probe in a fresh state; module state equal before/after",
    "C19": "every listing line against Compiler.symbols; every listed label against the marker word that follows it in the image; order and octal digits re-read",
}

props = {json.loads(l)["id"]: json.loads(l) for l in open(os.path.join(ROOT, "properties.jsonl"), encoding="utf-8")}
out = []
for pid in sorted(m.CLAIMED):
    c = m.CLAIMED[pid]
    src = open(os.path.join(ROOT, "lean", "Pdpy11", "Props", pid + ".lean"), encoding="utf-8").read()
    ths = re.findall(r"^theorem (\w+)", src, re.M)
    nex = len(re.findall(r"^example", src, re.M))
    out.append("### %s %s\n" % (pid, props[pid]["title"]))
    out.append("* **Model**: %s." % MODEL[pid])
    out.append("* **Theorems** (`lean/Pdpy11/Props/%s.lean`: %d theorems, %d non-vacuity examples): %s." % (pid, len(ths), nex, ", ".join("`%s`" % t for t in ths)))
    out.append("* **What is proved, and the tie**: %s" % c["text"])
    out.append("* **Search for a failing input** (also run pre-emptively on every input of the tie): %s." % SEARCH[pid])
    note = c["note"].replace(m.NOTE, "").strip()
    if note:
        out.append("* **Not carried by the proof**: %s" % note)
    out.append("")
print("\n".join(out))
