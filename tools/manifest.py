#!/usr/bin/env python3
"""Regenerate /verif/MANIFEST.json from the table below (claimed properties) and
properties.jsonl (everything else goes to not_applicable with its reason)."""
import json
import os

ROOT = os.path.dirname(os.path.dirname(os.path.abspath(__file__)))

NOTE = ("Trusted base: Lean 4.33 kernel (axioms propext/Classical.choice/Quot.sound only, audited per theorem on every run; no sorry, "
        "no native_decide); tools/extract.py (tables regenerated from /repo runtime objects on every run); the correspondence harness "
        "(in-process implementation vs native Lean model driver) and its generators; hand-written Spec/*.lean. ")

CLAIMED = {
    "C15": dict(
        text="Theorems over the regenerated RADIX-50 table: the table is the standard 40-character alphabet, unpack∘pack = id for all "
             "triples (omega), '.rad50' on any list of string chunks over the alphabet reports nothing and the standard unpacking of its "
             "words returns the upper-cased space-padded input (induction over any length), bad characters and codes >= 40 are reported, "
             "'^R' equals the first '.rad50' word. The hand-written directive model is tied to the code by exhaustive/sampled "
             "correspondence through the real assembler, and the emitted words are unpacked by the Lean Spec decoder.",
        design_ref="DESIGN.md §5 C15",
        technique="Lean 4 theorems (induction, omega, decide on the regenerated table) + model/implementation correspondence",
        note=NOTE + "Modelled, not verified: how the parser delivers string chunks to the directive (sampled through the real parser).",
    ),
}

CLAIMED["C14"] = dict(
    text="Theorems by complete evaluation (decide +kernel) over the regenerated 256-entry table: every byte decodes to a character that "
         "encodes back to the same byte, ASCII on 0x00-0x7E, KOI8-R (frozen Spec table) on 0xC0-0xFF, the codec's dictionary is exactly "
         "what its comprehension builds; by induction over strings of any length: encoding succeeds iff every character is in the table, "
         "and the reported error range is [first unencodable, last unencodable + 1). Tie: exhaustive correspondence of the codec "
         "(256 bytes, all BMP / all 0x110000 code points, random mixed strings) plus '.ascii' and character literals through the assembler.",
    design_ref="DESIGN.md §5 C14",
    technique="Lean 4 theorems (decide +kernel on the regenerated table, induction on strings) + exhaustive model/implementation correspondence",
    note=NOTE + "Modelled, not verified: the Python codec machinery (codecs.register, UnicodeEncodeError plumbing) and how CharLiteral/.ascii turn the exception into 'invalid-character' (exercised through the real assembler).",
)

CLAIMED["C04"] = dict(
    text="Theorems over unbounded Int distances/addresses about the model of OffsetOperandStub's field computation and the relative-mode "
         "displacement: a branch is accepted iff its offset is even and in -256..254 (SOB: -126..0), an accepted branch/SOB decodes by the "
         "handbook's effective-address rule to exactly the target, an out-of-reach or odd offset reports an error and never yields a wrapped "
         "field, the relative displacement stored at the address rel_address makes the processor compute the target modulo 2^16; every "
         "offset stub of the regenerated table is the 8-bit signed or 6-bit unsigned field and comes after register stubs only. Tie: "
         "exhaustive distance enumeration of every branch mnemonic and SOB and 7680 relative-operand placements through the real "
         "assembler against the model, judged by the Lean Spec EA functions.",
    design_ref="DESIGN.md §5 C04",
    technique="Lean 4 theorems (omega over Int, decide +kernel on the regenerated table) + exhaustive model/implementation correspondence",
    note=NOTE + "Modelled, not verified: operand classification and expression evaluation feeding the stubs (exercised through the real parser/compiler with several spellings).",
)

CLAIMED["C06"] = dict(
    text="Theorems over all Int values, addresses, moduli and strings of any length about the value-level model of get_as_int and the "
         "directive bodies: accepted iff |v| < 2^n (unsigned: 0 <= v < 2^n) and stored as v mod 2^n; .byte/.word/.dword emit exactly the "
         "little-endian bytes (dword: high word first) or abort with value-out-of-bounds; word data at an odd address reports odd-address; "
         "implicit word list = .word; .blkb/.blkw/.even/.odd/.align emit zero fill of exactly the stated/needed length ((a+len) mod m = 0, "
         "len < m); negative counts and zero/negative moduli are errors; .ascii/.asciz emit exactly the concatenated encodings, <n> is the "
         "byte n or an error, an unencodable chunk is reported. Tie: boundary-complete correspondence through the real assembler for "
         "every directive, 0-8 operands, both parities, 5 charsets, every escape form.",
    design_ref="DESIGN.md §5 C06",
    technique="Lean 4 theorems (omega, induction over operand lists and chunks) + boundary-complete model/implementation correspondence",
    note=NOTE + "Modelled, not verified: operand evaluation, escape parsing and Metacommand.compile_insn's cooking loop (exercised through the real parser/compiler); utf-8/latin-1 re-stated in Lean, koi8-r/cp866 taken from the stdlib as tables.",
)

CLAIMED["C01"] = dict(
    text="(1) Kernel-checked facts about all 252 entries of the regenerated table (decide +kernel over the whole table): the model of init() "
         "re-derives every 16-symbol template and every operand stub; every stub addresses a contiguous field; base opcode, field "
         "shift/width, operand class and operand order of every mnemonic equal the independent ISA table (Spec/Isa.lean), synonyms and "
         "push/pop/ret/call through the instruction they stand for; canonical encodings are pairwise disjoint. (2) For ALL operand "
         "values: get_opcode's character substitution is arithmetic - for every entry and any values the word read from the substituted "
         "template is base + sum of (value mod 2^width) * 2^shift over the entry's fields (getOpcode_numeric: general lemmas about "
         "binary digit lists, writes at distinct positions and the bits of a two's-complement value, plus a value-free wiring check of "
         "every entry, wiring_ok_all), and therefore it is the ISA's encoding of that mnemonic (opcode_word_is_isa_encoding). (3) "
         "Thorough tier: the independent ISA decoder inverts that encoding at the opcode word for every canonical instruction and every "
         "combination of field values - proved by arithmetic, not enumerated: the operand fields of each of the 16 formats fill the low bits of "
         "the word, a word matches an entry exactly when it lies in [base, base + 2^bits), the ranges of different entries do not meet "
         "(Deep/C01Decode: clear_eq, matches_iff, table_apart, fields_read_back, decoder_finds_the_instruction). Tie: every mnemonic x every operand-form combination assembled by the real code, compared "
         "word for word with the character-level model of get_opcode/compile_insn and decoded by the executable Lean Spec decoder "
         "(operation, operands, order, values, length).",
    design_ref="DESIGN.md §5 C01",
    technique="Lean 4 theorems (decide +kernel over the complete regenerated opcode table against an independent ISA table; induction over digit lists and bit positions for the substitution lemma) + exhaustive-by-form model/implementation correspondence + Spec decoder",
    note=NOTE + "Spec/Isa.lean is hand-written from the DEC handbooks (non-DEC mnemonics adopted from the pinned implementation). Proved for the "
         "opcode word; which operand class and which field value an operand's syntax denotes (operand classification, extension words) is "
         "the modelled encodeRM/encodeStub compared exhaustively by form with the code, and decoded by the executed decoder - not a theorem.",
)

CLAIMED["C13"] = dict(
    text="Theorems about the model of formats.py/bk_wav.py: raw is the bytes; bin is base and length as little-endian words then the bytes "
         "(and refuses what does not fit); the WAV file parses, by an independent RIFF reader, as 8-bit mono PCM whose data chunk is exactly "
         "the pulse train, for every data length and rate; the stored checksum equals the BK-0010 end-around-carry sum for every block "
         "(induction); bits are emitted LSB first; the tape header is base, length, 16-byte name; the regenerated pulse shapes are read by "
         "the independent pulse detector as (sync, short)=0, (sync, long)=1, 8-sample marker, pilots. End to end, for EVERY image "
         "(wav_roundtrip): the file encode_as_wav produces parses as 8-bit mono PCM and its data chunk demodulates - by the model of the "
         "BK-0010 monitor's reading at normal speed (demodNormal_encode) and by the one-pulse-per-bit reading in turbo (demodTurbo_encode) - "
         "to exactly the load address, length, padded name, image bytes and end-around-carry checksum. The name itself (Model.Container.tapeName): "
         "an explicit name is written as given, an inferred one is the file name of the output path without a final '.wav', nothing else is "
         "removed (explicit_name_kept, inferred_keeps_other, inferred_strips_wav, baseName_no_slash, baseName_suffix). Proved through a general lemma that "
         "the run-length detector reads any well-formed run list as one pulse per high run (pulses_runs), the run structure of the emitted "
         "train (turbo_runs, normal_runs) and the logical layer of both formats (demodNormal_ideal_partial, demodTurbo_ideal_partial: "
         "_partial because they speak about ideal pulse lists; the end-to-end theorems close the gap). "
         "Tie: file_formats on images incl. byte sums that are multiples of 65535 compared with the model (length + hash of the whole file), "
         "every WAV demodulated by the executable Lean BK-0010/turbo demodulator, every output selector and path form through main_cli.",
    design_ref="DESIGN.md §5 C13",
    technique="Lean 4 theorems (induction over byte lists, bit lists and run lists, omega, decide +kernel on regenerated shapes) + whole-file model/implementation correspondence + executable Spec demodulator",
    note=NOTE + "The demodulators are hand-written specifications (Spec/Tape.lean) of how a BK-0010 reads a tape; that a real machine's "
         "comparator and monitor loop read the samples so is outside any proof. Path derivations are judged directly on CLI runs "
         "(os.path taken as given), not modelled in Lean.",
)

CLAIMED["C19"] = dict(
    text="Theorems about the model of generate_listing for every symbol table: the group listed under a file is a permutation of that "
         "file's ordinary symbols (each exactly once), it is ordered by (value, name) with a proved-total, proved-transitive order, the "
         "printed digits read back in base 8 as the magnitude of the value (at least six digits, sign printed separately), file headings "
         "are complete and unique, the --lst path always ends in .lst. Tie: main_cli --lst on generated multi-file programs with negative "
         "and > 16-bit constants x 9 output selectors; the .lst text and path compared with the model; every line judged directly against "
         "Compiler.symbols and every listed label against the marker word that follows it in the image.",
    design_ref="DESIGN.md §5 C19",
    technique="Lean 4 theorems (insertion-sort permutation/sortedness, base-8 round trip by induction) + model/implementation correspondence on CLI runs",
    note=NOTE + "That a label's value equals the offset of the byte after it is C02's theorem; here it is checked on every run with marker words.",
)

CLAIMED["C05"] = dict(
    text="Theorems about the model of the operator implementations on unbounded Int: for b != 0, a = b*(a/b) + (a%b) with the remainder "
         "between 0 and b (floor semantics, both signs of the divisor); division by zero and negative shift counts are reported; << is "
         "multiplication by 2^b, >> and _ are floor division by 2^b; & | ^ ~ are bit-for-bit the Boolean combination of the two's-complement "
         "bits of (possibly negative) operands at every bit position (via Mathlib's Int.testBit lemmas); ~x = -x-1; the regenerated operator "
         "table has exactly the C-like precedences, left associativity and implementations; shift counts beyond MAX_SHIFT are reported "
         "(absurd_shift_reports). The operator-precedence loop of parser.expression for chains of infix operators is a total function "
         "(Model.Shunt) with three theorems: its tree reads back in order as exactly the tokens given (flatten_shunt, any precedences), "
         "for left-associative operators it is in precedence normal form - left child binds at least as tightly, right child strictly "
         "more (shunt_normal) - and that normal form is unique (normal_unique), so the loop returns the one C-like reading of the chain "
         "(shunt_is_the_reading); random unbracketed chains over all 12 infix operators are parsed by the real parser and compared tree "
         "for tree with Shunt.shunt. With the prefix operators that may stand in front of the first operand (pushed on the same stack, "
         "Model.ShuntP): when every prefix operator binds tighter than every infix operator of the chain - which the regenerated table "
         "satisfies for + - ~ ^C (table_meets_prefix_hypothesis) - the tree of '- ~ a * b + c ...' is the tree of 'a * b + c ...' with a "
         "replaced by -(~a), for chains of any length (prefix_binds_tightest, by running the two loops in step: popWhile_commutes, "
         "shuntAux_commutes); chains with 1-4 leading prefix operators through the real parser against ShuntP.shuntP. Expressions inside "
         "'.repeat' blocks are judged pass by pass. The model's own transliterated parser and "
         "evaluator are tied to the code by correspondence on random trees of depth <= 6 in every bracket style and literal spelling; the "
         "independent Lean Spec evaluator judges every value on the generator's tree.",
    design_ref="DESIGN.md §5 C05",
    technique="Lean 4 theorems (omega, core Int lemmas, Mathlib Int.testBit; induction over the operator stack for the precedence loop) + parser/evaluator model vs implementation correspondence + independent Spec evaluator",
    note=NOTE + "The Shunt theorems cover chains of infix operators with leading prefix operators; operands are opaque (a literal or a bracketed sub-expression, parsed by a recursive call); that the full parser (brackets, literals - a partial "
         "definition in the model) feeds that loop as modelled is tied by the tree-for-tree comparison and the value oracle, not by a theorem. Grammar G admits "
         "prefix operators only where a (sub)expression starts (the implementation rejects 'a + ~b' with an error).",
)

CLAIMED["C17"] = dict(
    text="Theorems for every text and position about the model of Context.__repr__: the count/rfind formula equals a left-to-right scan "
         "with a tab counting four columns (induction over the prefix), positions are monotone in (line, column) so start <= end prints with "
         "start not after end, the line is within the file's line count and line/column start at 1. Tie: Context.__repr__ on random texts "
         "with tabs, CR and non-ASCII against the model; 35 fault kinds planted after random filler (tabs, non-ASCII comments) in the main "
         "file, a second linked file and an included file: the first error report must name that file and start at the planted token "
         "(scan position), every location of every report must lie inside its file with start <= end, and the bare format must print the "
         "same line:column.",
    design_ref="DESIGN.md §5 C17",
    technique="Lean 4 theorems (induction on the text prefix) + model/implementation correspondence + planted-fault oracle",
    note=NOTE + "Which token the implementation blames for a fault is not proved: it is checked per fault kind against the expectation frozen in "
         "harness/p_c17.py (the token a reader would call the culprit; for statement-level faults the statement start). Token spans of the "
         "parser are additionally compared with the transliterated Lean parser (C10 check).",
)

CLAIMED["C18"] = dict(
    text="Theorems about a model of the module-level state (try_compute.depth, Awaiting.awaiting_stack with the is_awaiting flags, "
         "handle_reports.handlers_stack with the error latch) and of a language of computations built from the three bracket classes, "
         "emit_report, raise and try/except: every such computation, on every exit path (normal, NotReadyError, DeferredCycle, "
         "RecoverableError, UnrecoverableError, anything else), restores depth, awaiting stack and handler identities from any state, ends "
         "in the initial state when started there, and hence a probe after any history of assemblies runs exactly as in a fresh state "
         "(induction over computations and histories). Tie: random computations executed with the real context managers and exception "
         "classes against the model (exception in flight, final state, delivered reports); histories of <= 50 real assemblies + probe; "
         "fresh processes under several PYTHONHASHSEED values; AST audit that the state is only written inside the bracket classes.",
    design_ref="DESIGN.md §5 C18",
    technique="Lean 4 theorems (structural induction over a bracket-computation language) + model/implementation correspondence of the real context managers + history and hash-seed runs",
    note=NOTE + "Partial: hash randomisation, interpreter state and per-token caches are runtime behaviour the model cannot exhibit; they are covered only by the differential runs.",
)

CLAIMED["C07"] = dict(
    text="Theorems about the model of main_cli's control flow built on the C18 State model of handle_reports/emit_report: for every list "
         "of report severities the compile block fails iff at least one report is not a warning (induction over the reports, closed "
         "form of the latch), exit status is non-zero iff an error-severity report was issued, a failed run performs no write, a run with "
         "only warnings succeeds and writes exactly the requested outputs in order, removing any subset of warnings (FilterHandler under "
         "any -W selection) leaves exit status and writes unchanged, a critical report is an error. Tie: main_cli runs in a scratch "
         "directory on programs with 0-3 planted faults/warnings x both report formats x random -W sets x all output selectors: exit and "
         "number of files against the model; directly: exit != 0 iff errors > 0 iff an error report is displayed, directory untouched on "
         "failure, identical (exit, files, bytes) across every -W / format choice.",
    design_ref="DESIGN.md §5 C07",
    technique="Lean 4 theorems (induction over report lists on the State model) + model/implementation correspondence on CLI runs",
    note=NOTE + "Partial: unreadable/unwritable paths and other OS failures (which exit 1 without a diagnostic by design) are outside the model.",
)

CLAIMED["C02"] = dict(
    text="Part 1 (per statement kind, over the regenerated size= table): the sizes .byte/.word/.dword announce for 0-64 operands are "
         "max(n,1), 2*max(n,1), 4*max(n,1) (complete evaluation), these and the side-effect directives are the only ones that announce a "
         "size (so .include, .repeat, insert_file, .ascii, .blkb, .even, .align use their chunk's own length), and whenever the value-level "
         "model of .byte/.word/.dword/word list produces bytes without reporting an error they are exactly as many as announced "
         "(induction over operand lists). Part 2 (any sequence of statements): if every announced size is the length of the produced "
         "bytes then every statement's address is base + bytes before it, the image at that address is the statement's bytes, a label "
         "gets the address of the following byte and the image length is the sum of the sizes (induction). Part 3 (on the block-layout "
         "model of C16, where a statement is an arbitrary function of its address): the statement after any prefix is compiled at start + "
         "bytes emitted by the prefix and its bytes lie exactly there, a label marks the next byte, the block's length is the sum of the "
         "sizes measured at the addresses handed out (statement_sees_its_address, label_marks_next_byte, block_length). Tie: the PDPY11_VERIF hook "
         "trace checked model-free on generated programs (forward-known sizes, repeats, includes, inserted files, 1-3 files, random "
         "bases) and on the 21 practice programs; the same programs assembled by the whole-program Lean model (image, base, errors).",
    design_ref="DESIGN.md §5 C02",
    technique="Lean 4 theorems (decide +kernel on the regenerated size table, induction over statement lists) + hook-trace invariant + whole-program model/implementation correspondence",
    note=NOTE + "The whole-program model (Model/Asm.lean) is executable and compared with the code on every run, but its recursive evaluator is "
         "'partial': the layout theorem is about abstract statement lists whose sizes satisfy part 1, not about that evaluator.",
)

CLAIMED["C09"] = dict(
    text="Theorems about the affine arithmetic (Lin: coef*base + const) the executable whole-program model uses for every address: each "
         "operation commutes with choosing the base; for the relocation fragment of the expression language the numeric value at base b "
         "is the affine form evaluated at b (induction over expressions); moving the base by D moves a value by coef*D; an absolute address "
         "word (coef 1) changes by exactly D mod 2^16; a PC-relative displacement and a branch/SOB field to a target inside the program "
         "are identical at every base, as is their acceptance; hence the relocation law for images (only absolute words differ, each by D) "
         "and position independence of code without absolute words. Tie: generated programs of that fragment linked at three bases (one "
         "at the top of the address space; position-independent ones wrapping through 0o177777): word-wise classification of the "
         "differences, byte identity of the PIC stream, and the whole-program model at every base.",
    design_ref="DESIGN.md §5 C09",
    technique="Lean 4 theorems (omega, induction over the relocation fragment) + three-base metamorphic oracle + whole-program model/implementation correspondence",
    note=NOTE + "The theorems are about Lin and an explicit expression fragment; that the executable evaluator (Model/Asm.lean, partial) computes with "
         "Lin as stated is by construction (it calls Lin.add/sub/neg/scale/force) and is checked against the code on every run.",
)

CLAIMED["C12"] = dict(
    text="Theorems about the total functions the executable model uses to decide the base (Link.decideBase, setLink, skipBytes) on top of "
         "the affine arithmetic of C09: the default base is 0o1000; when the base cancels in the link expression (relocation fragment) "
         "and the value fits 16 bits the base is that value, and evaluating the expression at any base - in particular at the base "
         "itself - gives it back (fixpoint); a base with a non-zero coefficient of itself, or one that had to be known to evaluate its "
         "own expression, is recursive-definition; a value outside 16 bits is value-out-of-bounds; the first .link wins and every later "
         "one is a conflict (any number of them); '. = X' is accepted iff X is not lower and then emits exactly X - old zero bytes. "
         "The engine behind 'the dependence cancels' - deferred.LinearPolynomial, modelled as Model.Poly (insertion-ordered coefficient "
         "list, constant): the constructor merges duplicates and drops zeros without changing the meaning (eval_mk), + / * by a known "
         "integer / unary - are ring homomorphisms of the meaning (eval_add, eval_mulConst, eval_neg), every variable occurs once and "
         "never with coefficient 0 (mk_nodup, mk_nonzero), a variable disappears from the polynomial if and only if its coefficients sum "
         "to zero (cancel_iff) and the value then does not depend on it (eval_indep), moving the base by D moves the value by coefficient "
         "x D (eval_shift), _substitute_known and a whole round of _wait keep the meaning under every assignment consistent with what is "
         "settled (eval_substKnown, eval_waitRound), the number wait() returns is the arithmetic value and two states of knowledge can never "
         "give two numbers (waitP_sound, waitP_deterministic). Tie: "
         "link expressions K + sum k_i (L_i - L_j) in six syntactic shapes with the labels anywhere in 1-3 files and the directive "
         "anywhere, self-dependent and oversized variants, second .link, no .link, leading '. =', skips -64..64: the generator's own "
         "expected base, and the whole-program model; skips whose amount, target or link base is known only further down; random operation "
         "scripts on the real LinearPolynomial / Promise classes compared step by step (coefficients in order, constant, wait outcome) "
         "with Model.Poly and with integer arithmetic.",
    design_ref="DESIGN.md §5 C12",
    technique="Lean 4 theorems (case analysis, omega, induction over later .link statements, over coefficient lists and over rounds of substitution) + generator-known expected base + whole-program model/implementation correspondence",
    note=NOTE + "The model keeps only the link base symbolic; the implementation also keeps the sizes of not-yet-computed chunks symbolic, so a "
         "difference of labels with an address-dependent directive *before both* of them is solved by the code but not by the model "
         "(DESIGN.md, model limitations); the generator of this check keeps such directives out of link programs.",
)

CLAIMED["C11"] = dict(
    text="Theorems about Model.Scope, the name handling the executable whole-program model calls (qualified names '.local<k>.<name>' / "
         "'.internal<k>.<name>', lookup, define, resolve): the decimal rendering of the counters is injective and the qualified name "
         "determines (counter, name), so names of different scopes or files never collide (qualified_injective); a local definition "
         "binds in its own scope and is found first (local_binds_own_scope, own_definition_first); an exported name is found from "
         "every file exactly when neither the scope nor the file defines it (exported_visible); with no export and no own definition "
         "the lookup fails whatever other files define (invisible_elsewhere); a second definition of a qualified name is refused and "
         "leaves the table unchanged (duplicate_reports); a fresh definition is found again (define_then_lookup); over EVERY history of "
         "definition attempts, accepted or refused: the keys stay pairwise distinct, a binding once made is the binding at every later "
         "point, a definition changes the lookup of no other name, the first definition of a name is the one found ever after "
         "(attempts_nodup, attempts_keep, attempt_other, first_definition_wins). Tie: 'scope worlds' "
         "(1-3 linked files, include trees of depth <= 3, one pool of 8 ordinary and 6 local names reused everywhere, every export "
         "form in every order, respelled references, one injected fault in 35% of the worlds) where the generator derives every "
         "binding, the whole image and the expected errors from the rules of the property; the same worlds through the whole-program "
         "Lean model with diagnostics and positions.",
    design_ref="DESIGN.md §5 C11",
    technique="Lean 4 theorems (induction on digit lists and association lists, case analysis) + rule-derived expected image/errors + whole-program model/implementation correspondence",
    note=NOTE + "A reference inside a '.repeat' block does not see the local labels of the scope around the block (the block opens its own "
         "scope in the code and in the model); the property is silent about blocks and the check does not judge such programs.",
)

CLAIMED["C03"] = dict(
    text="Theorems about Scope.lookup/define (the table functions the whole-program model calls) and the total lazy evaluator Defs.eval "
         "(recursion through the definition table, operators of Model.Ops): for definitions with distinct names, after any permutation of "
         "the table every name finds the same definition (lookup_perm), every expression has the same value and the same error reports "
         "for every fuel, i.e. through chains of any length (eval_perm), moving one definition anywhere changes nothing "
         "(move_definition); the table built from the source order is that order and a second definition is refused wherever it "
         "stands (defineAll_spec, defineAll_dup), so the whole result - refused, or the list of emitted values with their reports - "
         "is the same for every order (image_perm); values do not depend on the fuel once it suffices (fuel_mono, fuel_irrelevant, "
         "fuel_unique) and enough fuel exists for every acyclic table - ranks bounded by R, body sizes by S: fuel size e + (R+1)(S+1) gives every "
         "expression a value, so running out of it means a definition cycle (fuel_enough, out_of_fuel_means_cycle; the driver uses that bound); an additive chain of any length n evaluates to c + n in every order of its definitions (chain_value, "
         "chain_value_any_order); definitions added later never capture a reference that already has one (eval_append_of_ok); for the "
         "engine's symbolic arithmetic (Model.Poly = deferred.LinearPolynomial): whatever is settled at the time, two waits that arrive at "
         "a number arrive at the same one, the arithmetic value (lazy_value_order_independent); for the engine's memoised thunks (Model.Thunk = "
         "deferred.Deferred under try_compute): a remembered value and a remembered give-up (valid for one readiness epoch) never make a "
         "wait answer differently from the engine without memory, the memories stay truthful after every wait and every settlement, after "
         "ANY history of waits and settlements, and a number answered once is answered ever after (memo_sound, inv_settle, "
         "wait_after_any_history, answer_is_final). Tie: "
         "definition tables in 5 placements against each other and against Defs.image; chains to depth 300/30 in 5 orders with the "
         "value known to the generator; one constant in 33 operand/directive positions, 4 placements, against the literal program; "
         "generated programs with definitions moved/permuted (also through the whole-program model); practice programs with "
         "literal definitions moved; includes between the uses; operation scripts on the real LinearPolynomial/Promise classes against "
         "Model.Poly and integer arithmetic; random DAGs of real Deferred thunks over promises, waited speculatively and settled in random "
         "order, against Model.Thunk (answers and both memories after every wait) and against the memory-less evaluation.",
    design_ref="DESIGN.md §5 C03",
    technique="Lean 4 theorems (induction on permutations, on fuel and on chain length) + metamorphic reordering oracle on the implementation + Defs/whole-program model correspondence",
    note=NOTE + "The theorems are about the final table (every definition entered); that the implementation's eager 'try now, else defer' "
         "evaluation never uses a table that is still incomplete is what the reordering oracle and the correspondence check decide "
         "(they found F-C03-1, repaired by 71b160f). Definitions containing '.' or local labels are position-dependent by meaning "
         "and are not moved.",
)

CLAIMED["C16"] = dict(
    text="Theorems about Model.Layout, where a statement is an arbitrary function of the address it is emitted at (so every operand form "
         "and expression, including '.', is an instance) and emitBlock / repeatEmit / linkFiles are compile_block, '.repeat' and "
         "compile_and_link_files: '.repeat n { body }' emits exactly what the body written out n times emits, every copy at its own "
         "address, for every n, also in any context and hence for nested repeats (repeat_unroll, repeat_unroll_in_context); linking files "
         "equals assembling their concatenation (link_concat); '.end' discards exactly the rest of its own file - not the files linked "
         "after it, not the includer (end_discards, end_discards_own_file_only, end_in_include); an include is its statements in place "
         "(include_inline); '.once' lets the first compilation through and stops every later one (once_first, once_again); the chunk of "
         "'insert_file' equals what '.byte b1,...,bn' emits, with no report (insert_eq_byte, over Directive.byteDir). Which file a path names "
         "(Model.Path = devices.resolve_relative_path, the key under which '.once' counts): './' and doubled slashes anywhere, and "
         "'name/../' anywhere, do not change it; resolving is idempotent; a resolved path has no '.', no empty component and '..' only in "
         "front of a relative path (norm_insert_dot, norm_insert_updown, norm_idem, norm_clean). Tie: pairs "
         "(program, written-out equivalent) on the real assembler - layout-language programs also against Layout.linkFiles, rich "
         "repeat bodies, concatenation, insert_file vs .byte, .end vs truncation, .once vs single inclusion (also under several spellings "
         "of the path, and with the file linked as well as included) - and both members through the whole-program model; random base "
         "files and relative paths through the real resolve_relative_path against Model.Path.",
    design_ref="DESIGN.md §5 C16",
    technique="Lean 4 theorems (induction on statement lists, on n and on the file list) + metamorphic equivalence oracle on the implementation + Layout/whole-program model correspondence",
    note=NOTE + "The premise of the theorems is that a statement's bytes depend on its address only. That a statement inside a repeat body really "
         "is such a function - no state shared between copies - is what the rich-body stream decides (it found F-C16-1 and F-C16-2, "
         "repaired by 6d3d794 and 0c5f87f). '.end' inside a '.repeat' body ends that copy only (compile_block catches the stop); the "
         "property speaks of files, the model and the code agree on blocks.",
)

CLAIMED["C10"] = dict(
    text="Theorems about the total functions the parser and encoder models call, one per rewrite rule with a value-level content: a number "
         "rendered in any radix 2..16 is read back by Parse.intOf as the number, so octal/decimal/hex/binary spellings agree "
         "(radix_roundtrip, radix_irrelevant); hex digits in either case have the same value (digitVal_upperC, intOf_upper); every table "
         "lookup goes through lowerS and upper-casing a name does not change that key, so instruction, directive, register and builtin "
         "lookups are case-blind (lowerC_upperC, lowerS_upperS, lowerS_idem, lookups_case_blind, lookups_upper); sp/pc are r6/r7 and "
         "%N is rN in every register operand form (register_aliases, percent_is_register, percent_operands); '(rN)' and legacy '@rN' "
         "give the same field, words and errors - only a warning differs (legacy_deferred); the implicit word list equals '.word' for "
         "every non-empty list at every address (implicit_word_list); mnemonic synonyms: C01.synonyms_encode_equal. Tie: each rule "
         "alone on a fixed program; generated programs x 4 variants (structured re-rendering + textual rules); the 21 practice "
         "programs respelled; variants through the whole-program model, whose parser must read every spelling as the Python parser does.",
    design_ref="DESIGN.md §5 C10",
    technique="Lean 4 theorems (induction on digits, exhaustive case analysis on ASCII letters and register numbers, decide over the register table) + metamorphic respelling oracle on the implementation + whole-program model correspondence",
    note=NOTE + "Whitespace, blank lines, comments and the three bracket spellings have no value-level content (they vanish in the syntax tree): "
         "for them there is no theorem - the parser model is a partial definition - and the respelling oracle and the model "
         "correspondence are what decides. Lines with string-like operands are only surrounded by new blank/comment lines, never edited.",
)

CLAIMED["C08"] = dict(
    text="Theorems: the value-level core consists of total functions (they terminate on every input by construction), and every way they "
         "fail is loud - Loud m: success only grows the error log, an abort comes with at least one new error report, the internal-error "
         "outcome is unreachable - proved compositionally (loud_pure, loud_err, loud_bind, loud_mapM, loud_err_abort) and for get_as_int "
         "in both flavours, register numbers, every CPU operand form of the register-mode field, register and accumulator fields, "
         "the report loop of offset/immediate fields, and the directives .byte .word implicit-list .blkb .blkw .align .ascii "
         "(loud_getAsIntM ... loud_asciiImpl); and for the whole instruction encoder: for every entry of the regenerated table, any "
         "number of operands of the classes its stubs expect, at any address, compileInsn ends in words or in an abort preceded by an "
         "error report, never in the internal-error outcome - get_opcode cannot fail by C01.getOpcode_numeric (loud_encodeStub, "
         "loud_encodeOperands, encodeOperands_shape, loud_compileInsn); the lazy evaluator reports every undefined name and never gives a value to 'a = a' or "
         "'a = a + k' at any fuel (undefined_reports, self_reference_no_value, self_increment_no_value); in the report machinery an "
         "error or critical report always turns the run into a failure and warnings never do (error_report_fails, "
         "critical_report_fails, warning_report_passes); the stack of values being computed (deferred.Awaiting) makes every wait end on "
         "every graph of thunks, cyclic or not, within a fuel fixed by the sizes alone, reports a cycle only when some thunk depends on "
         "itself, never on a graph that has a rank, and changes no other answer; the same termination holds for the model of the code itself, "
         "stack plus both memories (Await.wait_ends, cycle_sound, acyclic_no_cycle, agrees_with_plain, memo_wait_ends; Model/Await.lean is tied to the real Awaiting/Deferred/Promise by scripts of waits and settlements on random "
         "cyclic graphs, verb await). Tie and search: grammar G - every mnemonic and directive, every operand "
         "form and operator, three bracket kinds, all number/character/string spellings, nesting <= 8, planted faults, token- and "
         "character-level mutation, plus every infix operator x 9 kinds of left and right operand and chains of 2-58 definitions through 0-7 "
         "nested operators - in-process under a watchdog and through the CLI with both report handlers; outcome must be ok or "
         "failed-with-an-error-report; the first witness of each new crash site is shrunk.",
    design_ref="DESIGN.md §5 C08",
    technique="Lean 4 theorems (totality by construction, a compositional 'Loud' invariant over the error-log monad, induction on fuel) + grammar-directed exploration with planted faults and mutation under a watchdog (search for failing inputs; not a proof)",
    level="partial",
    note=NOTE + "Partial: the parser and the whole-program elaboration are partial definitions in the model (termination not proved) and Python-level "
         "failures (recursion depth, int-to-str limits, I/O) have no counterpart in it; for the property as stated over all source texts the "
         "exploration is a search, not a proof. Defects it found are listed in known_findings.txt (fixed: lines) and DESIGN.md.",
)

PENDING_REASON = "check not built yet (build in progress; see DESIGN.md §8 for the order)"


def main():
    props = [json.loads(l) for l in open(os.path.join(ROOT, "properties.jsonl"), encoding="utf-8")]
    checks = []
    na = []
    for p in props:
        pid = p["id"]
        c = CLAIMED.get(pid)
        if c is None:
            na.append({"property_id": pid, "reason": PENDING_REASON})
            continue
        checks.append({
            "property_id": pid,
            "quick_cmd": "./check %s --tier quick" % pid,
            "thorough_cmd": "./check %s --tier thorough" % pid,
            "evidence_file": "evidence/%s.json" % pid,
            "replay_cmd_template": "./check %s --replay {path}" % pid,
            "engine": "lean4-model",
            "level_claimed": {"category": "proof", "text": c["text"], "design_ref": c["design_ref"]},
            "level_note": c["note"],
            "technique": c["technique"],
        })
    m = {
        "version": 1,
        "setup_cmd": "PYTHONPATH=/repo /venv/bin/python tools/extract.py && cd lean && lake build",
        "hooks": {
            "guard": "PDPY11_VERIF",
            "enable": "PDPY11_VERIF=1 in the environment of the python process that imports /repo/pdpy11 (the harness sets it)",
            "baseline_off_cmd": "cd /repo && /venv/bin/python -m pytest -ra -q -p no:cacheprovider --timeout=900 --continue-on-collection-errors",
            "source_commits": HOOK_COMMITS,
            "add_only": True,
        },
        "engines": [{
            "name": "lean4-model",
            "path": "lean/",
            "serves_properties": sorted(CLAIMED),
            "kind_free_text": "Lean 4 model + theorems (lake project, core Lean + single Mathlib modules in proofs), tables regenerated from /repo by tools/extract.py, native model driver compared with the in-process implementation by harness/*.py",
        }],
        "checks": checks,
        "notes": "Every check: extract tables -> lake build of the property's theorems -> axiom audit -> correspondence -> direct oracle; see DESIGN.md §1.4. Exit 2 = infrastructure trouble.",
        "not_applicable": na,
    }
    with open(os.path.join(ROOT, "MANIFEST.json"), "w", encoding="utf-8") as f:
        json.dump(m, f, indent=1)
    print("claimed:", sorted(CLAIMED), "pending:", [x["property_id"] for x in na])


HOOK_COMMITS = ["0975607"]

if __name__ == "__main__":
    main()
