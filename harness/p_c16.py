"""C16 structural directives preserve meaning.

Every case is a pair (program, equivalent program) assembled by the real code; the images and
the outcome must be equal.  Streams:
  layout    programs of the statement language of Model.Layout (fixed bytes, '.even', '.word . + k',
            '.blkb', nested '.repeat', includes, '.end', '.once') in 1-3 files: the implementation
            against Layout.linkFiles (the function of the theorems) and against the unrolled /
            concatenated / truncated program;
  repeat    '.repeat n { body }' with bodies over every operand form and expression shape ('.',
            indexed operands with symbolic offsets, / % << >>), n in 0-40 (also a symbol defined
            later), nesting <= 3, against the body written out n times;
  concat    1-3 generated files with disjoint names against their concatenation;
  insert    insert_file of 0-300 bytes against the same bytes as '.byte' data;
  end       '.end' anywhere (main file, first of several, included file) against the truncated file;
  once      a file starting with '.once' included 1-3 times (also through another include) against
            including it the first time only.
Both members of every pair also go through the whole-program Lean model."""
import json
import os

from . import impl, asmrun
from .gen import ProgramGen, render, item_text, Item, expr_text, operand_text

NOP = [0o240 & 255, 0o240 >> 8]


def sig(r):
    return (r.outcome, r.base, r.code, tuple(r.error_ids()))


class Pairs:
    """collects (what, files_a, files_b, nmain_a, nmain_b, bins) and runs them"""

    def __init__(self, ctx):
        self.ctx = ctx
        self.reqs = []
        self.jobs = []

    def run_files(self, files, nmain, bins):
        d = impl.scratch_dir()
        try:
            real = [(os.path.join(d, p), t) for p, t in files]
            for p, t in real:
                os.makedirs(os.path.dirname(p), exist_ok=True)
                with open(p, "w", encoding="utf-8") as f:
                    f.write(t)
            for p, b in bins:
                with open(os.path.join(d, p), "wb") as f:
                    f.write(b)
            return impl.assemble(real[:nmain])
        finally:
            impl.drop_scratch(d)

    def pair(self, what, a, b, bins=(), model=True, key=None, nontrivial=True, same_errors=True):
        """a, b: (files [(basename, text)], nmain)"""
        ctx = self.ctx
        ra = self.run_files(a[0], a[1], bins)
        rb = self.run_files(b[0], b[1], bins)
        ctx.case(key or json.dumps([a[0], b[0]]), nontrivial=nontrivial)
        ctx.count(what)
        ctx.count("%s: outcome %s" % (what, ra.outcome))
        inp = {"what": what, "program": a[0], "nmain": a[1], "equivalent": b[0], "nmain_equivalent": b[1], "bins": [(p, bb.hex()) for p, bb in bins]}
        if "hang" in (ra.outcome, rb.outcome):
            # running time is the subject of C08; without two results there is nothing to compare
            ctx.count("%s: watchdog fired, pair not compared" % what)
            return ra, rb
        for r in (ra, rb):
            if r.outcome == "crash":
                ctx.violation(what + ": ended in an internal error", inp, expected="a result or reported errors", observed=r.exc)
                return ra, rb
        sa = sig(ra) if same_errors else (ra.outcome, ra.base, ra.code)
        sb = sig(rb) if same_errors else (rb.outcome, rb.base, rb.code)
        if sa != sb:
            ctx.violation(what + ": the program and its written-out equivalent assemble differently", inp, expected=rb.summary(), observed=ra.summary())
            return ra, rb
        if model:
            for files, nmain, r in ((a[0], a[1], ra), (b[0], b[1], rb)):
                mfiles = [("/w/" + p, t) for p, t in files]
                mbins = [("/w/" + p, bb) for p, bb in bins]
                self.reqs.append(asmrun.asm_request(mfiles, nmain, mbins))
                self.jobs.append((what, files, r))
        return ra, rb

    def finish(self):
        ctx = self.ctx
        for (what, files, r), ans in zip(self.jobs, ctx.driver.ask(self.reqs)):
            m = asmrun.parse_answer(ans)
            if m["outcome"] == "unsupported":
                ctx.count("model: unsupported (%s)" % what)
                continue
            bad = None
            if m["outcome"] == "ok":
                if r.outcome != "ok" or r.base != m["base"] or r.code != m["code"]:
                    bad = "image/base"
            elif m["outcome"] == "failed":
                mi = sorted({x.split(":")[1] for x in m["diags"] if not x.startswith("warning")})
                if r.outcome != "failed" or ("aborted" not in m.get("note", "") and mi != r.error_ids()):
                    bad = "errors %s" % mi
            else:
                bad = "model " + m["outcome"]
            if bad:
                ctx.disagree("whole-program model (%s): %s" % (what, bad), {"files": files},
                             {"outcome": m["outcome"], "base": m["base"], "code": m["code"].hex()[:120], "diags": m["diags"][:6], "note": m.get("note")}, r.summary())
        self.reqs, self.jobs = [], []


# ------------------------------------------------------------------ stream: layout language
def gen_S(rng, depth, budget, allow_end=True):
    """list of S items: ('b', bytes) ('w', k) ('e',) ('k', n) ('r', n, body) ('x',)"""
    out = []
    for _ in range(rng.randint(1, 5)):
        k = rng.random()
        if k < 0.3:
            out.append(("b", [rng.randrange(256) for _ in range(rng.randint(1, 4))]))
        elif k < 0.5:
            out.append(("e",))
            out.append(("w", rng.randrange(0, 20)))
        elif k < 0.6:
            out.append(("e",))
        elif k < 0.7:
            out.append(("k", rng.randrange(0, 7)))
        elif k < 0.93 and depth > 0:
            n = rng.choice([0, 1, 2, 2, 3, 3, 4, 5, 7, 12, 40]) if budget[0] > 200 else rng.choice([0, 1, 2])
            budget[0] //= max(n, 1)
            out.append(("r", n, gen_S(rng, depth - 1, budget, allow_end)))
        elif allow_end and rng.random() < 0.25:
            out.append(("x",))
        else:
            out.append(("b", NOP))
    return out


def S_text(items, indent=""):
    lines = []
    for it in items:
        k = it[0]
        if k == "b":
            lines.append(indent + ".byte " + ", ".join("%o" % b for b in it[1]))
        elif k == "w":
            lines.append(indent + (".word . + %o" % it[1] if it[1] else ".word ."))
        elif k == "e":
            lines.append(indent + ".even")
        elif k == "k":
            lines.append(indent + ".blkb %o" % it[1])
        elif k == "r":
            lines.append(indent + ".repeat %d. {" % it[1])
            lines.append(S_text(it[2], indent + "  "))
            lines.append(indent + "}")
        elif k == "x":
            lines.append(indent + ".end")
        elif k == "o":
            lines.append(indent + ".once")
        elif k == "i":
            lines.append(indent + '.include "%s"' % it[1])
    return "\n".join(lines)


def S_tokens(items, incs=None, counts=None):
    toks = []
    stopped = False
    for it in items:
        k = it[0]
        if k == "x" or (k == "o" and counts["cur"] > 1):
            stopped = True
        if k == "i" and stopped:
            continue        # never compiled: it does not count as a compilation of that file
        if k == "b":
            toks.append("b:" + ",".join(map(str, it[1])))
        elif k == "w":
            toks.append("w:%d" % it[1])
        elif k == "e":
            toks.append("e")
        elif k == "k":
            toks.append("k:%d" % it[1])
        elif k == "r":
            toks += ["r:%d" % it[1], "["] + S_tokens(it[2], incs, counts) + ["]"]
        elif k == "x":
            toks.append("x")
        elif k == "o":
            toks.append("o:%d" % counts["cur"])
        elif k == "i":
            counts[it[1]] = counts.get(it[1], 0) + 1
            saved = counts.get("cur")
            counts["cur"] = counts[it[1]]
            toks += ["i:%d" % counts[it[1]], "["] + S_tokens(incs[it[1]], incs, counts) + ["]"]
            counts["cur"] = saved
    return toks


def has_stop(items):
    return any(it[0] in ("x", "o") or (it[0] == "r" and has_stop(it[2])) for it in items)


def unroll(items):
    out = []
    for it in items:
        if it[0] == "r":
            body = unroll(it[2])
            if has_stop(it[2]):
                out.append(("r", it[1], body))
            else:
                out += body * it[1]
        else:
            out.append(it)
    return out


def truncate(items):
    """the statements before the first top-level '.end'"""
    out = []
    for it in items:
        if it[0] == "x":
            break
        out.append(it)
    return out


def stream_layout(ctx, P, rng, n):
    reqs, jobs = [], []
    for _ in range(n):
        nfiles = rng.choice([1, 1, 2, 3])
        files = [gen_S(rng, 3, [1200], allow_end=rng.random() < 0.4) for _ in range(nfiles)]
        incs = {}
        if rng.random() < 0.4:
            # included files (top level only), some starting with '.once', included 1-3 times
            for j in range(rng.randint(1, 2)):
                name = "li%d.mac" % j
                body = gen_S(rng, 2, [100], allow_end=rng.random() < 0.3)
                if rng.random() < 0.6:
                    body.insert(0, ("o",))
                incs[name] = body
                for _k in range(rng.randint(1, 3)):
                    f = rng.choice(files)
                    f.insert(rng.randrange(len(f) + 1), ("i", name))
        base = rng.choice([0o1000, 0o1000, 0o2000, 0o40001, 0o157776])
        texts = [(".link %o\n" % base if i == 0 else "") + S_text(f) + "\n" for i, f in enumerate(files)]
        prog = [("l%d.mac" % i, t) for i, t in enumerate(texts)] + [(nm, S_text(b) + "\n") for nm, b in incs.items()]
        # the written-out equivalent: repeats unrolled, '.end' truncation, one file
        eq_files = []
        stopped_early = False
        for i, f in enumerate(files):
            eq_files.append(unroll(truncate(f)))
        flat = [it for f in eq_files for it in f]
        eq_text = ".link %o\n" % base + S_text(flat) + "\n"
        eq_incs = [(nm, S_text(unroll(truncate(b))) + "\n") for nm, b in incs.items()]
        eq = [("l0.mac", eq_text)] + eq_incs
        ra, rb = P.pair("layout", (prog, nfiles), (eq, 1), model=False, nontrivial=any(it[0] == "r" for f in files for it in f))
        counts = {"cur": 1}
        toks = []
        for f in files:
            toks += ["f"] + S_tokens(f, incs, counts)
        reqs.append("layout %d %s" % (base, " ".join(toks)))
        jobs.append((prog, ra))
    for (prog, r), a in zip(jobs, ctx.driver.ask(reqs)):
        if r.outcome != "ok":
            # the layout language has no errors of its own except the 64K bound; nothing to compare
            ctx.count("layout: not ok in the implementation (%s)" % ",".join(r.error_ids()))
            continue
        want = bytes(int(x) for x in a.split(",")) if a not in ("-", "bad-op") else b""
        if a == "bad-op" or r.code != want:
            ctx.disagree("Layout.linkFiles", {"files": prog}, a[:200], r.summary())


# ------------------------------------------------------------------ stream: repeat with rich bodies
def rich_expr(g, rng, depth=2):
    k = rng.random()
    if depth == 0 or k < 0.3:
        return g.small_expr(1)
    if k < 0.5:
        # non-linear operators on '.' and on differences
        op = rng.choice(["/", "%", "<<", ">>", "*", "&"])
        left = rng.choice([("dot",), ("bin", "-", ("dot",), ("sym", g.any_symbol(True))), ("sym", g.any_symbol(False) or g.any_symbol(True)), ("dot",)])
        right = ("lit", rng.choice([1, 2, 3, 4]) if op in ("<<", ">>", "/", "%") else rng.randrange(1, 9))
        return ("bin", op, left, right)
    if k < 0.7:
        return ("bin", rng.choice(["+", "-"]), ("dot",), ("lit", rng.randrange(0, 30)))
    return ("bin", rng.choice(["+", "-", "+", "*", "|", "^"]), rich_expr(g, rng, depth - 1), rich_expr(g, rng, depth - 1))


def rich_body(g, rng, depth):
    body = []
    for _ in range(rng.randint(1, 4)):
        k = rng.random()
        if k < 0.35:
            mn = rng.choice(["mov", "add", "cmp", "bis", "movb", "sub"])
            ops = []
            for _o in range(2):
                kk = rng.random()
                if kk < 0.3:
                    ops.append(g.operand())
                elif kk < 0.5:
                    ops.append(("idx", rich_expr(g, rng, 1), rng.randrange(6)))     # symbolic / '.'-dependent index
                elif kk < 0.7:
                    ops.append(("imm", rich_expr(g, rng)))
                elif kk < 0.85:
                    ops.append(("rel", rich_expr(g, rng, 1)))
                else:
                    ops.append(("abs", rich_expr(g, rng, 1)))
            body.append(Item(kind="insn", mn=mn, ops=ops))
        elif k < 0.5:
            body.append(Item(kind="insn", mn=rng.choice(["clr", "inc", "tst", "jmp", "neg", "call", "push"]), ops=[g.operand() if rng.random() < 0.5 else ("idx", rich_expr(g, rng, 1), rng.randrange(6))]))
        elif k < 0.7:
            body.append(Item(kind="dir", name=".word", args=[rich_expr(g, rng) for _ in range(rng.randint(1, 3))]))
        elif k < 0.78:
            d = rng.choice([-4, -2, 0, 2, 6])
            tgt = ("dot",) if d == 0 else ("bin", "+" if d > 0 else "-", ("dot",), ("lit", abs(d)))
            body.append(Item(kind="insn", mn=rng.choice(["br", "bne", "sob_"]), ops=[("target", tgt)]))
            if body[-1]["mn"] == "sob_":
                body[-1] = Item(kind="raw", text="sob r%d, . - %o" % (rng.randrange(6), rng.choice([0, 2, 4])))
        elif k < 0.84:
            body.append(Item(kind="dir", name=".byte", args=[("lit", rng.randrange(0, 256)), ("lit", rng.randrange(0, 256))]))
        elif k < 0.87:
            body.append(Item(kind="insn", mn=rng.choice(["nop", "halt", "ret"]), ops=[]))
        elif k < 0.92:
            # data directives with little or nothing behind them, multi-chunk strings (kept even-sized)
            body.append(Item(kind="raw", text=rng.choice([
                ".word", ".dword", ".byte\n    .even", ".word\n    .byte 1, 2", ".rad50 /AB/<1>", ".rad50 /EMPTY/<0>/X/",
                ".asciz \"ab\"<15>\n    .even", ".ascii /x/<12><15>/yz/\n    .even", ".blkb 3\n    .even", ".odd\n    .even", ".word 'a, \"bc"])))
        elif depth > 0:
            body.append(Item(kind="repeat", count=("lit", rng.choice([0, 1, 2, 3])), body=rich_body(g, rng, depth - 1)))
        else:
            body.append(Item(kind="dir", name=".blkw", args=[("lit", rng.randrange(0, 3))]))
    return body


def unroll_items(items):
    out = []
    for it in items:
        if it["kind"] == "repeat" and it.get("n") is not None:
            out += unroll_items(it["body"]) * it["n"]
        else:
            out.append(it)
    return out


def stream_repeat(ctx, P, rng, n):
    for _ in range(n):
        g = ProgramGen(rng, features={"repeat": False, "skip": False}, n_stmts=rng.randint(3, 10))
        items = g.generate()
        # no byte-odd statements around: the repeat must start at an even address
        depth = rng.choice([0, 0, 1, 2])
        nrep = rng.choice([0, 1, 2, 2, 3, 3, 4, 5, 8, 17, 40]) if depth < 2 else rng.choice([0, 1, 2, 3, 5])
        body = rich_body(g, rng, depth)

        def fix(bitems):
            for b in bitems:
                if b["kind"] == "repeat":
                    b["n"] = b["count"][1]
                    fix(b["body"])
        fix(body)
        by_symbol = rng.random() < 0.3
        rep = Item(kind="repeat", count=("sym", "rp$cnt") if by_symbol else ("lit", nrep), body=body, n=nrep)
        pos = rng.randrange(len(items) + 1)
        pre, post = items[:pos], items[pos:]
        extra = [Item(kind="assign", name="rp$cnt", expr=("lit", nrep))] if by_symbol else []
        if extra and rng.random() < 0.5:
            pre = extra + pre
        else:
            post = post + extra
        style = {"bracket": "()"}
        # render every item once, so both members share the spelling
        def texts(its):
            return [item_text(i, rng, style) for i in its]
        pre_t, post_t = texts(pre), texts(post)

        def body_texts(bitems, indent):
            out = []
            for b in bitems:
                if b["kind"] == "repeat":
                    out.append((b, body_texts(b["body"], indent + "  ")))
                else:
                    out.append((b, indent + item_text(b, rng, style)))
            return out
        bt = body_texts(body, "  ")

        def as_repeat(bt_, n_, count_text, indent):
            lines = [indent + ".repeat %s {" % count_text]
            for b, t in bt_:
                if b["kind"] == "repeat":
                    lines += as_repeat(t, b["n"], "%d." % b["n"], indent + "  ")
                else:
                    lines.append(t)
            lines.append(indent + "}")
            return lines

        def as_unrolled(bt_, n_):
            lines = []
            for _i in range(n_):
                for b, t in bt_:
                    if b["kind"] == "repeat":
                        lines += as_unrolled(t, b["n"])
                    else:
                        lines.append(t.strip())
            return lines
        head = [".link %o" % rng.choice([0o1000, 0o2000, 0o40000]), ".even"]
        a_text = "\n".join(head + pre_t + [".even"] + as_repeat(bt, nrep, "rp$cnt" if by_symbol else "%d." % nrep, "") + post_t) + "\n"
        b_text = "\n".join(head + pre_t + [".even"] + as_unrolled(bt, nrep) + post_t) + "\n"
        ctx.count("repeat n=%d" % nrep if nrep in (0, 1, 40) else "repeat n other")
        ctx.count("repeat nesting %d" % depth)
        P.pair("repeat", ([("r.mac", a_text)], 1), ([("r.mac", b_text)], 1), nontrivial=nrep >= 2)


# ------------------------------------------------------------------ stream: concat
def stream_concat(ctx, P, rng, n):
    for _ in range(n):
        nfiles = rng.choice([2, 2, 3])
        texts = []
        for i in range(nfiles):
            g = ProgramGen(rng, tag="_%d" % i, features={"export": 0.2, "skip": False}, n_stmts=rng.randint(3, 14))
            items = g.generate()
            # a file starts a fresh local scope; in the concatenation an ordinary label does that
            t = render(items, rng)
            texts.append(("sc$%d:\n" % i) + t)
        base = rng.choice([0o1000, 0o2000, 0o40000])
        a = [("c%d.mac" % i, (".link %o\n" % base if i == 0 else "") + t) for i, t in enumerate(texts)]
        b = [("c0.mac", ".link %o\n" % base + "".join(texts))]
        P.pair("concat", (a, nfiles), (b, 1), nontrivial=True)


# ------------------------------------------------------------------ stream: insert_file
def stream_insert(ctx, P, rng, n):
    for _ in range(n):
        g = ProgramGen(rng, features={"skip": False}, n_stmts=rng.randint(2, 10))
        items = g.generate()
        size = rng.choice([0, 0, 1, 2, 3, 7, 64, 255, 256, 300, rng.randrange(0, 301)])
        blob = bytes(rng.randrange(256) for _ in range(size))
        pos = rng.randrange(len(items) + 1)
        t = [item_text(i, rng) for i in items]
        ins = 'insert_file "blob.bin"'
        per_line = rng.choice([1, 8, 16, 400])
        as_bytes = [".byte " + ", ".join("%o" % b for b in blob[i:i + per_line]) for i in range(0, len(blob), per_line)]
        head = [".link %o" % rng.choice([0o1000, 0o40000])]
        a_text = "\n".join(head + t[:pos] + [ins, ".even"] + t[pos:]) + "\n"
        b_text = "\n".join(head + t[:pos] + as_bytes + [".even"] + t[pos:]) + "\n"
        ctx.count("insert size 0" if size == 0 else ("insert size 300" if size == 300 else "insert size other"))
        P.pair("insert_file", ([("n.mac", a_text)], 1), ([("n.mac", b_text)], 1), bins=[("blob.bin", blob)], nontrivial=size > 0)


# ------------------------------------------------------------------ stream: .end
def stream_end(ctx, P, rng, n):
    for _ in range(n):
        where = rng.choice(["single", "first-of-two", "last-of-two", "included"])
        g = ProgramGen(rng, tag="_m", features={"skip": False, "repeat": False}, n_stmts=rng.randint(3, 12))
        t = [item_text(i, rng) for i in g.generate()]
        cut = rng.randrange(len(t) + 1)
        rest = t[cut:]
        if rng.random() < 0.4:
            # what follows '.end' need not be a program at all (people put remarks, checksums, a ^Z there)
            rest = rest + [rng.choice(["listing ends here ***", "checksum 0147 (((", "\x1a", "'unterminated", "} } }", "mov ,,,", ".word 1,", '"'])]
            rng.shuffle(rest)
        ended = t[:cut] + [rng.choice([".end", ".END", "\t.end ; the rest is ignored", ".End", "END", "end", ".eNd"])] + rest
        trunc = t[:cut]
        head = ".link %o\n" % rng.choice([0o1000, 0o2000])
        if where == "single":
            a = ([("e.mac", head + "\n".join(ended) + "\n")], 1)
            b = ([("e.mac", head + "\n".join(trunc) + "\n")], 1)
        elif where in ("first-of-two", "last-of-two"):
            g2 = ProgramGen(rng, tag="_o", features={"skip": False}, n_stmts=rng.randint(2, 8))
            other = render(g2.generate(), rng)
            if where == "first-of-two":
                a = ([("e.mac", head + "\n".join(ended) + "\n"), ("o.mac", ".even\n" + other)], 2)
                b = ([("e.mac", head + "\n".join(trunc) + "\n"), ("o.mac", ".even\n" + other)], 2)
            else:
                a = ([("o.mac", head + other), ("e.mac", ".even\n" + "\n".join(ended) + "\n")], 2)
                b = ([("o.mac", head + other), ("e.mac", ".even\n" + "\n".join(trunc) + "\n")], 2)
        else:
            g2 = ProgramGen(rng, tag="_o", features={"skip": False}, n_stmts=rng.randint(2, 8))
            o = [item_text(i, rng) for i in g2.generate()]
            p = rng.randrange(len(o) + 1)
            outer = head + "\n".join(o[:p] + [".even", '.include "e.mac"', ".even"] + o[p:]) + "\n"
            a = ([("m.mac", outer), ("e.mac", "\n".join(ended) + "\n")], 1)
            b = ([("m.mac", outer), ("e.mac", "\n".join(trunc) + "\n")], 1)
        ctx.count("end " + where)
        # the rest of the file is not compiled, so the names it would define are undefined in both members
        P.pair(".end", a, b, nontrivial=cut < len(t))


# ------------------------------------------------------------------ stream: .once
def stream_once(ctx, P, rng, n):
    for _ in range(n):
        g = ProgramGen(rng, tag="_x", features={"skip": False, "export": 0.5}, n_stmts=rng.randint(2, 8))
        x = ".once\n.even\n" + render(g.generate(), rng) + ".even\n"
        gm = ProgramGen(rng, tag="_m", features={"skip": False}, n_stmts=rng.randint(3, 10), extern_pool=[])
        m = [item_text(i, rng) for i in gm.generate()]
        k = rng.choice([1, 2, 2, 3])
        places = sorted(rng.randrange(len(m) + 1) for _ in range(k))
        via = rng.random() < 0.3        # one of the later inclusions goes through another file
        # the same file under other spellings of its path (the file is one file however it is named)
        spell = rng.random() < 0.4
        spellings = ["x.mac", "./x.mac", "sub/../x.mac", ".//x.mac", "./sub/.././x.mac"] if spell else ["x.mac"]
        ypath, yinc = ("sub/y.mac", "../x.mac") if spell and rng.random() < 0.6 else ("y.mac", rng.choice(spellings))
        a_lines, b_lines = [], []
        for i in range(len(m) + 1):
            for j, pl in enumerate(places):
                if pl == i:
                    inc = ['.include "%s"' % ypath] if (via and j == len(places) - 1 and k > 1) else ['.include "%s"' % rng.choice(spellings)]
                    a_lines += [".even"] + inc
                    b_lines += [".even"] + (inc if j == 0 else [])
            if i < len(m):
                a_lines.append(m[i])
                b_lines.append(m[i])
        head = ".link %o\n" % rng.choice([0o1000, 0o2000])
        y = '.include "%s"\n' % yinc
        files_a = [("m.mac", head + "\n".join(a_lines) + "\n"), ("x.mac", x), (ypath, y), ("sub/keep.mac", "; keeps the directory\n")]
        files_b = [("m.mac", head + "\n".join(b_lines) + "\n"), ("x.mac", x), (ypath, y), ("sub/keep.mac", "; keeps the directory\n")]
        ctx.count("once included %d times" % k)
        ctx.count("once: the file is named by several spellings of its path", spell)
        P.pair(".once", (files_a, 1), (files_b, 1), nontrivial=k > 1, model=not spell)
        # the same file also given on the command line, before or after the file that includes it: it still contributes
        # once (to the first of the two places)
        if not via and rng.random() < 0.5:
            one_inc, seen = [], False
            for ln in a_lines:
                if ln.startswith(".include"):
                    if seen:
                        continue
                    seen = True
                one_inc.append(ln)
            no_inc = [ln for ln in a_lines if not ln.startswith(".include")]
            if rng.random() < 0.5:
                # m.mac (includes x) then x.mac: the linked copy adds nothing
                keep = [("sub/keep.mac", "; keeps the directory\n")]
                fa = [("m.mac", head + "\n".join(a_lines) + "\n"), ("x.mac", x)] + keep
                fb = [("m.mac", head + "\n".join(one_inc) + "\n"), ("x.mac", x)] + keep
                ctx.count("once: linked after being included")
                P.pair(".once linked and included", (fa, 2), (fb, 1), nontrivial=True, model=False)
            else:
                # x.mac first, then m.mac whose includes of it add nothing
                keep = [("sub/keep.mac", "; keeps the directory\n")]
                fa = [("x.mac", head + x), ("m.mac", "\n".join(a_lines) + "\n")] + keep
                fb = [("x.mac", head + x), ("m.mac", "\n".join(no_inc) + "\n")] + keep
                ctx.count("once: included after being linked")
                P.pair(".once linked and included", (fa, 2), (fb, 2), nontrivial=True, model=False)


def run(ctx):
    impl.load()
    rng = ctx.rng("c16")
    ctx.rule = ("pairs (program, written-out equivalent), equal outcome/base/image/error kinds required: layout-language programs (nesting <= 3, "
                "n in 0..40, 1-3 files, includes with '.once', '.end' at any level) vs unrolled+truncated+concatenated text and vs "
                "Layout.linkFiles; '.repeat n' over rich bodies (all operand forms, '.', symbolic and '.'-dependent indexes, / % << >> * &, "
                "branches, nested repeats to depth 2 inside, n in 0..40, count as number or as a symbol defined before/after) vs n copies; "
                "2-3 generated files with disjoint names vs their concatenation; insert_file of 0..300 bytes vs '.byte' lines; '.end' in a "
                "single/first/last/included file vs the truncated file; a '.once' file included 1-3 times (also via another include) vs once. "
                "distinct = distinct pairs; non-trivial = the directive actually does something (n >= 2, non-empty blob, statements after '.end', "
                "second inclusion)")
    th = ctx.thorough
    P = Pairs(ctx)
    stream_layout(ctx, P, rng, 1200 if th else 250)
    stream_repeat(ctx, P, rng, 1200 if th else 250)
    P.finish()
    stream_concat(ctx, P, rng, 400 if th else 80)
    stream_insert(ctx, P, rng, 400 if th else 80)
    P.finish()
    stream_end(ctx, P, rng, 500 if th else 100)
    stream_once(ctx, P, rng, 400 if th else 80)
    P.finish()
    from . import pathrun
    pathrun.path_stream(ctx, ctx.rng("c16-paths"), 6000 if ctx.thorough else 1500, impl)


def search(ctx, broken):
    if not ctx.thorough:
        ctx.thorough = True
        run(ctx)


def replay(ctx, path):
    with open(path, encoding="utf-8") as f:
        rep = json.load(f)
    v = rep.get("violation") or {}
    print(json.dumps(v or rep, indent=1, ensure_ascii=False)[:8000])
    inp = v.get("input") or {}
    if "program" in inp:
        impl.load()
        P = Pairs(ctx)
        bins = [(p, bytes.fromhex(h)) for p, h in inp.get("bins", [])]
        ra = P.run_files([tuple(x) for x in inp["program"]], inp["nmain"], bins)
        rb = P.run_files([tuple(x) for x in inp["equivalent"]], inp["nmain_equivalent"], bins)
        print("replayed on the current tree: program", ra.summary(), "\nequivalent", rb.summary())
    return 0
