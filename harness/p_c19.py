"""C19 the listing: CLI runs with --lst on multi-file programs, the .lst file compared with
the Lean model (`lst`, `lstpath`) and judged directly against the symbol table and image."""
import json
import os
import re

from . import impl
from .common import nl, parse_nl

NAMES = ["start", "loop", "Data", "BUF", "x", "y1", "a.b", "val$", "End", "table", "msg", "K", "zz", "m.n.o", "q$1"]


def gen_program(rng, nfiles):
    """returns [(filename, text)], {file: [(label name, marker)]}"""
    files = []
    markers = {}
    marker = 0o100
    used_export = set()
    for fi in range(nfiles):
        fname = ["main.mac", "second.mac", "lib/third.mac"][fi]
        lines = []
        labs = []
        names = rng.sample(NAMES, rng.randint(3, 9))
        consts = []
        for nm in names:
            kind = rng.random()
            export = rng.random() < 0.25 and nm.lower() not in used_export
            if export:
                used_export.add(nm.lower())
            if kind < 0.55:
                marker += 1
                lines.append("%s:%s .word %s" % (nm, ":" if export else "", oct(marker)[2:]))
                labs.append((nm, marker))
                if rng.random() < 0.4:
                    lines.append(rng.choice([".byte 1, 2", ".blkb 3", "nop", "mov #%d., r0" % rng.randrange(100), ".even", ".ascii /ab/"]))
                    lines.append(".even")
            else:
                v = rng.choice([0, 1, -1, -5, 0o177777, 65536, 70000, -70000, 1 << 20, rng.randrange(-100000, 100000), 0o1000])
                if labs and rng.random() < 0.3:
                    expr = "%s + %d." % (labs[-1][0], rng.randrange(0, 10))
                elif v < 0:
                    expr = "-%d." % -v
                else:
                    expr = rng.choice(["%d." % v, "0x%x" % v, "%o" % v])
                lines.append("%s %s %s" % (nm, "==" if export else "=", expr))
                consts.append(nm)
        if rng.random() < 0.35:
            # text whose length in bytes depends on the output charset, with codes that are known only further down,
            # in front of labels (their listed addresses must still be where their marker words lie)
            k = rng.randrange(len(lines) + 1)
            lines.insert(k, ".asciz \"%s\"<cr%d><lf%d>\n.even" % (rng.choice(["Привет", "ab", "Ж", "Жук и еж"]), fi, fi))
            lines.append("cr%d = 15\nlf%d = 12" % (fi, fi))
        if rng.random() < 0.5:
            lines.insert(0, "1: .word 0\n2$: .word 0")   # local labels are never listed
        files.append((fname, "\n".join(lines) + "\n"))
        markers[fname] = labs
    # a shared file of definitions, included from one or several files (with '.once' it contributes the first time only,
    # and its symbols are listed under its own name once)
    if rng.random() < 0.4:
        once = rng.random() < 0.7
        dn = ["COLS.%d" % rng.randrange(9), "Screen", "tab.len", "K%d" % rng.randrange(99)]
        marker += 1
        dl = [".once"] if once else []
        dl += ["%s = %d." % (dn[0], rng.randrange(200)), "%s == %o" % (dn[1], rng.randrange(0o1000, 0o177000)), ".even",
               "%s: .word %s" % (dn[2], oct(marker)[2:]), "%s = %s + 2" % (dn[3], dn[2])]
        hosts = list(range(nfiles)) if once else [rng.randrange(nfiles)]
        if once and rng.random() < 0.5:
            hosts = rng.sample(hosts, rng.randint(1, len(hosts)))
        out = []
        for fi, (fname, text) in enumerate(files):
            if fi in hosts:
                ls = text.split("\n")
                rel = "defs.mac" if "/" not in fname else "../defs.mac"
                for _ in range(2 if once and rng.random() < 0.3 else 1):
                    ls.insert(rng.randrange(len(ls)), ".even\n.include \"%s\"\n.even" % rel)
                text = "\n".join(ls)
            out.append((fname, text))
        files = out + [("defs.mac", "\n".join(dl) + "\n")]
        markers["defs.mac"] = [(dn[2], marker)]
    # many units: ten and more files compiled in one run (the counters behind the qualified names reach two digits)
    if rng.random() < 0.25:
        nmod = rng.randint(9, 14)
        out = list(files)
        incs = []
        for k in range(nmod):
            marker += 1
            mn = "mod%02d.mac" % k
            sym = "%s%d" % (rng.choice(["score", "lvl.", "M", "snd$"]), k)
            out.append((mn, "%s: .word %s\n%s_k = %d.\n" % (sym, oct(marker)[2:], sym, k)))
            markers[mn] = [(sym, marker)]
            incs.append(mn)
        hosts_i = [i for i, (fn, _) in enumerate(files) if fn != "defs.mac" and "/" not in fn]
        for mn in incs:
            hi = rng.choice(hosts_i)
            fn, text = out[hi]
            ls = text.split("\n")
            ls.insert(rng.randrange(len(ls)), ".even\n.include \"%s\"\n.even" % mn)
            out[hi] = (fn, "\n".join(ls))
        files = out
    return files, markers


def parse_listing(text):
    """-> [(filename, [(value, name, digits)])] or None when malformed"""
    groups = []
    cur = None
    for line in text.split("\n"):
        if cur is None:
            if line == "":
                continue
            cur = (line, [])
            groups.append(cur)
        elif line == "":
            cur = None
        else:
            m = re.fullmatch(r"(-?)([0-7]{6,}) (\S+)", line)
            if not m:
                return None
            cur[1].append(((-1 if m.group(1) else 1) * int(m.group(2), 8), m.group(3), m.group(2)))
    return groups


def run(ctx):
    impl.load()
    rng = ctx.rng("c19")
    ctx.rule = ("main_cli --lst on generated programs of 1-3 files with labels (each followed by a marker word), constants of any value "
                "(negative, > 16 bit, label-relative), exported and local symbols, mixed-case names x output selectors (-o bin/raw, "
                "--implicit-bin, make_bin, make_raw, make_wav, several make_* directives, -o together with a directive, none); distinct = distinct (program, selector); non-trivial = at least 3 symbols")
    selectors = [
        (["-o", "out.bin"], "", "out.bin", "bin"), (["-o", "out.raw"], "", "out.raw", "raw"), (["-o", "res"], "", "res", "raw"),
        (["--implicit-bin"], "", "main.bin", "bin"), ([], "make_bin\n", "main.bin", "bin"), ([], "make_raw\n", "main", "raw"),
        ([], "make_wav 'tape.wav'\n", "tape.wav", "bk_wav"), ([], "make_bin 'lib/named.bin'\n", "lib/named.bin", "bin"), ([], "", None, None),
        (["-o", "sraw"], "", "sraw", "raw"), ([], "make_bin 'cabin'\n", "cabin", "bin"), (["-o", "a.b.bin"], "", "a.b.bin", "bin"),
        # several outputs: the listing goes with the first directive (or with -o when given)
        ([], "make_bin 'first.bin'\nmake_raw 'second.raw'\n", "first.bin", "bin"), ([], "make_raw 'zz'\nmake_bin 'aa.bin'\nmake_wav 'w.wav'\n", "zz", "raw"),
        (["-o", "o2.bin"], "make_raw 'm1'\n", "o2.bin", "bin"),
    ]
    n_runs = 400 if ctx.thorough else 120
    lst_reqs = []
    lst_jobs = []
    for it in range(n_runs):
        files, markers = gen_program(rng, rng.randint(1, 3))
        argv_extra, src_extra, first_out, fmt = selectors[it % len(selectors)]
        d = impl.scratch_dir()
        try:
            os.makedirs(os.path.join(d, "lib"), exist_ok=True)
            files = [(fn, txt + (src_extra if i == 0 else "")) for i, (fn, txt) in enumerate(files)]
            if rng.random() < 0.3:
                # a stated load address, also at the ends of the range (the listing, the image and its header must agree)
                files[0] = (files[0][0], rng.choice([".link 0\n", ". = 0\n", ".link 2\n", ".link 40000\n", ".link 100000\n"]) + files[0][1])
            for fn, txt in files:
                with open(os.path.join(d, fn), "w", encoding="utf-8") as f:
                    f.write(txt)
            before = impl.snapshot_dir(d)
            linked = [fn for fn, _ in files if fn != "defs.mac" and not fn.startswith("mod")]
            charset = rng.choice(["bk", "bk", "utf-8", "koi8-r"])
            if charset != "bk":
                argv_extra = argv_extra + ["--charset", charset]
            res = impl.run_cli(linked + ["--lst"] + argv_extra, cwd=d)
            after = impl.snapshot_dir(d)
            new = sorted(k for k in after if before.get(k) != after[k])
            inp = {"files": files, "argv": linked + ["--lst"] + argv_extra}
            ctx.case((json.dumps(files), tuple(argv_extra), src_extra), nontrivial=sum(len(v) for v in markers.values()) >= 1)
            ctx.count("selector:" + (" ".join(argv_extra) or src_extra.strip() or "none"))
            if res.exit != 0:
                ctx.violation("a valid program failed under --lst", inp, expected="exit 0", observed={"exit": res.exit, "stderr": res.stderr[-300:]})
                continue
            lsts = [k for k in new if k.endswith(".lst")]
            if first_out is None:
                if lsts:
                    ctx.violation("a listing was written although there is no output file to name it after", inp, expected="no .lst", observed=lsts)
                continue
            stem = first_out.rsplit(".", 1)[0] if "." in os.path.basename(first_out) else first_out
            if len(lsts) != 1 or lsts[0] not in (os.path.normpath(stem + ".lst"), os.path.normpath(first_out + ".lst")):
                ctx.violation("the listing is not beside the first output file / not named after it", inp,
                              expected=[stem + ".lst", first_out + ".lst"], observed=lsts)
                continue
            text = after[lsts[0]].decode("utf-8")
            # the same sources compiled in-process give the reference symbol table and image
            abs_files = [(os.path.join(d, fn), txt) for fn, txt in files if fn != "defs.mac" and not fn.startswith("mod")]
            r = impl.assemble(abs_files, want_symbols=True, charset=charset)
            if r.outcome != "ok":
                continue
            comp = r.compiler
            syms = []
            for name, (tok, _v) in comp.symbols.items():
                if name.startswith(".internal"):
                    # the file a symbol belongs to: where its defining token stands
                    fname = tok.ctx_start.filename
                    syms.append((fname, name[9:].partition(".")[2], r.symbols[name]))
            # ---- correspondence with the model
            lst_reqs.append("lst " + " ".join("%s/%s/%d" % (nl(map(ord, f)), nl(map(ord, n)), v) for f, n, v in syms))
            lst_jobs.append((inp, text))
            lst_reqs.append("lstpath %s %s" % (nl(map(ord, first_out)), nl(map(ord, fmt))))
            lst_jobs.append((inp, lsts[0] if "/" not in first_out else lsts[0]))
            ctx.sample({"argv": inp["argv"], "listing": text[:400]})
            # ---- the property, directly
            groups = parse_listing(text)
            if groups is None:
                ctx.violation("the listing has a malformed line", inp, expected="<octal> <name> lines", observed=text[:300])
                continue
            listed = {}
            for fname, entries in groups:
                if fname in listed:
                    ctx.violation("a file heading appears twice", inp, expected="once", observed=fname)
                listed[fname] = entries
                if entries != sorted(entries, key=lambda e: (e[0], e[1])):
                    ctx.violation("listing entries are not ordered by value then name", inp, expected="sorted", observed=entries[:10])
            want = {}
            for f, n, v in syms:
                want.setdefault(f, []).append((v, n))
            for f, lst in want.items():
                got = sorted((v, n) for v, n, _ in listed.get(f, []))
                if got != sorted(lst):
                    ctx.violation("the listing does not contain every ordinary symbol of a file exactly once with its value", inp,
                                  expected=sorted(lst)[:12], observed=got[:12])
            if set(listed) - set(want):
                ctx.violation("the listing has a heading for a file without symbols", inp, expected=sorted(want), observed=sorted(listed))
            # every listed label address is where the following byte lies
            for fn, labs in markers.items():
                path = os.path.join(d, fn)
                for nm, mk in labs:
                    ent = [v for v, n, _ in listed.get(path, []) if n == nm]
                    if len(ent) != 1:
                        continue
                    off = ent[0] - r.base
                    if not (0 <= off and off + 2 <= len(r.code)) or (r.code[off] | (r.code[off + 1] << 8)) != mk:
                        ctx.violation("a listed label address is not where the byte following the label lies", inp,
                                      expected="marker %o at %o" % (mk, ent[0]), observed=r.code[max(off, 0):off + 2].hex() if off >= 0 else "negative offset")
        finally:
            impl.drop_scratch(d)
    answers = ctx.driver.ask(lst_reqs)
    for (inp, got), req, ans in zip(lst_jobs, lst_reqs, answers):
        if req.startswith("lstpath"):
            want = "".join(map(chr, parse_nl(ans)))
            if os.path.normpath(want) != os.path.normpath(got):
                ctx.disagree("listing path", inp["argv"], want, got)
        else:
            want = "".join(map(chr, parse_nl(ans)))
            if want != got:
                ctx.disagree("listing text", inp, want[:600], got[:600])


def search(ctx, broken):
    if not ctx.thorough:
        ctx.thorough = True
        run(ctx)


def replay(ctx, path):
    with open(path, encoding="utf-8") as f:
        rep = json.load(f)
    v = rep.get("violation")
    if not v:
        print("replay file names a broken obligation, no failing input: re-run ./check C19")
        return 0
    inp = v["input"]
    d = impl.scratch_dir()
    os.makedirs(os.path.join(d, "lib"), exist_ok=True)
    for fn, txt in inp["files"]:
        with open(os.path.join(d, fn), "w", encoding="utf-8") as f:
            f.write(txt)
    res = impl.run_cli(inp["argv"], cwd=d)
    print("exit", res.exit)
    for k, val in impl.snapshot_dir(d).items():
        if k.endswith(".lst"):
            print(k)
            print(val.decode())
    impl.drop_scratch(d)
    return 0
