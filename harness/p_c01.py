"""C01 machine-code fidelity: every mnemonic x every operand-form combination its
signature admits, assembled by the real code, compared with the Lean model (`insn`)
and decoded by the independent Lean Spec decoder (`dec`)."""
import itertools
import json
import re

from . import impl
from .insnrun import InsnCase, run_cases, stub_classes_of, all_mnemonics, stubs_of, render_operand, num


def reg(rng, allow_pc=True, pct=True):
    n = rng.randrange(8 if allow_pc else 7)
    if pct and rng.random() < 0.15:
        return ("p", n)
    return ("n", n)


ALNUM = "ABKOZabkz019"


def val16(rng):
    # (values that have a spelling as a character literal: 'c and "cd)
    ch1 = ord(rng.choice(ALNUM))
    ch2 = ch1 | (ord(rng.choice(ALNUM)) << 8)
    return rng.choice([0, 1, 2, -1, -2, 0o177777, -0o177777, 0o100000, 0o77777, 0o1000, rng.randrange(-65535, 65536), rng.randrange(0, 65536), ch1, ch2, ch2])


RM_FORMS = ["R", "D", "L", "I", "J", "E", "F", "X", "Y", "Z", "#", "A", "V", "W"]


def make_rm(form, rng):
    if form in ("I", "J"):
        return (form, reg(rng, allow_pc=False))
    if form in "RDLEFZ":
        return (form, reg(rng))
    if form in "XY":
        return (form, val16(rng), reg(rng))
    if form in "#A":
        return (form, val16(rng))
    return (form, rng.choice([0, 2, 0o776, 0o1000, 0o1006, 0o177776, rng.randrange(0, 65536)]))


def forms_for(stub, rng, thorough):
    cls = type(stub).__name__
    w = len(stub.bit_indexes)
    if cls == "RegisterOperandStub":
        return [("R", ("n", n)) for n in range(8)] + [("R", ("p", rng.randrange(8)))]
    if cls == "RegisterModeOperandStub":
        return [make_rm(f, rng) for f in RM_FORMS]
    if cls == "FP11RMOperandStub":
        return [make_rm(f, rng) for f in RM_FORMS if f != "R"] + [("C", n) for n in range(6)] + [("R", ("n", rng.randrange(6)))]
    if cls == "FP11AccumulatorOperandStub":
        return [("C", n) for n in range(1 << w)]
    if cls == "OffsetOperandStub":
        if stub.unsigned:
            return [("V", None, d) for d in (0, -2, -126 + 2, -64)]
        return [("V", None, d) for d in (0, 2, -2, 254, -256, rng.randrange(-127, 127) * 2)]
    if cls == "ImmediateOperandStub":
        top = 1 << w
        vals = list(range(top)) if (top <= 64 or thorough) else sorted({0, 1, top - 1, top >> 1} | {rng.randrange(top) for _ in range(24)})
        return [(rng.choice(["V", "V", "#"]), v) for v in vals]
    raise ValueError(cls)


def expected_dop(cls, op, xa):
    """what an independent decoder must recover for this operand (None = do not judge)"""
    k = op[0]
    if cls == "register":
        return "reg:%d" % op[1][1]
    if cls == "fp11acc":
        return "ac:%d" % op[1]
    if cls == "immediate":
        return "num:%d" % op[1] if op[1] >= 0 else None
    if cls in ("registerMode", "fp11rm"):
        if k == "C":
            return "ac:%d" % op[1]
        if k == "R":
            return ("ac:%d" if cls == "fp11rm" else "reg:%d") % op[1][1]
        if k in "DL":
            return "mode:1:%d" % op[1][1]
        if k in "IJ":
            return "mode:%d:%d" % (2 if k == "I" else 3, op[1][1])
        if k in "EF":
            return "mode:%d:%d" % (4 if k == "E" else 5, op[1][1])
        if k in "XY":
            m = 6 if k == "X" else 7
            r = op[2][1]
            x = op[1] & 0xFFFF
            if r == 7:
                return ("rel:%d" if m == 6 else "reldef:%d") % x
            return "idx:%d:%d:%d" % (m, r, x)
        if k == "Z":
            r = op[1][1]
            return "reldef:0" if r == 7 else "idx:7:%d:0" % r
        if k == "#":
            return "imm:%d" % (op[1] & 0xFFFF)
        if k == "A":
            return "abs:%d" % (op[1] & 0xFFFF)
        if k in "VW":
            return ("rel:%d" if k == "V" else "reldef:%d") % ((op[1] - xa - 2) & 0xFFFF)
    return None


def run(ctx):
    impl.load()
    rng = ctx.rng("c01")
    names = all_mnemonics()
    ctx.rule = ("every mnemonic of the table x every combination of operand forms its stubs admit (14 CPU forms, accumulators, every "
                "register, every value of inline fields up to 6 bits and a boundary sample of 8-bit ones, branch displacements) with "
                "random registers, boundary-biased values and random spellings, at three link bases; distinct = distinct (mnemonic, "
                "operands, address); non-trivial = every case (an instruction is assembled and decoded)")
    canon_ans = ctx.driver.ask(["canon " + n for n in names])
    canon = {}
    for n, a in zip(names, canon_ans):
        t = a.split()
        canon[n] = (t[0], t[1:])   # canonical name, operand pattern with num:424242 placeholder
    decode_jobs = []

    def on_result(c):
        ctx.case((c.name, c.emit, repr(c.ops)))
        ctx.sample({"source": c.src, "address": c.emit, "model": c.model["raw"], "impl": {k: c.impl[k] for k in ("outcome", "words", "errs")}})
        if c.info and c.info.get("valid") and c.impl["outcome"] == "ok":
            decode_jobs.append(c)
        elif c.info and c.info.get("valid"):
            ctx.violation("a legal instruction form was rejected", {"source": c.src, "address": c.emit}, expected="assembled", observed=c.impl)
        elif c.info and c.info.get("must_fail") and c.impl["outcome"] == "ok":
            ctx.violation("an operand that cannot be encoded was accepted silently", {"source": c.src, "address": c.emit},
                          expected="an error", observed=c.impl)

    bases = [0o1000, 0o40000, 0o177000] if ctx.thorough else [0o1000, 0o177000]
    reps = 3 if ctx.thorough else 2
    for base in bases:
        cases = []
        for name in names:
            stubs = stubs_of(name)
            classes = stub_classes_of(name)
            per = [forms_for(s, rng, ctx.thorough) for s in stubs]
            combos = list(itertools.product(*per)) if per else [()]
            cap = 400 if ctx.thorough else 200
            if len(combos) > cap:
                combos = rng.sample(combos, cap)
            for combo in combos:
                for _ in range(reps):
                    # re-instantiate registers/values for variety
                    inst = []
                    for s, op in zip(stubs, combo):
                        cls = type(s).__name__
                        if cls in ("RegisterModeOperandStub", "FP11RMOperandStub") and op[0] in RM_FORMS and op[0] != "R":
                            inst.append(make_rm(op[0], rng))
                        elif cls == "FP11RMOperandStub" and op[0] == "R":
                            inst.append(("R", ("n", rng.randrange(6))))
                        else:
                            inst.append(op)

                    def build(emit, inst=inst, name=name):
                        ops = []
                        parts = []
                        for op in inst:
                            if op[0] == "V" and len(op) == 3:       # branch: target relative to the instruction
                                t = emit + 2 + op[2]
                                ops.append(("V", t))
                                d = op[2] + 2
                                parts.append(("." if d == 0 else (".+%s" % num(d, rng) if d > 0 else ".-%s" % num(-d, rng))))
                            else:
                                ops.append(op)
                                parts.append(render_operand(op, rng))
                        mn = name if rng.random() < 0.8 else name.upper()
                        return ops, (mn + " " + ", ".join(parts)).strip()
                    cases.append(InsnCase(name, build=build, info={"valid": True}))
            ctx.count("mnemonics")
        ctx.count("valid-form-cases", len(cases))

        # operands that cannot be encoded
        bad = []
        for name in names:
            stubs = stubs_of(name)
            for k, s in enumerate(stubs):
                cls = type(s).__name__
                w = len(s.bit_indexes)
                alts = []
                if cls == "RegisterOperandStub":
                    alts = [("R", ("p", 8)), ("R", ("p", -1)), ("D", ("n", 2)), ("#", 1)]
                elif cls == "FP11AccumulatorOperandStub":
                    alts = [("C", 4), ("C", 5), ("R", ("n", 1))]
                elif cls == "ImmediateOperandStub":
                    top = 1 << w
                    alts = [("V", top), ("V", top + 1), ("V", -top), ("V", -top - 5)] + ([("V", -1)] if s.unsigned else [])
                elif cls in ("RegisterModeOperandStub", "FP11RMOperandStub"):
                    alts = [("X", 65536, ("n", 1)), ("#", -65536), ("A", 70000), ("D", ("p", 9)), ("Y", -65536, ("n", 3))]
                    if cls == "FP11RMOperandStub":
                        alts += [("R", ("n", 6)), ("R", ("n", 7))]
                if cls == "OffsetOperandStub":
                    # just outside the reach of the displacement field, and odd distances: must be refused, never wrapped
                    outs = [2, 4, -128, -130, -127] if s.unsigned else [256, 258, -258, -260, 3, -5]
                    for d in outs:
                        def build_bad(emit, d=d, k=k, name=name, stubs=stubs):
                            ops, parts = [], []
                            for j, s2 in enumerate(stubs):
                                if j == k:
                                    ops.append(("V", emit + 2 + d))
                                    parts.append(".+%s" % num(d + 2, rng) if d + 2 > 0 else (".-%s" % num(-(d + 2), rng) if d + 2 < 0 else "."))
                                else:
                                    o = ("R", ("n", 1))
                                    ops.append(o)
                                    parts.append(render_operand(o, rng))
                            return ops, (name + " " + ", ".join(parts)).strip()
                        bad.append(InsnCase(name, build=build_bad, info={"must_fail": True}))
                for alt in alts[: (len(alts) if ctx.thorough else 3)]:
                    inst = []
                    for j, s2 in enumerate(stubs):
                        if j == k:
                            inst.append(alt)
                        else:
                            f = forms_for(s2, rng, False)
                            f = [x for x in f if not (x[0] == "V" and len(x) == 3)] or [("V", 0o1000)]
                            inst.append(rng.choice(f))
                    src = name + " " + ", ".join(render_operand(o, rng) for o in inst)
                    bad.append(InsnCase(name, ops=inst, src=src, info={"must_fail": True}))
            # wrong operand counts
            n = len(stubs)
            for cnt in {max(0, n - 1), n + 1} - {n}:
                ops = [("R", ("n", 1))] * cnt
                src = name + " " + ", ".join(render_operand(o, rng) for o in ops)
                if cnt == 0:
                    continue
                bad.append(InsnCase(name, ops=ops, src=src.strip(), info={"must_fail": True}))
        if base == bases[0]:
            ctx.count("unencodable-operand-cases", len(bad))
            cases += bad
        run_cases(ctx, cases, stub_classes_of, base=base, batch=400, on_result=on_result)

    # ---- the independent decoder reads what the real assembler emitted
    answers = ctx.driver.ask(["dec " + ",".join(str(w) for w in c.impl["words"]) for c in decode_jobs])
    for c, a in zip(decode_jobs, answers):
        classes = stub_classes_of(c.name)
        exp_ops = []
        judge = True
        idx = 1
        for cls, op in zip(classes, c.ops):
            xa = c.emit + 2 * idx
            if cls == "offset":
                e = "disp:%d" % ((op[1] - c.emit - 2) // 2)
            else:
                e = expected_dop(cls, op, xa)
            if cls in ("registerMode", "fp11rm") and op[0] in ("X", "Y", "Z", "#", "A", "V", "W"):
                idx += 1
            if e is None:
                judge = False
            exp_ops.append(e)
        if not judge:
            continue
        cname, pattern = canon[c.name]
        full = []
        placed = False
        for tok in pattern:
            if tok == "num:424242":
                full += exp_ops
                placed = True
            else:
                full.append(tok)
        if not placed and not pattern:
            full = exp_ops
        want = " ".join([cname, str(len(c.impl["words"]))] + full)
        if a != want:
            ctx.violation("the independent PDP-11 decoder does not recover the instruction from the emitted words",
                          {"source": c.src, "address": c.emit, "words": c.impl["words"]}, expected=want, observed=a)
    ctx.extra["spec_decodes"] = len(decode_jobs)

    # ---- operands that are labels: in the same file, in other linked files, in including and included files
    from . import worlds
    worlds.stream_decode(ctx, ctx.rng("c01-worlds"), 1200 if ctx.thorough else 200, impl)


def search(ctx, broken):
    if not ctx.thorough:
        ctx.thorough = True
        run(ctx)


def replay(ctx, path):
    with open(path, encoding="utf-8") as f:
        rep = json.load(f)
    v = rep.get("violation")
    if not v:
        print("replay file names a broken obligation, no failing input: re-run ./check C01")
        return 0
    inp = v["input"]
    from .insnrun import run_program
    r, per, stray = run_program("", [inp["source"]], inp.get("address", 0o1000))
    ws = [r.code[2 * j] | (r.code[2 * j + 1] << 8) for j in range(len(r.code) // 2)] if r.code else None
    print(inp["source"], r.summary(), ws)
    if ws:
        print(ctx.driver.ask(["dec " + ",".join(map(str, ws))]))
    return 0
