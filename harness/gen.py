"""Type-directed generator of programs in grammar G (DESIGN.md §2.1/§2.4): a symbol plan
first, then statements as structured items, rendered to text with randomised spelling.
Every random choice comes from the Random object passed in."""
from .insnrun import num

ORD_NAMES = ["start", "loop", "data", "buf", "tbl", "msg", "done", "init", "quit", "pos", "cnt", "ptr", "hi", "lo", "x1", "y2", "a.b", "v$1", "zz9", "Exit"]
CONST_NAMES = ["k1", "k2", "k3", "size", "len", "off", "mask", "step", "lim", "N", "M2", "q.q"]
RM_SIMPLE = ["r0", "r1", "r2", "r3", "r4", "r5", "sp", "(r1)", "(r2)+", "-(r3)", "@(r4)+", "@-(r5)", "@r2"]
ONE_OP = ["clr", "inc", "dec", "tst", "neg", "com", "asl", "asr", "clrb", "tstb", "swab", "jmp", "push", "pop", "call"]
TWO_OP = ["mov", "add", "sub", "cmp", "bis", "bic", "bit", "movb", "cmpb"]
BRANCH = ["br", "bne", "beq", "bcc", "bcs", "bpl", "bmi", "bge", "blt", "bhi", "blos"]
NO_OP = ["nop", "halt", "rti", "clc", "sec", "ret", "wait"]
INFIX_SAFE = ["+", "-", "*", "&", "|", "^"]
PREC = {"*": 3, "/": 3, "%": 3, "+": 4, "-": 4, "<<": 5, ">>": 5, "_": 5, "&": 8, "^": 9, "|": 10, "!": 10}


class Item(dict):
    __getattr__ = dict.get


def expr_text(t, rng, parent=99, side="l", start=True, style=None):
    """render an expression tree (same conventions as p_c05.render, fewer exotic spellings)"""
    style = style or {}
    k = t[0]
    if k == "lit":
        s = num(t[1], rng) if not style.get("plain") else (("%o" % t[1]) if t[1] >= 0 else ("-%o" % -t[1]))
        return s
    if k == "sym":
        n = t[1]
        if style.get("case") == "upper":
            n = n.upper()
        elif style.get("case") == "rand" and rng.random() < 0.4:
            n = n.upper() if rng.random() < 0.5 else n.capitalize()
        return n + (":" if len(t) > 2 and t[2] else "")
    if k == "dot":
        return "."
    if k == "un":
        if not start:
            return "<" + expr_text(t, rng, 99, "l", True, style) + ">"
        inner = expr_text(t[2], rng, 2, "r", True, style)
        sep = " " if inner[:1] in "+-" else ""
        return t[1] + sep + inner
    p = PREC[t[1]]
    left = expr_text(t[2], rng, p, "l", start, style)
    right = expr_text(t[3], rng, p, "r", False, style)
    out = "%s %s %s" % (left, t[1], right)
    if p > parent or (p == parent and side == "r"):
        br = style.get("bracket") or rng.choice(["()", "<>", "^/"])
        if br == "()":
            out = "(" + out + ")"
        elif br == "<>":
            out = "<" + out + (" >" if out.endswith(">") else ">")
        else:
            # '^x ... x' with any of the delimiters the grammar takes, as long as it does not occur inside
            ds = [d for d in (":", "/", "|", "\\", "/", ":") if d not in out]
            if ds:
                d = rng.choice(ds)
                out = "^" + d + out + d
            else:
                out = "(" + out + ")"
    return out


class ProgramGen:
    """items of one file; `exports` names visible to other files"""

    def __init__(self, rng, tag="", n_stmts=None, features=None, extern_pool=None):
        self.rng = rng
        self.tag = tag
        self.f = features or {}
        self.items = []
        self.labels = []        # ordinary labels defined so far (names)
        self.consts = []
        self.planned_labels = []
        self.planned_consts = []
        self.parity = 0         # 0 even, 1 odd, None unknown
        self.local_scope = []   # local labels defined in the current scope
        self.local_counter = 0
        self.extern_pool = extern_pool or []
        self.n_stmts = n_stmts or rng.randint(8, 40)

    # ------------------------------------------------------------ symbol plan
    def plan(self):
        rng = self.rng
        names = rng.sample(ORD_NAMES, rng.randint(2, min(8, len(ORD_NAMES))))
        self.planned_labels = [n + self.tag for n in names]
        cn = rng.sample(CONST_NAMES, rng.randint(1, 6))
        self.planned_consts = [n + self.tag for n in cn]

    def any_symbol(self, want_label=None):
        rng = self.rng
        pool = []
        if want_label is not False:
            pool += self.planned_labels
        if want_label is not True:
            pool += self.planned_consts
        pool += [n for n in self.extern_pool if rng.random() < 0.3]
        return rng.choice(pool) if pool else None

    def small_expr(self, depth=2, allow_dot=True, labels=True):
        rng = self.rng
        if depth == 0 or rng.random() < 0.4:
            k = rng.random()
            if k < 0.45:
                return ("lit", rng.choice([0, 1, 2, 3, 5, 8, 10, 0o77, 0o377, 0o1000, rng.randrange(0, 4000)]))
            if k < 0.9:
                s = self.any_symbol(None if labels else False)
                return ("sym", s) if s else ("lit", 7)
            return ("dot",) if allow_dot else ("lit", 4)
        if self.f.get("linear"):
            # relocation fragment: an address plus/minus numbers, or a difference of addresses
            k = rng.random()
            a = self.any_symbol(True) if labels else None
            if a is None or k < 0.2:
                return ("bin", rng.choice(["+", "-", "*"]), ("lit", rng.randrange(0, 40)), ("lit", rng.randrange(1, 9)))
            if k < 0.6:
                return ("bin", rng.choice(["+", "-"]), ("sym", a), ("lit", rng.randrange(0, 20)))
            b = self.any_symbol(True)
            return ("bin", "+", ("bin", "-", ("sym", a), ("sym", b)), ("lit", rng.randrange(0, 20)))
        op = rng.choice(INFIX_SAFE + ["+", "-", "+"])
        return ("bin", op, self.small_expr(depth - 1, allow_dot, labels), self.small_expr(depth - 1, allow_dot, labels))

    def const_expr(self, depth=2):
        """expression for a constant definition: constants defined so far or later, small ints"""
        rng = self.rng
        if depth == 0 or rng.random() < 0.5:
            if self.planned_consts and rng.random() < 0.5:
                return ("sym", rng.choice(self.planned_consts))
            return ("lit", rng.randrange(0, 50))
        return ("bin", rng.choice(["+", "-", "*", "+"]), self.const_expr(depth - 1), self.const_expr(depth - 1))

    # ------------------------------------------------------------ statements
    def align_even(self):
        if self.parity != 0:
            self.items.append(Item(kind="dir", name=".even", args=[]))
            self.parity = 0

    def operand(self):
        rng = self.rng
        k = rng.random()
        if self.f.get("pic") and 0.4 <= k < 0.8:
            k = 0.85       # position-independent code: no immediate/absolute/index label references
        if k < 0.4:
            return ("raw", rng.choice(RM_SIMPLE))
        if k < 0.55:
            return ("imm", self.small_expr(2))
        if k < 0.65:
            return ("abs", self.small_expr(1, allow_dot=False))
        if k < 0.8:
            # x(Rn) and @x(Rn); outside position-independent code x may name a label (an absolute address word)
            lab = not self.f.get("pic") and rng.random() < 0.4
            return ("idx" if rng.random() < 0.6 else "idxdef", self.small_expr(1, allow_dot=False, labels=lab), rng.randrange(6))
        if self.f.get("pic"):
            # targets inside the program only: a label plus a small number
            lab = self.any_symbol(True)
            tgt = ("bin", "+", ("sym", lab), ("lit", rng.randrange(0, 12))) if lab else ("dot",)
            return ("rel" if k < 0.9 else "reldef", tgt)
        if k < 0.9:
            return ("rel", self.small_expr(1))
        return ("reldef", self.small_expr(1, allow_dot=False))

    def add_statement(self):
        rng = self.rng
        k = rng.random()
        if k < 0.13 and len(self.labels) < len(self.planned_labels):
            name = self.planned_labels[len(self.labels)]
            self.labels.append(name)
            self.items.append(Item(kind="label", name=name, export=rng.random() < self.f.get("export", 0.0)))
            self.local_scope = []
        elif k < 0.17:
            self.local_counter += 1
            name = rng.choice(["%d", "%d$"]) % self.local_counter
            self.local_scope.append(name)
            self.items.append(Item(kind="label", name=name, local=True))
        elif k < 0.27 and len(self.consts) < len(self.planned_consts):
            name = self.planned_consts[len(self.consts)]
            self.consts.append(name)
            # acyclic: only constants defined *before* in plan order, or literals
            earlier = self.planned_consts[:len(self.consts) - 1]
            e = ("lit", rng.randrange(0, 60))
            if earlier and rng.random() < 0.6:
                e = ("bin", rng.choice(["+", "-", "*"]), ("sym", rng.choice(earlier)), ("lit", rng.randrange(1, 9)))
            self.items.append(Item(kind="assign", name=name, expr=e, export=rng.random() < self.f.get("export", 0.0)))
        elif k < 0.55:
            self.align_even()
            kk = rng.random()
            if kk < 0.2:
                self.items.append(Item(kind="insn", mn=rng.choice(NO_OP), ops=[]))
            elif kk < 0.5:
                self.items.append(Item(kind="insn", mn=rng.choice(ONE_OP), ops=[self.operand()]))
            elif kk < 0.85:
                self.items.append(Item(kind="insn", mn=rng.choice(TWO_OP), ops=[self.operand(), self.operand()]))
            else:
                # a branch to a nearby place: '.'-relative keeps it in reach whatever surrounds it
                d = rng.choice([-6, -4, -2, 0, 2, 4, 6, 10])
                tgt = ("dot",) if d == 0 else ("bin", "+" if d > 0 else "-", ("dot",), ("lit", abs(d)))
                if self.local_scope and rng.random() < 0.3:
                    tgt = ("sym", self.local_scope[-1], not self.local_scope[-1].isdigit() and False)
                    self.items.append(Item(kind="insn", mn="br", ops=[("target", tgt)], near_local=True))
                else:
                    self.items.append(Item(kind="insn", mn=rng.choice(BRANCH), ops=[("target", tgt)]))
        elif k < 0.68:
            n = rng.randint(1, 4)
            kind = rng.choice([".word", ".word", ".byte", ".dword", "implicit"])
            if self.f.get("linear") and kind == ".dword":
                kind = ".word"
            if self.f.get("odd_words") and self.parity in (0, 1) and rng.random() < 0.012:
                kind = "implicit"
                if self.parity == 0:
                    self.items.append(Item(kind="dir", name=".byte", args=[("lit", rng.randrange(0, 256))]))
                    self.parity = 1
            if kind == "implicit" and self.parity == 1 and self.f.get("odd_words") and rng.random() < 0.7:
                # a word list left on an odd address: refused ('odd-address'); were it accepted, the byte it inserts
                # must be counted in every later address. The rest of the program is aligned as if it were (with that byte)
                self.parity = 0
            elif kind != ".byte":
                self.align_even()
            if kind == ".byte":
                args = [("lit", rng.randrange(-128, 256)) for _ in range(n)]
                self.parity = None if self.parity is None else (self.parity + n) % 2
            else:
                args = [self.small_expr(2) for _ in range(n)]
            if self.f.get("bare_data") and kind != "implicit" and rng.random() < 0.12:
                # no operands at all: one zero item and a warning
                if kind == ".byte":
                    self.parity = None if self.parity is None else (self.parity + 1 - n) % 2
                args = []
            self.items.append(Item(kind="dir", name=kind, args=args))
        elif k < 0.76:
            s = "".join(rng.choice("abcXYZ 019.,-") for _ in range(rng.randint(0, 7)))
            name = rng.choice([".ascii", ".asciz"])
            self.items.append(Item(kind="str", name=name, text=s))
            self.parity = None if self.parity is None else (self.parity + len(s) + (name == ".asciz")) % 2
        elif k < 0.82:
            c = rng.randrange(0, 9)
            name = rng.choice([".blkb", ".blkw"])
            arg = ("lit", c)
            if self.f.get("forward_sizes") and self.planned_consts and rng.random() < 0.4:
                arg = ("sym", rng.choice(self.planned_consts))
                self.parity = None if name == ".blkb" else self.parity
            elif name == ".blkb":
                self.parity = None if self.parity is None else (self.parity + c) % 2
            self.items.append(Item(kind="dir", name=name, args=[arg]))
        elif k < 0.88:
            name = rng.choice([".even", ".even", ".odd", ".align"])
            if name == ".align":
                m = rng.choice([2, 4, 8, 16])
                self.items.append(Item(kind="dir", name=".align", args=[("lit", m)]))
                self.parity = 0
            else:
                self.items.append(Item(kind="dir", name=name, args=[]))
                self.parity = 0 if name == ".even" else 1
        elif k < 0.93 and self.f.get("repeat", True):
            body = []
            odd_body = self.f.get("repeat_odd") and rng.random() < 0.5
            for _ in range(rng.randint(1, 3)):
                kk = rng.random()
                if odd_body and kk < 0.6:
                    # a body whose size depends on where it is placed: odd-sized data next to '.even'
                    body.append(rng.choice([Item(kind="dir", name=".byte", args=[("lit", rng.randrange(0, 256))]),
                                            Item(kind="dir", name=".even", args=[]),
                                            Item(kind="str", name=".ascii", text=rng.choice(["a", "abc", "xy"])),
                                            Item(kind="dir", name=".byte", args=[("bin", "-", ("dot",), ("sym", self.any_symbol(True) or "."))] if False else [("lit", 7)])]))
                    continue
                if odd_body:
                    body.append(Item(kind="dir", name=".even", args=[]))
                if kk < 0.5:
                    body.append(Item(kind="insn", mn=rng.choice(ONE_OP), ops=[self.operand()]))
                elif kk < 0.8:
                    body.append(Item(kind="dir", name=".word", args=[self.small_expr(1)]))
                else:
                    body.append(Item(kind="insn", mn=rng.choice(NO_OP), ops=[]))
            self.align_even()
            cnt = ("lit", rng.randrange(0, 5))
            if self.f.get("forward_sizes") and self.planned_consts and rng.random() < 0.35:
                # the number of passes is a constant defined somewhere else (maybe further down): the size of the block is
                # known only then, while its body may refer to labels behind it
                cnt = ("bin", "&", ("sym", rng.choice(self.planned_consts)), ("lit", 3))
            self.items.append(Item(kind="repeat", count=cnt, body=body))
            if odd_body:
                self.parity = None
        elif k < 0.96 and self.f.get("skip", True):
            self.items.append(Item(kind="skip", delta=rng.randrange(0, 9)))
            self.parity = None
        else:
            self.items.append(Item(kind="comment", text=rng.choice(["; note", "", "; кириллица ☃", "\t; tab"])))

    def generate(self):
        self.plan()
        for _ in range(self.n_stmts):
            self.add_statement()
        # every planned symbol must exist
        while len(self.labels) < len(self.planned_labels):
            name = self.planned_labels[len(self.labels)]
            self.labels.append(name)
            self.items.append(Item(kind="label", name=name))
        for name in self.planned_consts[len(self.consts):]:
            self.items.append(Item(kind="assign", name=name, expr=("lit", self.rng.randrange(0, 60))))
            self.consts.append(name)
        self.align_even()
        self.items.append(Item(kind="insn", mn="halt", ops=[]))
        return self.items


def operand_text(op, rng, style=None):
    style = style or {}
    k = op[0]
    if k == "raw":
        return op[1]
    if k == "imm":
        return "#" + expr_text(op[1], rng, style=style)
    if k == "abs":
        return "@#" + expr_text(op[1], rng, style=style)
    if k == "idx":
        return expr_text(op[1], rng, 1, "l", True, style) + "(r%d)" % op[2]
    if k == "idxdef":
        return "@" + expr_text(op[1], rng, 1, "l", True, style) + "(r%d)" % op[2]
    if k == "rel":
        return expr_text(op[1], rng, style=style)
    if k == "reldef":
        return "@" + expr_text(op[1], rng, 2, "r", True, style)
    if k == "target":
        return expr_text(op[1], rng, style=style)
    raise ValueError(op)


def item_text(it, rng, style=None):
    style = style or {}
    k = it["kind"]
    if k == "label":
        return it["name"] + (":" if not it.get("export") else "::")
    if k == "assign":
        return "%s %s %s" % (it["name"], "==" if it.get("export") else "=", expr_text(it["expr"], rng, style=style))
    if k == "insn":
        ops = ", ".join(operand_text(o, rng, style) for o in it["ops"])
        return ("\t" if rng.random() < 0.5 else "") + it["mn"] + (" " + ops if ops else "")
    if k == "dir":
        args = ", ".join(expr_text(a, rng, style=style) for a in it["args"])
        if it["name"] == "implicit":
            # an implicit word list must start with a plain octal number: a line starting with
            # '-', '+', '^' or '(' continues the previous expression, and a dotted symbol is read as an
            # instruction name followed by junk
            first = it["args"][0]
            if first[0] == "lit" and first[1] >= 0:
                rest = ", ".join(expr_text(a, rng, style=style) for a in it["args"][1:])
                return "%o" % first[1] + (", " + rest if rest else "")
            return ".word " + args
        return it["name"] + (" " + args if args else "")
    if k == "str":
        q = rng.choice("\"'/")
        return "%s %s%s%s" % (it["name"], q, it["text"], q) if q not in it["text"] else "%s /%s/" % (it["name"], it["text"].replace("/", "."))
    if k == "repeat":
        body = "\n".join("    " + item_text(b, rng, style) for b in it["body"])
        return ".repeat %s {\n%s\n}" % (expr_text(it["count"], rng, style=style), body)
    if k == "skip":
        return ". = . + %s" % num(it["delta"], rng)
    if k == "comment":
        return it["text"]
    if k == "raw":
        return it["text"]
    raise ValueError(k)


def render(items, rng, style=None):
    return "\n".join(item_text(it, rng, style) for it in items) + "\n"
