"""C08 every input ends in a result or a reported error.

Grammar G (DESIGN.md): statements over the whole statement / operand / expression grammar
(every mnemonic and directive of the real tables, every addressing form, every operator,
three bracket kinds, every number and string spelling, nesting <= 8), drawn so that most
texts are nearly valid; plus planted faults (cycles, undefined names, out-of-range values,
odd addresses, missing files, oversize images, backward skips, misplaced definitions ...);
plus 1-4 token-level and character-level mutations of such texts.  Every text is assembled
in-process under a watchdog with the harness' report handler; a quarter of them also through
the command line with the 'bare' and the 'graphical' handler.

Outcome classes: ok | failed with >= 1 error report | crash (an exception other than
UnrecoverableError) | hang (watchdog) | silent failure (failed without an error report) |
ok although an error was reported.  Only the first two satisfy the property.  The first
witness of every new crash site is shrunk (lines, then characters)."""
import json
import os
import re

from . import impl, thunkrun
from .gen import ProgramGen, render
from .shrink import shrink_lines

REGS = ["r0", "r1", "r2", "r3", "r4", "r5", "r6", "r7", "sp", "pc", "R3", "%0", "%5", "%7", "%10", "%k", "ac0", "ac1", "ac3", "ac4", "ac5", "f2"]
SYMS = ["a", "b", "lbl", "k", "n", "x.y", "v$1", "LOOP", "undefined_name", "r8", "ac9", "1$", "2$", "10$", "3", "nop", ".word", "all"]
INFIX = ["+", "-", "*", "/", "%", "<<", ">>", "_", "&", "^", "|", "!", "$"]
PREFIX = ["-", "+", "~", "^c", "^C", "#", "@", "%"]
POSTFIX = ["+", "-"]
NUMS = ["0", "1", "2", "7", "10", "12", "377", "400", "1000", "177777", "200000", "77777777777", "8", "9", "19", "10.", "65535.", "65536.", "0x1f", "0XFF",
        "0xzz", "0b101", "0b2", "0o17", "0o8", "^O17", "^o8", "^D19", "^X1F", "^xg", "^B101", "^B2", "^D", "1e5", "12h", "0ffh", "1$", "1.5", "-1", "-32768.", "-32769.",
        "99999999999999999999999999999999999999999", "00000", "^O", "0x",
        # digits of other scripts, superscripts, full-width forms (str.isdigit / \d hold for some of them)
        "٨", "١٢", "٣.", "۷", "１２", "²", "1٢", "^D١٢", "^O٧", "0x١", "٤$", "७७", "-٨", "৯"]
CHARS = ["'a", "'", "\"ab", "\"a", "\"", "'\\n", "^Rabc", "^R", "^R$%.", "^Rabcd", "^Ra b", "^F1.5", "'ж", "\"жя", "'\t", "<12>", "<lf>"]
STRS = ['"abc"', "'abc'", "/abc/", '"a\\nb"', '"\\x41"', '"\\xzz"', '"\\"', '"\\q"', '"unterminated', "/a/b/", '""', "<12>", '"a"<15><12>"b"', "/жя☃/", '"\\0"', '"\\777"', "|abc|",
        '"a""b"', "<>", "<<1>>", '"x"<400>', '"\\', "'\\", '"\\x4"', '"\\u1234"', '"\\e"']
PATHS = ['"inc.mac"', '"missing.mac"', '"blob.bin"', '"empty.bin"', '"self.mac"', '"/nonexistent/dir/x"', '"sub/../inc.mac"', '""', '"inc.mac" junk', "<k>/inc.mac/", "inc.mac", '"\\0"',
         '"bad_utf8.mac"', '"dir"', '"loop_a.mac"']
OUTS = ['"out"', '"out.bin"', '"/nonexistent/dir/out"', '""', '"out", "NAME"', '"out", "a very long name on tape that does not fit"', '"out", "имя"', '"out", "\\0"', '"-"', "", '"a\\0b"']
ALPHABET = list("abcxyzR019 \t\n.,:;=+-*/%&|^!~_$#@()<>{}\"'\\") + ["ж", "☃", "\x00", "\r", "\x7f", "\u0130", "\u212a"]


class G8:
    def __init__(self, rng, insn_names, meta_names, arity=None):
        self.rng = rng
        self.insns = insn_names
        self.metas = meta_names
        self.arity = arity or {}

    def expr(self, depth=0):
        rng = self.rng
        k = rng.random()
        if depth >= 8 or k < 0.35:
            kk = rng.random()
            if kk < 0.4:
                return rng.choice(NUMS if rng.random() < 0.4 else NUMS[:11])
            if kk < 0.75:
                return rng.choice(SYMS if rng.random() < 0.4 else SYMS[:8]) + (":" if rng.random() < 0.05 else "")
            if kk < 0.85:
                return "."
            if kk < 0.95:
                return rng.choice(CHARS)
            return rng.choice(REGS)
        if k < 0.65:
            return "%s %s %s" % (self.expr(depth + 1), rng.choice(INFIX), self.expr(depth + 1))
        if k < 0.75:
            return rng.choice(PREFIX) + self.expr(depth + 1)
        if k < 0.78:
            return self.expr(depth + 1) + rng.choice(POSTFIX)
        br = rng.choice(["()", "<>", "^/", "^:", "()", "<>"])
        inner = self.expr(depth + 1)
        if br == "()":
            return "(" + inner + ")"
        if br == "<>":
            return "<" + inner + ">"
        return "^" + br[1] + inner + br[1]

    def operand(self):
        rng = self.rng
        k = rng.random()
        r = rng.choice(REGS)
        if k < 0.2:
            return r
        if k < 0.5:
            return rng.choice(["(%s)", "(%s)+", "-(%s)", "@(%s)+", "@-(%s)", "@%s", "@(%s)", "(%s)-", "+(%s)", "((%s))", "@@%s", "-(%s)+"]) % r
        if k < 0.6:
            return "#" + self.expr(5)
        if k < 0.67:
            return "@#" + self.expr(6)
        if k < 0.78:
            return "%s(%s)" % (self.expr(6), r)
        if k < 0.83:
            return "@%s(%s)" % (self.expr(6), r)
        if k < 0.95:
            return self.expr(4)
        return rng.choice(STRS + ["{ nop }", "{", "}", ""])

    def block(self, depth):
        n = self.rng.randint(0, 3)
        return "{ " + " \n ".join(self.statement(depth + 1) for _ in range(n)) + " }"

    def statement(self, depth=0):
        rng = self.rng
        k = rng.random()
        if k < 0.1:
            return rng.choice(SYMS + ["1", "7"]) + rng.choice([":", "::", ": :", ":::"])
        if k < 0.2:
            return "%s %s %s" % (rng.choice(SYMS + ["."]), rng.choice(["=", "==", "= =", "=:"]), self.expr(4))
        if k < 0.55:
            mn = rng.choice(self.insns)
            nops = rng.choice([0, 1, 1, 2, 2, 2, 3])
            if rng.random() < 0.8:
                nops = self.arity.get(mn, nops)
            sep = rng.choice([", ", ",", " , ", " "]) if rng.random() < 0.1 else ", "
            return mn + " " + sep.join(self.operand() for _ in range(nops))
        if k < 0.9:
            name = rng.choice(self.metas)
            if rng.random() < 0.1:
                name = name.lstrip(".")
            kk = rng.random()
            if name in (".ascii", ".asciz", ".rad50", ".title", ".sbttl", ".ident", ".error"):
                args = rng.choice(STRS) if kk < 0.8 else self.expr(5)
            elif name in (".include", "insert_file", ".raw_include"):
                args = rng.choice(PATHS)
                if rng.random() < 0.15:
                    args += "<%s>" % rng.choice(NUMS)
            elif name.startswith("make_"):
                args = rng.choice(OUTS)
            elif name == ".repeat":
                cnt = rng.choice(["0", "1", "2", "3", "k", "-1", "a", "1000", "200000 / 100", self.expr(6)])
                args = cnt + " " + (self.block(depth) if depth < 8 and kk < 0.9 else rng.choice(["", "{", "nop"]))
            elif name == ".extern":
                args = ", ".join(rng.choice(SYMS + ["all", "ALL", "1", "a + b"]) for _ in range(rng.randint(0, 3)))
            elif name in (".even", ".odd", ".page", ".end", ".once", ".list", ".nlist"):
                args = "" if kk < 0.85 else self.expr(6)
            else:
                args = ", ".join(self.expr(4) for _ in range(rng.choice([0, 1, 1, 1, 2, 3])))
            return name + " " + args
        if k < 0.93:
            return ", ".join(self.expr(5) for _ in range(rng.randint(1, 3)))
        if k < 0.96:
            # a symbol where a mnemonic is expected (implicit '.word' when it is a variable)
            return "%s %s %s" % (rng.choice(SYMS[:8]), ", ".join(self.expr(5) for _ in range(rng.randint(0, 2))), rng.choice(["", "", "{ nop }", "{ }", "(3)"]))
        return rng.choice(["", ";", "; comment", "}", "{", ")", "\\", "nop nop", "mov", ",", "=", ":", "' ", "\"", "<", "^", "#", "@", "%", ".", "..", "$", "1:2:", "a b c"])

    def program(self, nmax=60):
        rng = self.rng
        n = rng.choice([1, 1, 2, 3, 5, 8, 12, 20, nmax])
        return "\n".join(self.statement() for _ in range(rng.randint(1, n))) + rng.choice(["\n", "", "\n\n"])


FAULTS = [
    "a = a\n.word a\n", "a = b\nb = a\n", "a = a + 1\n", "a = b + 1\nb = a * 2\n.word b\n", ".blkb a\na:\n", ".blkb a - .\nnop\na:\n", ".repeat n { nop }\nn = l - 1000\nl:\n",
    ".link a\na: nop\n", ".link 1000\n.link 2000\n", "nop\n. = . - 2\n", ". = 177777\nnop\nnop\n", ".blkb 200000\n", ".blkb 177777\n.blkb 177777\n", ".blkw 100000\n",
    ".word 1\n.byte 1\n.word 2\n", ".odd\nnop\n", "br . + 1000\n", "br . + 3\n", "sob r0, . + 2\n", "mov #200000, r0\n", ".byte 400\n", ".byte -201\n", "mov r8, r0\n", "mov (r9), r0\n",
    ".word 1 / 0\n", ".word 1 % 0\n", ".word 1 << -1\n", ".word 1 >> -1\n", ".word 1 << 177777\n", ".word 1 << 100000\n.word 5\n", ".repeat 1000 { .blkb 100 }\n", ".repeat 100000 { }\n", ".repeat 20000 { nop }\n",
    ".repeat 3 { lbl: nop }\n", ".repeat 2 { x = 5 }\n", ".include \"missing.mac\"\n", ".include \"self.mac\"\n", ".include \"loop_a.mac\"\n", "insert_file \"missing.bin\"\n", ".include \"dir\"\n",
    ".include \"bad_utf8.mac\"\n", "insert_file \"dir\"\n", ".end\nnop\n", ".once\n.once\n", ".error \"stop\"\n", ".error\n", ".align 0\n", ".align -1\n", ".align 3\n", ".align 200000\n",
    "lbl:\nlbl:\n", "x = 1\nx = 2\n", "lbl::\n.extern lbl\n", ".extern all\n.extern all\nq:\n", ".extern nothing\n", ".word undefined\n", "mov undefined, r0\n", "br undefined\n",
    "tstf %later\nlater = 2\n", "clr (%later)\nlater = 2\n", "ldf (r0), ac4\n", "mov #'a, r0\n", ".ascii \"\\xzz\"\n", ".ascii \"\\", ".ascii \"abc\n", ".rad50 /abcd!/\n", ".word ^Rab!\n",
    "make_wav \"o\", \"a very long name that is too long for tape\"\n", "make_bin \"\\0\"\n", "make_raw\nmake_raw\n", ".word 'ж\n", ".ascii /ж/\n", ".word \"жя\n", "_tmp:\n.word 1\n_x:\n",
    "mov r0\n", "mov r0, r1, r2\n", "nop r0\n", "halt 5\n", "foo bar\n", ".foo 1\n", "word 1\n", "1: br 1\n2: br 1$\n", "br 8.\n", "x = 5\nx 1, 2\nx (3)\n", ".word x(3)\nx = 2\n",
    "{ nop }\n", "}\n", ".repeat 2 {\n", ".repeat 2 { { { { { { { { { nop } } } } } } } } }\n", "(((((((((1)))))))))\n", ".word <<<<<<<<1>>>>>>>>\n", ".word ^/^/1//\n",
    "mov @#, r0\n", "mov #, r0\n", "mov (r0)(r1), r2\n", "mov 1(2(r0)), r1\n", ".word -\n", ".word +\n", ".word 1 +\n", ".word * 2\n", ".word 1 2\n", ".word ,\n", ".word 1,, 2\n", ".byte\n",
    ".link\n", ".link \"a\"\n", ".ascii 5\n", ".blkb \"a\"\n", ".repeat \"x\" { }\n", ".word .word\n", ".word r0\n", ".word sp:\n", "sp: nop\n", "r0 = 5\n", ". = \n", ". == 5\n", "= 5\n",
    ".word 1e\n", ".word 0x\n", ".word ^B\n", ".word 1$\n", ".word 1:\n", ".word 99999999999999999999999999999999999999\n", ".dword 40000000000\n", ".dword -40000000000\n",
    "insert_file \"blob.bin\"\ninsert_file \"blob.bin\"\n.even\nnop\n", ".include \"inc.mac\"\n.include \"inc.mac\"\n", "nop\n.link 1000\n", ".word a$b\n", "a$ = 1\n", "$ = 1\n.word $\n",
    "a = 1\na 1 { nop }\n", "a = 1\na { }\n", "insert_file \"x\" <40000000000>\n", ".include \"inc.mac\"<200000000000>\n", "make_raw \"o\"<99999999999>\n",
    ".ascii <40000000000>\n", ".ascii \"a\"<-1>\n", ".title x <99999999999>\n", ".rad50 /a/<99999999999>\n", ".even 2\n", ".end main\n", "even 2\n", ".once 1\n", ".page 3\n",
    ".blkb 177777\n.blkb 177777\nnop\n", ".blkb 177777\n.blkb 177777\nmake_bin \"out\"\n", ".blkb 177777\n.blkb 2\nmake_wav \"out\"\n", ".link 177776\n.word 1, 2, 3\n",
    ".link 177776\n.word 1, 2, 3\nmake_bin \"out\"\n",
    "\x00", "\ufeff.word 1\n", "nop\r\nnop\r\n", "nop\rnop\r", "\t\t\n \n", "", "\n", ";\n", ";" * 5000, "nop\n" * 3000, ".word " + ", ".join(["1"] * 3000) + "\n", ".word " + " + ".join(["1"] * 60) + "\n",
    ".word " + "(" * 8 + "1" + ")" * 8 + "\n", ".word " + "-" * 8 + "1\n", ".word " + "^c" * 8 + "1\n", ".word " + "(" * 40 + "1" + ")" * 40 + "\n", "x = " + " * ".join(["a"] * 50) + "\na = 2\n.dword x\n",
]


def _operator_error_paths():
    """every operator error path (division by zero, negative and absurd shift counts) x every kind of left operand: a
    number, a constant defined before / after, a label before / after, '.', sums and differences of them - the value
    the error path gets may still be symbolic"""
    out = []
    for op, right in (("/", "0"), ("%", "0"), ("<<", "-1"), (">>", "-1"), ("<<", "200000"), (">>", "200000"), ("_", "200000"), ("_", "-200000"), ("/", "z0"), ("<<", "m1")):
        for left in ("7", "c1", "c2", "lb1", "lb2", ".", "lb2 - lb1", "lb1 + c2", "lb2 - .", "0"):
            for form in (".word %s", "x9 = %s\n.word x9", "mov #%s, r0", ".blkb %s", ".repeat 2 { .word %s }", "mov %s(r1), r0", "br %s"):
                e = "%s %s %s" % (left, op, right)
                out.append("c1 = 5\nz0 = 0\nlb1: nop\n%s\n.even\nlb2: nop\nc2 = 6\nm1 = -1\n.word 19\n" % (form % e))
    return out


def _limit_values():
    """values exactly at, one below and one above the limits of the fields they go into"""
    out = []
    for lim in (39, 40, 41):
        for form in (".rad50 <%o>", ".rad50 <%o><%o>", ".rad50 <%o><47><47>", ".rad50 <47><%o><47>", ".rad50 /Z/<%o><47>", ".rad50 <%o><%o><%o>"):
            out.append(form.replace("%o", "%o" % lim) + "\n")
    for lim in (255, 256, -128, -129, -255, -256, -257):
        out.append(".byte %d.\n" % lim)
        out.append(".ascii <%d.>\n" % lim)
        out.append(".ascii \"a\"<%d.>\"b\"\n" % lim)
    for lim in (65535, 65536, -32768, -32769, -65535, -65536, -65537):
        for form in (".word %d.", "mov #%d., r0", "mov %d.(r1), r0", ".blkb %d.", ".blkw %d.", ".align %d.", ".repeat %d. { }", ".link %d.", ". = %d.", "emt %d.", "mark %d.", "sob r1, . - %d.",
                     ".dword %d. * 65536.", "br . + %d."):
            out.append(form % lim + "\n")
    for lim in (0, 1, 7, 8, -1):
        for form in ("mov %%%d, r0", "ldf (r0), ac%d", "clr (%%%d)+", "spl %d", "rts %%%d"):
            out.append(form % lim + "\n")
    out += ["", "\n", ";", "; c", " ", "\t", ".end", ".end\n", ".once", "x:", "x = 1", "nop", "nop ", "mov (r1)+, (r2)+ ", "mov (r1)+, (r2)+\t\t", ".word 1,", ".word 1, ", ".ascii \"a\"", ".ascii \"", "'", "\"",
            "x:\nx:", "X:\nx:", "x = 1\nX = 2\n", "Count:\nCOUNT = 10\n", "count = 1\nCount:\n", ".link 0\nnop\n", ". = 0\nnop\n", ".link 0\nmake_bin\n", ".repeat 0 { }\n", ".blkb 0\n", ".align 1\n",
            ".ascii //\n", ".asciz //\n", ".rad50 //\n", ".word ^R\n", "insert_file \"empty.bin\"\n", ".include \"empty.mac\"\n"]
    return out


def _operand_kind_matrix():
    """every infix operator x every kind of left operand x every kind of right operand, in both orders: a number, a
    constant defined before / after, a label before / after, a label at offset 0, '.', a difference of labels - the
    arithmetic of values that are still symbolic (polynomials over the base) has one method per operator *and side*"""
    kinds = ["2", "c1", "c2", "lb1", "lb2", "lb0", ".", "<lb2 - lb1>", "<lb1 + 2>"]
    out = []
    for op in INFIX:
        for left in kinds:
            for right in kinds:
                e = "%s %s %s" % (left, op, right)
                out.append((op, "lb0: c1 = 5\nnop\nlb1: nop\n.word %s\nbuf: .blkb 2 * <lb2 - lb1>\n.even\nlb2: nop\nc2 = 6\n" % e))
    return out


def definition_chain(rng):
    """up to 58 definitions that refer to one another in a chain, each through up to 7 nested prefix operators, brackets
    or infix operators with a number; forward, backward or shuffled; used at one end - valid programs whose resolution is
    as deep as the chain is long (a few also closed into a cycle, which must be reported)"""
    n = rng.randint(2, 58)
    depth_max = rng.choice([0, 1, 3, 5, 7, 7])
    style = rng.choice(["prefix", "prefix", "infix", "mixed"])

    def angle(e):
        # '<<' and '>>' are the shift operators: keep nested angle brackets apart
        return "<" + (" " if e[0] == "<" else "") + e + (" " if e[-1] == ">" else "") + ">"

    def wrap(e):
        for _ in range(rng.randint(0, depth_max) if rng.random() < 0.3 else depth_max):
            k = style if style != "mixed" else rng.choice(["prefix", "infix"])
            if k == "prefix":
                e = rng.choice(["~", "-", "^c", "+"]) + (angle(e) if rng.random() < 0.5 else "(" + e + ")")
            else:
                # (a prefix operator may open an expression, not follow an infix one)
                e = angle(rng.choice(["%s + 1", "%s & 7777", "%s _ 1", "%s * 1", "%s / 1"] + (["1 + %s", "2 * %s"] if e[0] not in "~-^+" else [])) % e)
        return e
    last = rng.choice(["5", "lbl", "lbl - .", ". + 2", "a1" if rng.random() < 0.5 else "5"])
    defs = ["a%d = %s" % (i, wrap("a%d" % (i + 1))) for i in range(1, n)] + ["a%d = %s" % (n, last)]
    order = rng.random()
    if order < 0.3:
        defs.reverse()
    elif order < 0.5:
        rng.shuffle(defs)
    use = rng.choice([".word a1", "mov #a1, r0", ".blkb a1 & 7", "mov a1(r1), r2", ".byte a1 & 377", "x = a1\n.word x"])
    lines = ["lbl: nop"] + defs
    lines.insert(rng.choice([0, 1, len(lines)]), use)
    return "\n".join(lines[:60]) + "\n"


FAULTS += _limit_values()
FAULTS += _operator_error_paths()[::3]          # a third of them in the fixed list; the rest are sampled below


def mutate_tokens(text, rng, pool):
    toks = re.findall(r"\s+|[A-Za-z0-9_$.]+|.", text, re.S)
    if not toks:
        return text
    for _ in range(rng.randint(1, 4)):
        i = rng.randrange(len(toks))
        k = rng.random()
        if k < 0.3:
            del toks[i]
        elif k < 0.5:
            toks.insert(i, toks[i])
        elif k < 0.7:
            j = rng.randrange(len(toks))
            toks[i], toks[j] = toks[j], toks[i]
        else:
            toks[i] = rng.choice(pool)
        if not toks:
            break
    return "".join(toks)


def mutate_chars(text, rng):
    s = list(text)
    for _ in range(rng.randint(1, 4)):
        if not s:
            s = [rng.choice(ALPHABET)]
            continue
        i = rng.randrange(len(s))
        k = rng.random()
        if k < 0.35:
            del s[i]
        elif k < 0.7:
            s.insert(i, rng.choice(ALPHABET))
        else:
            s[i] = rng.choice(ALPHABET)
    return "".join(s)


def setup_dir(d):
    with open(os.path.join(d, "inc.mac"), "w", encoding="utf-8") as f:
        f.write("incl: .word 7\n")
    with open(os.path.join(d, "self.mac"), "w", encoding="utf-8") as f:
        f.write("nop\n.include \"self.mac\"\n")
    with open(os.path.join(d, "loop_a.mac"), "w", encoding="utf-8") as f:
        f.write(".once\n.include \"loop_b.mac\"\n")
    with open(os.path.join(d, "loop_b.mac"), "w", encoding="utf-8") as f:
        f.write(".include \"loop_a.mac\"\n.word 1\n")
    with open(os.path.join(d, "bad_utf8.mac"), "wb") as f:
        f.write(b"nop\n\xff\xfe\n")
    with open(os.path.join(d, "blob.bin"), "wb") as f:
        f.write(bytes(range(1, 8)))
    with open(os.path.join(d, "empty.bin"), "wb") as f:
        pass
    os.makedirs(os.path.join(d, "dir"), exist_ok=True)


def huge_repeat(text):
    """a '.repeat' whose count is a literal above 10^6 (or shifted): time proportional to the
    output the text asks for is not a hang in the sense of the property"""
    product = 1
    for m in re.finditer(r"\.?repeat\s*([^\s{;]*)", text, re.I):
        c = m.group(1)
        if "<<" in c or "*" in c:
            return True
        mm = re.fullmatch(r"(\d+)(\.?)", c)
        if mm:
            try:
                v = int(mm.group(1), 10 if mm.group(2) or re.search("[89]", mm.group(1)) else 8)
            except ValueError:
                continue
            product *= max(v, 1)        # nested repeats multiply
            if product > 10 ** 6:
                return True
    return False


def huge_shift(text):
    """a shift or a product whose operand is a literal of 7 or more digits: memory and time proportional to
    the magnitude of the number the text asks for"""
    return bool(re.search(r"(<<|>>|_|\*)[\s(<^/+\-~cC]*\d{7,}", text))


def classify(r):
    if r.outcome == "ok":
        return "ok-with-error-report" if r.errors() else "ok"
    if r.outcome == "failed":
        return "failed" if r.errors() else "silent-failure"
    return r.outcome


def signature(r):
    c = classify(r)
    if c == "crash":
        return "crash:%s@%s" % (r.exc[0], r.where)
    return c


def classify_cli(res):
    if res.exit == "hang":
        return "hang"
    if res.exit == "exception":
        return "crash"
    if "unexpected internal compiler error" in res.stderr:
        return "crash"
    if res.exit == 0:
        return "ok"
    # the report handlers print to stdout, file and usage trouble goes to stderr
    said = res.stderr + res.stdout.decode("utf-8", "replace")
    if re.search(r"rror|Could not|unsupported|usage|does not fit", said):
        return "failed"
    return "silent-failure"


def cli_signature(res):
    c = classify_cli(res)
    if c == "crash":
        m = re.findall(r'File "/repo/pdpy11/([^"]+)", line \d+, in (\S+)', res.stderr)
        last = re.findall(r"\n(\w+(?:\.\w+)*(?:Error|Exception|Cycle|Interrupt)\w*)", res.stderr)
        exc = (res.exc[0] if res.exc else (last[-1].split(".")[-1] if last else "?"))
        return "crash:%s@%s" % (exc, ("%s:%s" % m[-1]) if m else "?")
    return c


def shrink_text(text, d, sig, timeout=10.0):
    def still(files):
        r = impl.assemble([(os.path.join(d, "t.mac"), files[0][1])], timeout=timeout)
        return signature(r) == sig
    small = shrink_lines([("t.mac", text)], still)[0][1]
    # characters
    changed = True
    rounds = 0
    while changed and rounds < 4 and len(small) < 400:
        changed = False
        rounds += 1
        i = 0
        while i < len(small):
            t = small[:i] + small[i + 1:]
            if still([("t.mac", t)]):
                small = t
                changed = True
            else:
                i += 1
    return small


def run(ctx):
    impl.load()
    rng = ctx.rng("c08")
    insn_names = sorted(k for k in impl.mod("insns").instructions.container)
    meta_names = sorted(impl.mod("metacommand_impl").metacommands)
    table = impl.mod("insns").instructions
    arity = {k: len(table[k].operands) for k in insn_names}
    g = G8(rng, insn_names, meta_names, arity)
    pool = NUMS + SYMS + REGS + INFIX + PREFIX + STRS[:8] + [",", ":", "=", "(", ")", "<", ">", "{", "}", "\n", " ", "#", "@", ";", "."] + insn_names[:40] + meta_names
    ctx.rule = ("grammar G: 1-60 statements over all %d mnemonics and %d directives, every operand form, every operator, three bracket kinds, "
                "%d number / %d character / %d string spellings, nesting <= 8; %d planted-fault programs; harness.gen programs; each also "
                "under 1-4 token-level and 1-4 character-level mutations (alphabet incl. NUL, CR, non-ASCII, U+0130/U+212A). In-process with the "
                "harness handler and a 10 s watchdog; every 4th text (and every offender) also through the CLI with the bare and the graphical "
                "handler. Also (unmutated): every infix operator x 9 kinds of left x 9 kinds of right operand (numbers, constants, labels, the location counter, differences); "
                "chains of 2-58 definitions, each through 0-7 nested operators, in any order. distinct = distinct texts; non-trivial = texts that get past the parser (ok, or failed with a compile-time report)"
                % (len(insn_names), len(meta_names), len(NUMS), len(CHARS), len(STRS), len(FAULTS)))
    th = ctx.thorough
    d = impl.scratch_dir()
    seen_sigs = {}
    try:
        setup_dir(d)
        src = os.path.join(d, "t.mac")

        def one(text, origin, idx):
            with open(src, "w", encoding="utf-8", errors="surrogatepass", newline="") as f:
                f.write(text)
            # the text as the command line reads it (universal newlines), so that both runs see the same
            try:
                with open(src, encoding="utf-8") as f:
                    text = f.read()
            except UnicodeDecodeError:
                ctx.count("text that is not UTF-8 on disk (in-process run only)")
            r = impl.assemble([(src, text)], timeout=10.0)
            c = classify(r)
            ctx.case(text, nontrivial=(c == "ok" or (c == "failed" and not any(x[0] == "critical" for x in r.diags))))
            ctx.count("origin: " + origin)
            ctx.count("outcome: " + c)
            for e in r.error_ids()[:3]:
                ctx.count("error kind: " + e)
            sigs = []
            if c == "hang" and huge_repeat(text):
                ctx.count("watchdog on a text that asks for more than 10^6 repetitions (not judged)")
                return
            if c == "hang" and re.search(r"repeat", text, re.I):
                # a repeat count that is not a plain literal (a symbol, '^Rabc', an expression): give it the time
                # its count asks for before calling it a hang
                r = impl.assemble([(src, text)], timeout=180.0)
                c = classify(r)
                ctx.count("slow '.repeat' re-run with a 180 s watchdog: " + c)
            if c == "hang" and huge_shift(text):
                ctx.count("watchdog on a text that shifts or multiplies by a literal of 7+ digits (not judged)")
                return
            if c not in ("ok", "failed"):
                sigs.append(("in-process", signature(r), r.exc))
            if idx % 4 == 0 or sigs:
                for fmt in ("bare", "graphical"):
                    res = impl.run_cli([src, "-o", os.path.join(d, "out.bin" if fmt == "bare" else "out.raw"), "--report-format", fmt], cwd=d, timeout=15.0)
                    cc = classify_cli(res)
                    ctx.count("cli %s: %s" % (fmt, cc))
                    if cc not in ("ok", "failed"):
                        sigs.append(("cli " + fmt, cli_signature(res), res.exc or res.stderr[-300:]))
                    elif c in ("ok", "failed") and cc != c and not (c == "ok" and (re.search(r"make_", text, re.I) or "does not fit in the 16-bit fields" in (res.stderr or ""))):
                        # ('make_*' writes files only in the command-line run, which may fail there)
                        # the same text must succeed or fail alike under every handler
                        sigs.append(("cli " + fmt, "handler-dependent:%s-vs-%s" % (c, cc), res.stderr[-300:]))
                for fn in os.listdir(d):
                    if fn.startswith("out") or fn.endswith((".lst", ".wav")) or fn in ("o", "a\x00b"):
                        try:
                            os.remove(os.path.join(d, fn))
                        except OSError:
                            pass
            for how, sg, detail in sigs:
                first = sg not in seen_sigs
                seen_sigs[sg] = seen_sigs.get(sg, 0) + 1
                if not first:
                    continue
                small = text
                if how == "in-process" and sg.startswith(("crash", "silent", "ok-with")) and len(text) < 20000:
                    try:
                        small = shrink_text(text, d, sg)
                    except Exception:  # pylint: disable=broad-except
                        small = text
                ctx.violation("the assembler ended in '%s' (%s)" % (sg, how), {"text": small, "origin": origin, "original_text": text if len(text) < 3000 else text[:3000] + "..."},
                              expected="a result, or a failure with at least one error report", observed=detail, finding_sig=sg)

        idx = 0
        for text in FAULTS:
            one(text, "planted fault", idx)
            idx += 1
            for _ in range(2 if th else 1):
                one(mutate_chars(text, rng), "planted fault, characters mutated", idx)
                idx += 1
                one(mutate_tokens(text, rng, pool), "planted fault, tokens mutated", idx)
                idx += 1
        for _ in range(4000 if th else 700):
            text = g.program()
            one(text, "grammar", idx)
            idx += 1
            if rng.random() < 0.5:
                one(mutate_tokens(text, rng, pool), "grammar, tokens mutated", idx)
                idx += 1
            if rng.random() < 0.5:
                one(mutate_chars(text, rng), "grammar, characters mutated", idx)
                idx += 1
        for _ in range(800 if th else 150):
            pg = ProgramGen(rng, features={"forward_sizes": True, "export": 0.2}, n_stmts=rng.randint(3, 40))
            text = (".link %o\n" % rng.choice([0o1000, 0o40000, 0o177000]) if rng.random() < 0.6 else "") + render(pg.generate(), rng)
            one(text, "valid program", idx)
            idx += 1
            one(mutate_tokens(text, rng, pool), "valid program, tokens mutated", idx)
            idx += 1
            one(mutate_chars(text, rng), "valid program, characters mutated", idx)
            idx += 1
        matrix = _operand_kind_matrix()
        for op, text in (matrix if th else matrix[rng.randrange(5)::5]):
            one(text, "operator x operand-kind matrix", idx)
            idx += 1
        for _ in range(600 if th else 150):
            one(definition_chain(rng), "definition chain", idx)
            idx += 1
        for sg, n in seen_sigs.items():
            ctx.count("offending outcome %s" % sg, n)
        # the value-level reason why resolution ends: the stack of values being computed, on graphs that may be cyclic
        thunkrun.await_stream(ctx, ctx.rng("c08-await"), 2500 if th else 500)
    finally:
        impl.drop_scratch(d)


def search(ctx, broken):
    if not ctx.thorough:
        ctx.thorough = True
        run(ctx)


def replay(ctx, path):
    with open(path, encoding="utf-8") as f:
        rep = json.load(f)
    v = rep.get("violation") or {}
    print(json.dumps(v or rep, indent=1, ensure_ascii=False)[:6000])
    inp = v.get("input") or {}
    if "text" in inp:
        impl.load()
        d = impl.scratch_dir()
        try:
            setup_dir(d)
            r = impl.assemble([(os.path.join(d, "t.mac"), inp["text"])])
            print("replayed on the current tree:", classify(r), r.exc, r.where, r.error_ids())
        finally:
            impl.drop_scratch(d)
    return 0
