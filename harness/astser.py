"""Canonical text form of the implementation's AST, identical to Model.Syntax.show* ."""
from . import impl


def sp(tok):
    return "%d:%d" % (tok.ctx_start.pos, tok.ctx_end.pos)


def hexs(s):
    return ".".join(str(ord(c)) for c in s) if s else "-"


def b(x):
    return "1" if x else "0"


def expr(t):
    T = impl.mod("types")
    O = impl.mod("operators")
    if isinstance(t, T.Number):
        return "(num %s %s %d %s %s)" % (sp(t), hexs(t.representation), t.value, b(t.is_valid_label), b(t.invalid_base8))
    if isinstance(t, T.Symbol):
        return "(sym %s %s %s)" % (sp(t), hexs(t.name), b(t.is_necessarily_label))
    if isinstance(t, T.InstructionPointer):
        return "(dot %s)" % sp(t)
    if isinstance(t, T.ParenthesizedExpression):
        return "(paren %s %s %s)" % (sp(t), hexs(t.opening_parenthesis), expr(t.expr))
    if isinstance(t, T.CharLiteral):
        return "(chr %s %s %s)" % (sp(t), hexs(t.representation), hexs(t.string))
    if isinstance(t, O.InfixOperator):
        return "(infix %s %s %s %s)" % (sp(t), type(t).__name__, expr(t.lhs), expr(t.rhs))
    if isinstance(t, O.PrefixOperator):
        return "(pre %s %s %s)" % (sp(t), type(t).__name__, expr(t.operand))
    if isinstance(t, O.PostfixOperator):
        return "(post %s %s %s)" % (sp(t), type(t).__name__, expr(t.operand))
    raise ValueError(type(t).__name__)


def chunk(t):
    T = impl.mod("types")
    if isinstance(t, T.QuotedString):
        return "(q %s %s %s)" % (sp(t), hexs(t.quote), hexs(t.string))
    if isinstance(t, T.AngleBracketedChar):
        return "(a %s %s)" % (sp(t), expr(t.expr))
    raise ValueError(type(t).__name__)


def operand(t):
    T = impl.mod("types")
    if isinstance(t, (T.QuotedString, T.AngleBracketedChar)):
        return "(str1 %s)" % chunk(t)
    if isinstance(t, T.StringConcatenation):
        return "(str %s %s)" % (sp(t), " ".join(chunk(c) for c in t.chunks))
    if isinstance(t, T.CodeBlock):
        return "(block %s %s)" % (sp(t), " ".join(stmt(s) for s in t.insns))
    return expr(t)


def stmt(t):
    T = impl.mod("types")
    if isinstance(t, T.Label):
        return "(label %s %s %s)" % (sp(t), hexs(t.name), b(t.is_extern))
    if isinstance(t, T.Assignment):
        if isinstance(t.target, T.InstructionPointer):
            return "(dotassign %s %s)" % (sp(t), expr(t.value))
        return "(assign %s %s %s %s %s)" % (sp(t), hexs(t.target.name), sp(t.target), expr(t.value), b(t.is_extern))
    if isinstance(t, T.Instruction):
        return "(insn %s %s %s %s)" % (sp(t), hexs(t.name.name), sp(t.name), " ".join(operand(o) for o in t.operands))
    if isinstance(t, T.WordList):
        return "(words %s %s)" % (sp(t), " ".join(expr(w) for w in t.words))
    raise ValueError(type(t).__name__)


def parse_result(text, filename="/t/main.mac", timeout=10.0):
    """(status, [diag strings], ast text) of the real parser.  status: ok (an AST was built;
    errors may have been reported) | fatal (a critical report aborted the parse) | crash | hang"""
    m = impl.load()
    reports = m["reports"]
    diags = []
    box = {}

    def handler(priority, identifier, *reps):
        sev = "warning" if priority is reports.warning else ("critical" if priority is reports.critical else "error")
        cs, ce, _text = reps[0]
        diags.append("%s:%s:%d:%d" % (sev, identifier, cs.pos, ce.pos))

    try:
        with impl.watchdog(timeout):
            try:
                with reports.handle_reports(handler):
                    box["ast"] = m["parser"].parse(filename, text)
            except reports.UnrecoverableError:
                pass
            except RecursionError as ex:
                return "crash", diags, "RecursionError"
            except Exception as ex:  # pylint: disable=broad-except
                return "crash", diags, "%s: %s" % (type(ex).__name__, str(ex)[:120])
    except impl.Hang:
        impl.load(fresh=True)
        return "hang", diags, "-"
    if "ast" in box:
        return "ok", diags, " ".join(stmt(s) for s in box["ast"].body.insns)
    return "fatal", diags, "-"
