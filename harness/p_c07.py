"""C07 errors fail the build, warnings never change it: main_cli runs in a scratch directory
with 0-3 planted faults / warnings x report formats x -W selections x output options,
compared with the Lean Cli model and judged directly."""
import json
import os

from . import impl
from .p_c17 import FAULTS

WARNINGS = [
    ("implicit-operand", ".byte"), ("legacy-deferred", "clr @r1"), ("implicit-index", "clr @(r1)"), ("excess-hash", "emt #5"),
    ("not-implemented", ".list"), ("missing-newline", "nop nop"), ("meta-typo", "byte 1"), ("excess-quote", ".word 'a'"),
    ("suspicious-name", "mov: nop"), ("label-fixup", "br 7+2\n7: nop"), ("not-implemented", ".title hello"),
]


def _w_long_list(rng):
    """an implicit word list continued over many lines, the instruction that ends it on the last line: the note of
    the warning ('the word list started here') is many lines above its primary position"""
    k = rng.randint(1, 30)
    rows = ["%o, %o," % (rng.randrange(512), rng.randrange(512)) for _ in range(k)]
    return "\n".join(rows) + "\n%o %s" % (rng.randrange(512), rng.choice(["nop", "inc r1", "halt"]))


def _w_far_fixup(rng):
    k = rng.randint(0, 40)
    return "br 7+2\n" + "".join("nop\n" for _ in range(k)) + "7: nop"


def _w_wide_line(rng):
    """a warning at the end of a very long line (tabs, non-ASCII text in a comment before it on earlier lines)"""
    return "; " + "щ" * rng.randint(0, 90) + "\n" + "\t" * rng.randint(0, 12) + ".word " + ", ".join("%o" % rng.randrange(8) for _ in range(rng.randint(1, 120))) + " nop"


def _w_list_then_text(rng):
    k = rng.randint(1, 20)
    return ".word 1,\n" + "".join("%o,\n" % i for i in range(k)) + "5 clr r0"


WARNINGS += [("missing-newline", _w_long_list), ("label-fixup", _w_far_fixup), ("missing-newline", _w_wide_line), ("missing-newline", _w_list_then_text)]
W_NAMES = ["all", "default", "no-all", "no-default", "implicit-operand", "no-implicit-operand", "legacy-deferred", "no-excess-hash",
           "missing-newline", "no-label-fixup", "suspicious-name", "bogus-name", "excess-quote"]
FILL = ["nop", "mov #1, r0", "inc r2", ".word 1, 2", "clr (r3)+", "k%d = 5", "l%d: dec r1", "msg.text%d: .word 7", "buf.end%d = 177", "q$.%d:: nop"]

# faults that need a second file or change the layout of the program text are left to C17
SKIP = {"include-missing", "insert-missing", "odd-word", "duplicate-label", "second-link"}


def gen_source(rng):
    lines = []
    planted = []
    n = 0
    for _ in range(rng.randint(2, 8)):
        n += 1
        lines.append(rng.choice(FILL).replace("%d", str(n)))
    k = rng.choice([0, 0, 1, 1, 2, 3])
    pool_f = [f for f in FAULTS if f[0] not in SKIP]
    for _ in range(k):
        if rng.random() < 0.5:
            f = rng.choice(pool_f)
            pos = rng.randrange(len(lines) + 1)
            lines.insert(pos, ".even\n" + f[1])
            planted.append(("fault", f[0]))
        else:
            w = rng.choice(WARNINGS)
            pos = rng.randrange(len(lines) + 1)
            wtxt = w[1](rng) if callable(w[1]) else w[1]
            if rng.random() < 0.4 and "\n" not in wtxt and "'" not in wtxt and '"' not in wtxt:
                # a comment behind the statement the warning points at (semicolons, tabs, non-ASCII in it)
                wtxt += rng.choice([" ; note", "\t; a ; b ;; c", " ;", " ; комментарий ; ☃"])
            lines.insert(pos, ".even\n" + wtxt)
            planted.append(("warning", w[0]))
    return "\n".join(lines) + "\n", planted


def run(ctx):
    impl.load()
    rng = ctx.rng("c07")
    ctx.rule = ("generated programs with 0-3 planted faults (parse-time, compile-time, critical and non-critical; %d kinds) and/or warnings "
                "(%d kinds) x report format (graphical, bare) x random -W selections x output options (-o bin/raw, --implicit-bin, "
                "make_bin/make_raw, --lst, none) through main_cli in a scratch directory; distinct = distinct (program, options); "
                "non-trivial = at least one planted item or output option" % (len(FAULTS) - len(SKIP), len(WARNINGS)))
    n_prog = 800 if ctx.thorough else 300
    n_cfg = 6 if ctx.thorough else 4
    reqs, jobs = [], []
    for _ in range(n_prog):
        src, planted = gen_source(rng)
        out_kind = rng.choice(["-o-bin", "-o-raw", "implicit", "make_bin", "make_raw", "none", "make+o", "make_late", "make_late"])
        lst = rng.random() < 0.5
        src_full = src + ("make_bin\n" if out_kind in ("make_bin", "make+o") else "") + ("make_raw 'x.raw'\n" if out_kind == "make_raw" else "")
        if out_kind == "make_late":
            # two outputs whose names are known only at the end of the source, the directives standing between code
            src_full = "nop\nmake_raw \"rel\" <VER9 + 60> \".raw\"\n" + src + "make_raw \"dbg\" <VER9 + 60> \".raw\"\nnop\nVER9 = 2\n"
        base_argv = ["p.mac"]
        if out_kind in ("-o-bin", "make+o"):
            base_argv += ["-o", "res.bin"]
        if out_kind == "-o-raw":
            base_argv += ["-o", "res.dat"]
        if out_kind == "implicit":
            base_argv += ["--implicit-bin"]
        if lst:
            base_argv += ["--lst"]
        # reference: the unfiltered events of the same program, in-process
        d0 = impl.scratch_dir()
        with open(os.path.join(d0, "p.mac"), "w", encoding="utf-8") as f:
            f.write(src_full)
        ref = impl.assemble([(os.path.join(d0, "p.mac"), src_full)])
        impl.drop_scratch(d0)
        if ref.outcome in ("crash", "hang"):
            ctx.violation("a planted program ended in " + ref.outcome, {"source": src_full}, expected="a result or a reported error", observed=ref.exc)
            continue
        events = [("warning" if dg[0] == "warning" else dg[0]) for dg in ref.diags]
        n_err = sum(1 for e in events if e != "warning")
        n_emitted = len(ref.emitted) if ref.outcome == "ok" else src_full.count("make_")
        outcomes = []
        for cfg in range(n_cfg):
            fmt = rng.choice(["graphical", "bare"])
            ws = [rng.choice(W_NAMES) for _ in range(rng.randint(0, 3))]
            argv = base_argv + ["--report-format=" + fmt] + ["-W" + w for w in ws]
            d = impl.scratch_dir()
            try:
                with open(os.path.join(d, "p.mac"), "w", encoding="utf-8") as f:
                    f.write(src_full)
                before = impl.snapshot_dir(d)
                res = impl.run_cli(argv, cwd=d)
                after = impl.snapshot_dir(d)
                new = {k: v for k, v in after.items() if before.get(k) != v}
                inp = {"source": src_full, "argv": argv, "planted": planted}
                ctx.case((src_full, tuple(argv)), nontrivial=bool(planted) or out_kind != "none")
                ctx.count("cfg-" + fmt)
                ctx.count("planted-%d" % len(planted))
                # the listing names the source file by absolute path: canonicalise the scratch directory
                canon = {k: (v.replace(d.encode(), b"<dir>") if k.endswith(".lst") else v) for k, v in new.items()}
                outcomes.append((res.exit, sorted(canon.items())))
                if res.exit not in (0, 1):
                    ctx.violation("main_cli ended abnormally", inp, expected="exit 0 or 1", observed={"exit": res.exit, "exc": res.exc, "stderr": res.stderr[-300:]})
                    continue
                if "unexpected internal compiler error" in res.stderr:
                    ctx.violation("main_cli took the internal-error path", inp, expected="a diagnostic", observed=res.stderr[-400:])
                # the property, directly
                if (res.exit != 0) != (n_err > 0):
                    ctx.violation("exit status does not say whether an error-severity diagnostic was issued", inp,
                                  expected="non-zero iff %d errors > 0" % n_err, observed={"exit": res.exit, "stderr": res.stderr[-300:]})
                shown = res.stdout.decode("utf-8", "replace").count(": Error: ") + res.stderr.count("\x1b[91mError\x1b[0m in ")
                if (res.exit != 0) != (shown > 0):
                    ctx.violation("failure without a displayed error diagnostic (or an error diagnostic without failure)", inp,
                                  expected="error reports displayed iff exit != 0", observed={"exit": res.exit, "displayed_errors": shown})
                if res.exit != 0 and new:
                    ctx.violation("a failed run created or modified files", inp, expected="no file", observed=sorted(new))
                if res.exit == 0:
                    want_files = set()
                    if out_kind in ("make_bin", "make+o"):
                        want_files.add("p.bin")
                    if out_kind == "make_raw":
                        want_files.add("x.raw")
                    if out_kind == "make_late":
                        want_files |= {"rel2.raw", "dbg2.raw"}
                    if out_kind in ("-o-bin", "make+o"):
                        want_files.add("res.bin")
                    if out_kind == "-o-raw":
                        want_files.add("res.dat")
                    if out_kind == "implicit":
                        want_files.add("p.bin")
                    if lst and want_files:
                        want_files |= {k for k in new if k.endswith(".lst")}
                        if not any(k.endswith(".lst") for k in new):
                            ctx.violation("--lst wrote no listing although an output file exists", inp, expected="a .lst file", observed=sorted(new))
                    if set(new) != want_files:
                        ctx.violation("a successful run did not write exactly the requested outputs", inp, expected=sorted(want_files), observed=sorted(new))
                # the model
                reqs.append("cli %s %d %d %d %d" % (",".join(events) or "-", n_emitted, 1 if "-o" in argv else 0, 1 if "--implicit-bin" in argv else 0, 1 if lst else 0))
                jobs.append((inp, res.exit, len(new)))
            finally:
                impl.drop_scratch(d)
        if len({json.dumps([o[0], [(k, v.hex()) for k, v in o[1]]]) for o in outcomes}) > 1:
            ctx.violation("exit status / files / bytes depend on the warning selection or the report format",
                          {"source": src_full, "argv_base": base_argv}, expected="one outcome", observed=[(o[0], [k for k, _ in o[1]]) for o in outcomes])
        ctx.sample({"source": src_full, "argv": base_argv, "planted": planted, "events": events, "exit": outcomes[0][0] if outcomes else None})
    # ---- at the limit of the container: 65535 bytes fit the 16-bit length field, 65536 do not; a run that fails for
    # that reason creates nothing and leaves what was there before as it was
    for size, sel in [(65535, "make_bin"), (65536, "make_bin"), (65536, "-o-bin"), (65535, "-o-bin"), (65536, "implicit"), (65536, "make_bin_named")]:
        d = impl.scratch_dir()
        try:
            body = ".blkb 177777\n" + (".byte 1\n" if size == 65536 else "")
            extra = {"make_bin": "make_bin\n", "make_bin_named": "make_bin \"big.bin\"\n"}.get(sel, "")
            argv = ["p.mac"] + {"-o-bin": ["-o", "p.bin"], "implicit": ["--implicit-bin"]}.get(sel, [])
            with open(os.path.join(d, "p.mac"), "w", encoding="utf-8") as f:
                f.write(body + extra)
            target = "big.bin" if sel == "make_bin_named" else "p.bin"
            old_content = rng.choice([None, b"an earlier good build " * 5])
            if old_content is not None:
                with open(os.path.join(d, target), "wb") as f:
                    f.write(old_content)
            before = impl.snapshot_dir(d)
            res = impl.run_cli(argv, cwd=d, timeout=60.0)
            after = impl.snapshot_dir(d)
            inp = {"source": body + extra, "argv": argv, "image_bytes": size, "target_existed": old_content is not None}
            ctx.case(("limit", size, sel, old_content is not None))
            ctx.count("container-limit runs")
            if size == 65535:
                if res.exit != 0 or len(after.get(target, b"")) != 65535 + 4:
                    ctx.violation("an image of 65535 bytes was not written to its bin container", inp, expected="exit 0, 65539 bytes", observed={"exit": res.exit, "len": len(after.get(target, b""))})
            else:
                if res.exit == 0:
                    ctx.violation("an image that does not fit its container was written without an error", inp, expected="failure", observed="exit 0")
                elif after != before:
                    ctx.violation("a failed run created or modified files", inp, expected="directory unchanged",
                                  observed=sorted(k for k in set(after) | set(before) if after.get(k) != before.get(k)))
        finally:
            impl.drop_scratch(d)
    for (inp, exit_, nnew), a in zip(jobs, ctx.driver.ask(reqs)):
        kv = dict(t.split("=") for t in a.split())
        m_writes = 0 if kv["writes"] == "-" else len(kv["writes"].split(","))
        if int(kv["exit"]) != exit_ or m_writes != nnew:
            ctx.disagree("CLI exit status / number of files written", inp, a, {"exit": exit_, "files": nnew})


def search(ctx, broken):
    if not ctx.thorough:
        ctx.thorough = True
        run(ctx)


def replay(ctx, path):
    with open(path, encoding="utf-8") as f:
        rep = json.load(f)
    v = rep.get("violation")
    if not v:
        print("replay file names a broken obligation, no failing input: re-run ./check C07")
        return 0
    inp = v["input"]
    d = impl.scratch_dir()
    with open(os.path.join(d, "p.mac"), "w", encoding="utf-8") as f:
        f.write(inp["source"])
    res = impl.run_cli(inp.get("argv", ["p.mac"]), cwd=d)
    print("exit", res.exit, sorted(impl.snapshot_dir(d)))
    print(res.stderr[-1500:])
    impl.drop_scratch(d)
    return 0
