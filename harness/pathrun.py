"""devices.resolve_relative_path (the identity of included / inserted / written files, and the key
under which `.once` counts compilations) against Model/Path.lean (verb `respath`): random base
files and relative paths with `.`, `..`, doubled slashes and names."""
from .common import nl, parse_nl

PIECES = ["a", "b", "sub", "x.mac", "..", ".", "", "d.e", "..", "lib", "X"]


def _path(rng, absolute, n):
    cs = [rng.choice(PIECES) for _ in range(n)]
    p = "/".join(cs)
    if absolute:
        p = "/" + p.lstrip("/")
    else:
        p = p.lstrip("/")
    return p


def path_stream(ctx, rng, n, impl):
    dev = impl.mod("devices")
    reqs, jobs = [], []
    for _ in range(n):
        base = _path(rng, rng.random() < 0.7, rng.randint(1, 5))
        if base.endswith("/") or not base:
            base += "m.mac"
        rel = _path(rng, rng.random() < 0.15, rng.randint(1, 5))
        if not rel or rel.startswith("~"):
            continue
        got = dev.resolve_relative_path(rel, base)
        ctx.case(("respath", rel, base), nontrivial=".." in rel or "./" in rel or "//" in rel)
        ctx.count("resolved paths")
        # the property-level fact behind '.once' and includes: spellings that differ by './', '//' and 'name/../' are one file
        alt = rel
        k = rng.random()
        if not rel.startswith("/"):
            if k < 0.3:
                alt = "./" + rel
            elif k < 0.6:
                alt = "zz/../" + rel
            elif k < 0.8 and "/" in rel:
                alt = rel.replace("/", "//", 1)
            if alt != rel and dev.resolve_relative_path(alt, base) != got:
                ctx.violation("two spellings of one relative path resolve to different files", {"base": base, "relative": rel, "other": alt},
                              expected=got, observed=dev.resolve_relative_path(alt, base))
        reqs.append("respath %s %s" % (nl(map(ord, rel)), nl(map(ord, base))))
        jobs.append((rel, base, got))
    for (rel, base, got), a in zip(jobs, ctx.driver.ask(reqs)):
        want = "".join(map(chr, parse_nl(a))) if a != "bad-op" else a
        if want != got:
            ctx.disagree("Model.Path.resolve (resolve_relative_path)", {"relative": rel, "base": base}, want, got)
