"""C04 branches, SOB and PC-relative operands: exhaustive distance enumeration through
the real assembler, compared with the Lean model (`insn`) and judged by the Lean Spec
effective-address rules (`ea`)."""
import json
import re

from . import impl
from .insnrun import InsnCase, run_cases, stub_classes_of, all_mnemonics, stubs_of, num, run_program


def branch_mnemonics():
    out = []
    for name in all_mnemonics():
        st = stubs_of(name)
        if len(st) == 1 and type(st[0]).__name__ == "OffsetOperandStub":
            out.append(name)
    return out


def sob_mnemonics():
    return [n for n in all_mnemonics() if [type(s).__name__ for s in stubs_of(n)] == ["RegisterOperandStub", "OffsetOperandStub"]]


def dot_expr(d, rng):
    """'.'-relative spelling of a distance"""
    if d == 0 and rng.random() < 0.5:
        return "."
    k = abs(d)
    lit = rng.choice(["%o" % k, "%d." % k, "0x%x" % k])
    return (".+" if d >= 0 else ".-") + lit


def run(ctx):
    impl.load()
    rng = ctx.rng("c04")
    ctx.rule = ("every branch mnemonic x distance (target - instruction address) -300..+300, SOB x -140..+6, relative and "
                "relative-deferred operands in every operand position of representative instructions x 64+ targets over the 64 KiB "
                "space (incl. wrap-around) x 3 bases; spelled as '.'+-k, constant symbols, physically placed labels, local labels, "
                "label+-k. distinct = distinct (mnemonic, operands, address); non-trivial = all of them")
    pending_ea = []   # (kind, addr, word, target, case source)

    # ------------------------------------------------------------------ branches
    def on_branch(c):
        kind, emit, target = c.info
        ctx.case((c.name, c.emit, tuple(c.ops)))
        ctx.sample({"source": c.src, "address": c.emit, "model": c.model["raw"], "impl": {k: c.impl[k] for k in ("outcome", "words", "errs")}})
        off = target - (c.emit + 2)
        if kind == "br":
            reach = -256 <= off <= 254 and off % 2 == 0
        else:
            reach = -126 <= off <= 0 and off % 2 == 0
        i = c.impl
        if reach:
            if i["outcome"] != "ok":
                ctx.violation("a target inside the reach of the displacement field was rejected",
                              {"source": c.src, "address": c.emit, "target": target}, expected="accepted", observed=i)
            else:
                pending_ea.append((kind, c.emit, i["words"][0], target, c.src))
        else:
            if i["outcome"] == "ok":
                ctx.violation("a branch whose target is out of reach or at an odd distance was assembled",
                              {"source": c.src, "address": c.emit, "target": target}, expected="an error", observed=i)
            elif i["outcome"] != "failed" or not (set(i["errs"]) & {"branch-out-of-bounds", "odd-branch"}):
                ctx.violation("an out-of-reach branch did not end in a branch error",
                              {"source": c.src, "address": c.emit, "target": target}, expected="branch-out-of-bounds / odd-branch", observed=i)

    cases = []
    brs = branch_mnemonics()
    ctx.extra["branch_mnemonics"] = brs
    for name in brs:
        if ctx.thorough or name == "br":
            ds = list(range(-300, 301))
        else:
            ds = sorted(set(list(range(-262, -250)) + list(range(248, 262)) + list(range(-6, 8)) + rng.sample(range(-300, 301), 60)))
        for d in ds:
            shape = rng.choice(["dot", "dot", "sym", "symk"])

            def build(emit, d=d, shape=shape, name=name):
                t = emit + d
                if shape == "dot":
                    return [("V", t)], "%s %s" % (name, dot_expr(d, rng))
                if shape == "sym":
                    return [("V", t)], "%s T%d" % (name, t)
                k = rng.choice([-4, -2, 2, 6, 10])
                return [("V", t)], "%s T%d%s%s" % (name, t - k, "+" if k >= 0 else "-", num(abs(k), rng))
            cases.append(InsnCase(name, build=build, info=None, tag=("br", d)))
            ctx.count("branch-distances")
    # symbols T<n> for every value that can be referenced
    def prelude(lines):
        vals = sorted({int(m) for ln in lines for m in re.findall(r"\bT(\d+)", ln)})
        return "".join("T%d = %d.\n" % (v, v) for v in vals)

    def wrap_info(cs, kind):
        def cb(c):
            c.info = (kind, c.emit, c.emit + c.tag[1])
            on_branch(c)
        return cb
    run_cases(ctx, cases, stub_classes_of, base=0o1000, prelude=prelude, batch=300, on_result=wrap_info(cases, "br"))

    # ------------------------------------------------------------------ SOB
    cases = []
    for name in sob_mnemonics():
        for d in range(-140, 7):
            reg = ("n", rng.randrange(8))

            def build(emit, d=d, reg=reg, name=name):
                t = emit + d
                shape = rng.choice(["dot", "sym"])
                r = "r%d" % reg[1]
                if shape == "dot":
                    return [("R", reg), ("V", t)], "%s %s, %s" % (name, r, dot_expr(d, rng))
                return [("R", reg), ("V", t)], "%s %s, T%d" % (name, r, t)
            cases.append(InsnCase(name, build=build, tag=("sob", d)))
            ctx.count("sob-distances")
    run_cases(ctx, cases, stub_classes_of, base=0o1000, prelude=prelude, batch=300, on_result=wrap_info(cases, "sob"))

    # ------------------------------------------------------------------ physically placed labels (one program each)
    shapes = 0
    for d in (list(range(-300, 301, 1)) if ctx.thorough else sorted(set(list(range(-260, -250)) + list(range(250, 260)) + list(range(-10, 12)) + rng.sample(range(-300, 301), 40)))):
        if d == 1:
            continue
        name = rng.choice(brs)
        lab = rng.choice(["L", "lab.el", "1$", "7", "23$"])
        k = rng.choice([0, 0, 2, -2, 4])
        ref = lab if k == 0 else "%s%s%s" % (lab, "+" if k > 0 else "-", num(abs(k), rng))
        if lab[0].isdigit() and k != 0:
            ref = lab + ":" + ("+" if k > 0 else "-") + num(abs(k), rng) if lab.isdigit() else ref
        dd = d - k     # where the label itself sits relative to the branch
        if dd == 1:
            continue
        if dd >= 2:
            text = "%s %s\n.blkb %d.\n%s:\n" % (name, ref, dd - 2, lab)
            emit = 0o1000
        elif dd == 0:
            text = "%s: %s %s\n" % (lab, name, ref)
            emit = 0o1000
        else:
            text = "%s: .blkb %d.\n%s %s\n" % (lab, -dd, name, ref)
            emit = 0o1000 - dd
        r = impl.asm1(text)
        shapes += 1
        ctx.case(("label", name, d, lab, k))
        off = d - 2
        reach = -256 <= off <= 254 and off % 2 == 0
        if reach:
            if r.outcome != "ok":
                ctx.violation("a label inside the reach was rejected", {"source": text}, expected="accepted", observed=r.summary())
            else:
                o = emit - 0o1000
                w = r.code[o] | (r.code[o + 1] << 8)
                pending_ea.append(("br", emit, w, emit + d, text))
        elif r.outcome == "ok":
            ctx.violation("an out-of-reach label was assembled", {"source": text}, expected="an error", observed=r.summary())
    ctx.count("placed-label-shapes", shapes)

    # ------------------------------------------------------------------ PC-relative operands
    rel_pending = []

    def on_rel(c):
        ctx.case((c.name, c.emit, tuple(c.ops)))
        i = c.impl
        if i["outcome"] != "ok":
            ctx.violation("a PC-relative operand was rejected", {"source": c.src, "address": c.emit}, expected="assembled", observed=i)
            return
        # locate every extension word and the target it must reach
        classes = stub_classes_of(c.name)
        idx = 1
        for cls, op in zip(classes, c.ops):
            if cls in ("registerMode", "fp11rm") and op[0] in ("X", "Y", "Z", "#", "A", "V", "W"):
                if op[0] in ("V", "W"):
                    rel_pending.append((c.emit + 2 * idx, i["words"][idx], op[1], c.src, c.emit))
                idx += 1

    targets = [0, 2, 0o776, 0o1000, 0o1002, 0o1004, 0o177776, 0o177777, 65536, 65538, 70000, -2, -1, 0o100000, 0o77776, 1]
    targets += [rng.randrange(0, 65536) for _ in range(48 if not ctx.thorough else 400)]
    templates = [
        ("clr", lambda T: [T]), ("tst", lambda T: [T]), ("jmp", lambda T: [T]),
        ("mov", lambda T: [T, ("R", ("n", 0))]), ("mov", lambda T: [("R", ("n", 1)), T]),
        ("mov", lambda T: [("#", 5), T]), ("mov", lambda T: [("X", 6, ("n", 2)), T]), ("mov", lambda T: [("A", 0o100), T]),
        ("cmp", lambda T: [T, T]), ("add", lambda T: [T, ("W", T[1] + 2)]),
        ("jsr", lambda T: [("R", ("n", 7)), T]), ("mul", lambda T: [T, ("R", ("n", 3))]),
        ("ldf", lambda T: [T, ("C", 1)]), ("stf", lambda T: [("C", 2), T]), ("cmpf", lambda T: [T, ("C", 0)]), ("clrf", lambda T: [T]),
        ("ldexp", lambda T: [T, ("C", 3)]), ("stexp", lambda T: [("C", 0), T]), ("push", lambda T: [T]), ("call", lambda T: [T]),
    ]
    for base in (0o1000, 0o177700, 0):
        cases = []
        syms = {}
        for t in targets:
            for name, mk in templates:
                for defer in (False, True):
                    T = ("W" if defer else "V", t)
                    ops = mk(T)

                    def build(emit, ops=ops, name=name):
                        parts = []
                        for op in ops:
                            if op[0] in ("V", "W"):
                                v = op[1]
                                syms[v] = True
                                txt = "S%s" % str(v).replace("-", "m")
                                if v == emit and rng.random() < 0.5:
                                    txt = "."
                                elif rng.random() < 0.25 and abs(v - emit) < 30000:
                                    # the target written relative to the statement: '.' is the address of the instruction in
                                    # every operand, whatever stood before it
                                    dd = v - emit
                                    txt = ". + %s" % num(dd, rng) if dd >= 0 else ". - %s" % num(-dd, rng)
                                parts.append(("@" if op[0] == "W" else "") + txt)
                            else:
                                from .insnrun import render_operand
                                parts.append(render_operand(op, rng))
                        return ops, "%s %s" % (name, ", ".join(parts))
                    cases.append(InsnCase(name, build=build))
                    ctx.count("relative-operand-cases")
        def prelude_r(lines):
            names = sorted({m for ln in lines for m in re.findall(r"\bS(m?\d+)", ln)})
            out = []
            for nm in names:
                v = -int(nm[1:]) if nm.startswith("m") else int(nm)
                out.append("S%s = %s\n" % (nm, ("-%d." % -v) if v < 0 else ("%d." % v)))
            return "".join(out)
        run_cases(ctx, cases, stub_classes_of, base=base, prelude=prelude_r, batch=250, on_result=on_rel)

    # ------------------------------------------------------------------ Spec effective addresses (Lean)
    reqs = ["ea %s %d %d" % (k, a, w) for k, a, w, _, _ in pending_ea] + ["ea rel %d %d" % (xa, x) for xa, x, _, _, _ in rel_pending]
    answers = ctx.driver.ask(reqs)
    for (k, a, w, t, src), ans in zip(pending_ea, answers[:len(pending_ea)]):
        if int(ans) != t:
            ctx.violation("the processor would branch to a different address than the source names",
                          {"source": src, "address": a, "word": w}, expected=t, observed=int(ans))
    for (xa, x, t, src, emit), ans in zip(rel_pending, answers[len(pending_ea):]):
        if int(ans) != t % 65536:
            ctx.violation("a PC-relative operand addresses a different location than the source names",
                          {"source": src, "address": emit, "ext_word_address": xa, "word": x}, expected=t % 65536, observed=int(ans))
    ctx.extra["spec_ea_checks"] = len(reqs)

    # ---- targets that are labels: in the same file, in other linked files, in including and included files
    from . import worlds
    worlds.stream_reach(ctx, ctx.rng("c04-worlds"), 1500 if ctx.thorough else 300, impl)


def search(ctx, broken):
    if not ctx.thorough:
        ctx.thorough = True
        run(ctx)


def replay(ctx, path):
    with open(path, encoding="utf-8") as f:
        rep = json.load(f)
    v = rep.get("violation")
    if not v:
        print("replay file names a broken obligation, no failing input: re-run ./check C04")
        return 0
    inp = v["input"]
    src = inp["source"]
    if "address" in inp and not src.startswith(".link") and "\n" not in src.strip():
        def prelude(lines):
            out = ["T%s = %s.\n" % (m, m) for ln in lines for m in re.findall(r"\bT(\d+)", ln)]
            out += ["S%s = %s.\n" % (m, m.replace("m", "-")) for ln in lines for m in re.findall(r"\bS(m?\d+)", ln)]
            return "".join(out)
        r, per, stray = run_program(prelude, [src], inp["address"])
    else:
        r = impl.asm1(src)
    print(src, r.summary())
    return 0
