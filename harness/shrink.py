"""Delta debugging on the lines of a multi-file program: keep removing lines while the
predicate (still failing in the same way) holds."""


def shrink_lines(files, still_fails, max_rounds=6):
    """files: [(path, text)]; still_fails(files) -> bool.  Returns the reduced files."""
    cur = [(p, t.split("\n")) for p, t in files]

    def build(c):
        return [(p, "\n".join(ls)) for p, ls in c]
    for _ in range(max_rounds):
        changed = False
        for fi in range(len(cur)):
            n = len(cur[fi][1])
            chunk = max(n // 2, 1)
            while chunk >= 1:
                i = 0
                while i < len(cur[fi][1]):
                    trial = [(p, list(ls)) for p, ls in cur]
                    del trial[fi][1][i:i + chunk]
                    try:
                        ok = still_fails(build(trial))
                    except Exception:  # pylint: disable=broad-except
                        ok = False
                    if ok:
                        cur = trial
                        changed = True
                    else:
                        i += chunk
                chunk //= 2
        if not changed:
            break
    return build(cur)
