"""C05 expression values: random expression trees printed with only the brackets C-like
precedence requires (and every bracket style / literal spelling), evaluated by the real
assembler, by the Lean model (`expr`: the model's own parser + evaluator) and by the
independent Lean Spec evaluator (`tree`) on the generator's tree."""
import json

from . import impl
from .common import nl, parse_kv
from .insnrun import num

# the documented operator table (C-like; lower binds tighter), NOT read from /repo
INFIX = {"*": 3, "/": 3, "%": 3, "+": 4, "-": 4, "<<": 5, ">>": 5, "_": 5, "&": 8, "^": 9, "|": 10, "!": 10}
PREFIX = ["+", "-", "~", "^c"]


def gen_tree(rng, depth, syms):
    if depth == 0 or rng.random() < 0.25:
        k = rng.random()
        if k < 0.55:
            v = rng.choice([0, 1, 2, 3, 7, 8, 10, 255, 256, 0o177777, 65536, 1 << 31, (1 << 40) + 5, rng.randrange(0, 100000), rng.randrange(0, 20)])
            if rng.random() < 0.25:
                v = -v
            return ("lit", v)
        if k < 0.85 and syms:
            return ("sym", rng.choice(sorted(syms)))
        if k < 0.92:
            return ("dot",)
        if k < 0.96:
            return ("chr", rng.choice(["'a", "'Z", "\"ab", "'0", "\"z "]))
        return ("r50", rng.choice(["A", "AB", "ABC", "Z9$", "a1"]))
    if rng.random() < 0.2:
        return ("un", rng.choice(PREFIX), gen_tree(rng, depth - 1, syms))
    op = rng.choice(list(INFIX))
    left = gen_tree(rng, depth - 1, syms)
    if op in ("<<", ">>", "_"):
        right = ("lit", rng.choice([0, 1, 2, 3, 8, 15, 16, 20, -1, -3]) if rng.random() < 0.8 else rng.randrange(-4, 30))
    elif op in ("/", "%") and rng.random() < 0.85:
        d = rng.choice([1, 2, 3, 7, 8, 10, 256, -1, -2, -7, 1000])
        right = ("lit", d)
    else:
        right = gen_tree(rng, depth - 1, syms)
    return ("bin", op, left, right)


def chr_value(txt):
    s = txt[1:]
    b = s.encode("ascii")[:2].ljust(2, b"\x00")
    return b[0] | (b[1] << 8)


R50 = " ABCDEFGHIJKLMNOPQRSTUVWXYZ$.%0123456789"


def r50_value(s):
    s = s.upper().ljust(3)
    return (R50.index(s[0]) * 40 + R50.index(s[1])) * 40 + R50.index(s[2])


def to_prefix(t, env, dot):
    """the tree in the Spec evaluator's prefix form, leaves as integers"""
    k = t[0]
    if k == "lit":
        return ["L%d" % t[1]]
    if k == "sym":
        return ["L%d" % env[t[1]]]
    if k == "dot":
        return ["L%d" % dot]
    if k == "chr":
        return ["L%d" % chr_value(t[1])]
    if k == "r50":
        return ["L%d" % r50_value(t[1])]
    if k == "un":
        return ["U" + t[1]] + to_prefix(t[2], env, dot)
    return ["B" + t[1]] + to_prefix(t[2], env, dot) + to_prefix(t[3], env, dot)


def bracket(s, rng):
    style = rng.choice(["()", "<>", "^/", "^?", "^:", "()"])
    if style == "()":
        return "(" + s + ")"
    if style == "<>":
        # '>>' would be read as the shift operator: keep consecutive closing brackets apart
        return "<" + s + (" >" if s.endswith(">") else ">")
    c = style[1]
    if c in s:
        return "(" + s + ")"
    return "^" + c + s + c


def render(t, rng, parent_prec=99, side="l", start=True):
    """source text with exactly the brackets C-like precedence and left associativity need
    (plus occasional redundant ones).  Grammar G admits prefix operators only where a
    (sub)expression starts, so a unary node anywhere else is bracketed."""
    k = t[0]
    force = False
    if k == "lit":
        v = t[1]
        s = num(v, rng, chars=False)
        if v < 0 and parent_prec < 99 and rng.random() < 0.5:
            s = bracket(s, rng)
        out, prec = s, 0
    elif k == "sym":
        name = t[1]
        out, prec = (name.upper() if rng.random() < 0.3 else name), 0
    elif k == "dot":
        out, prec = ".", 0
    elif k == "chr":
        out, prec = t[1], 0
        if parent_prec < 99:
            out = bracket(out, rng)     # a character literal swallows what follows it
    elif k == "r50":
        out, prec = "^R" + t[1], 0
        if parent_prec < 99:
            out = bracket(out, rng)
    elif k == "un":
        if not start:
            out = bracket(render(t, rng, 99, "l", True), rng)
            return out
        inner = render(t[2], rng, 2, "r", True)
        op = t[1] if rng.random() < 0.7 else t[1].upper()
        sep = " " if rng.random() < 0.3 else ""
        out, prec = op + sep + inner, 2
        if inner.startswith(op[-1]) and op in "+-":
            out = op + " " + inner
    else:
        p = INFIX[t[1]]
        left = render(t[2], rng, p, "l", start)
        right = render(t[3], rng, p, "r", False)
        sp1 = " " * rng.randint(1, 2)
        sp2 = " " * rng.randint(1, 2)
        out, prec = left + sp1 + t[1] + sp2 + right, p
    need = prec > parent_prec or (prec == parent_prec and side == "r" and prec > 2)
    if need or (prec > 0 and rng.random() < 0.08):
        out = bracket(out, rng)
    return out


def run(ctx):
    impl.load()
    rng = ctx.rng("c05")
    ctx.rule = ("random expression trees to depth 6 over the 12 infix and 4 prefix operators, leaves = integer literals in every "
                "spelling, constant symbols defined before or after the use (one from a label that comes later), labels, '.', character and ^R literals; printed with "
                "exactly the brackets C-like precedence needs in the styles ( ) < > ^x..x; value read from the symbol table (unbounded). "
                "distinct = distinct source lines; non-trivial = at least one operator")
    n = 6000 if ctx.thorough else 1500
    cases = []
    for i in range(n):
        depth = rng.choice([1, 2, 2, 3, 3, 4, 5, 6])
        # a third of the programs has no '.link': addresses stay symbolic in the (default) base until the
        # end, so the same expressions run through the polynomial arithmetic of the lazy engine
        nolink = rng.random() < 0.33
        base = 0o1000 if nolink else 0o2000
        # symbols: constants before / after, a label before (address-valued) and after, and a constant
        # defined before the use from a label that only comes later
        k_fl = rng.randrange(1, 9)
        env = {"ca": rng.randrange(-50, 1000), "cb": rng.choice([3, 8, 0o177777, -2]), "late": rng.randrange(1, 5000), "lbl": base + 4, "after": base + 12,
               "fl": base + 12 + k_fl}
        syms = set(env) if rng.random() < 0.8 else set()
        tree = gen_tree(rng, depth, syms)
        text = render(tree, rng)
        pre = "ca = %s\ncb = %s\n.word 0, 0\nlbl: .word 0, 0\n" % (num(env["ca"], rng), num(env["cb"], rng))
        # statement sits at base + 8; it emits nothing (an assignment), `after` follows 4 bytes later. 'fl' is
        # defined right after 'res' (so that 'res' is the first to evaluate it) from the label that follows
        # half of the programs also use the value in code (at the very end, so that no address moves): the
        # engine then evaluates it while the image is computed, not in the final pass over the symbols
        used = ".word 177777 & res\n" if rng.random() < 0.5 else ""
        src = "%s%sres = %s\nfl = after + %d.\n.word 0, 0\nafter: .word 0\nlate = %d.\n%s" % ("" if nolink else ".link %d.\n" % base, pre, text, k_fl, env["late"], used)
        dot = base + 8
        ctx.count("no-link programs" if nolink else "link-first programs")
        cases.append((tree, text, src, env, dot))
    reqs = []
    for tree, text, src, env, dot in cases:
        reqs.append("expr bk %d %s %s" % (dot, ",".join("%s:%d" % kv for kv in sorted(env.items())), nl(map(ord, text))))
        reqs.append("tree " + " ".join(to_prefix(tree, env, dot)))
    answers = ctx.driver.ask(reqs)
    for i, (tree, text, src, env, dot) in enumerate(cases):
        m_ans, s_ans = answers[2 * i], answers[2 * i + 1]
        r = impl.assemble([("/t/main.mac", src)], want_symbols=True)
        got = None
        if r.outcome == "ok":
            got = r.symbols.get(".internal1.res")
        errs = r.error_ids()
        ctx.case(text, nontrivial=tree[0] in ("un", "bin"))
        ctx.count("depth-%d" % depth_of(tree))
        ctx.sample({"expression": text, "model": m_ans, "spec": s_ans, "impl": {"outcome": r.outcome, "value": got, "errors": errs}})
        inp = {"expression": text, "source": src}
        # ---- model (its own parser + evaluator) vs implementation
        m = m_ans.split()
        md = parse_kv(" ".join(m[1:])) if len(m) > 1 else {}
        m_errs = sorted(set(x for x in md.get("e", "-").split(",") if x != "-"))
        if m[0] == "ok" and not m_errs:
            good = r.outcome == "ok" and got == int(md["v"])
        elif m[0] in ("ok", "abort"):
            good = r.outcome == "failed" and errs == m_errs
        else:
            good = False
        if not good:
            ctx.disagree("expression value", inp, m_ans, {"outcome": r.outcome, "value": got, "errors": errs, "exc": r.exc})
        # ---- the property: the independent evaluator on the generator's tree
        s = s_ans.split()
        if s[0] == "ok":
            if r.outcome != "ok" or got != int(s[1]):
                ctx.violation("the expression does not evaluate to the integer the documented arithmetic gives", inp,
                              expected=int(s[1]), observed={"outcome": r.outcome, "value": got, "errors": errs})
        elif s[0] == "error":
            if r.outcome == "ok":
                ctx.violation("division by zero / a negative shift count was given a value silently", inp,
                              expected=s_ans, observed={"value": got})
            elif "arithmetic-error" not in errs:
                ctx.violation("an arithmetic error was not reported as such", inp, expected="arithmetic-error", observed=errs)
        ctx.count("spec-" + s[0])
    # ---- the same expressions inside a '.repeat' block: one statement evaluated once per pass, '.' different in every
    # pass, symbols of the statement defined before and after it (so some passes are evaluated again at the end)
    rcases, rreqs = [], []
    for i in range(1500 if ctx.thorough else 350):
        depth = rng.choice([1, 2, 2, 3, 3, 4])
        nolink = rng.random() < 0.33
        base = 0o1000 if nolink else 0o2000
        passes = rng.randint(2, 5)
        k_fl = rng.randrange(1, 9)
        after = base + 8 + 2 * passes + 4
        env = {"ca": rng.randrange(-50, 1000), "cb": rng.choice([3, 8, 0o177777, -2]), "late": rng.randrange(1, 5000), "lbl": base + 4, "after": after,
               "fl": after + k_fl}
        tree = gen_tree(rng, depth, set(env))
        # make sure '.', an operator whose value is cached per statement (/ % << >>) and a later symbol take part in most
        # of them (small right operands: shift counts stay sane)
        if rng.random() < 0.7:
            dotpart = ("bin", rng.choice(["-", "+"]), ("dot",), ("sym", "lbl")) if rng.random() < 0.7 else ("dot",)
            impure = ("bin", rng.choice(["/", "%", "<<", ">>", "*", "&"]), dotpart, ("lit", rng.choice([1, 2, 3, 4, 7])))
            rest = ("sym", rng.choice(["late", "after", "fl"])) if rng.random() < 0.7 else tree
            tree = ("bin", rng.choice(["+", "-", "+"]), impure, rest)
        try:
            text = render(tree, rng)
        except Exception:  # noqa: BLE001 - a leaf kind the renderer does not know in this position
            continue
        pre = "ca = %s\ncb = %s\n.word 0, 0\nlbl: .word 0, 0\n" % (num(env["ca"], rng), num(env["cb"], rng))
        src = "%s%s.repeat %d {\n.word 177777 & (%s)\n}\nfl = after + %d.\n.word 0, 0\nafter: .word 0\nlate = %d.\n" % (
            "" if nolink else ".link %d.\n" % base, pre, passes, text, k_fl, env["late"])
        dots = [base + 8 + 2 * k for k in range(passes)]
        rcases.append((tree, text, src, env, dots, base))
        for d in dots:
            rreqs.append("tree " + " ".join(to_prefix(tree, env, d)))
    ranswers = ctx.driver.ask(rreqs)
    pos = 0
    for tree, text, src, env, dots, base in rcases:
        specs = [a.split() for a in ranswers[pos:pos + len(dots)]]
        pos += len(dots)
        r = impl.assemble([("/t/main.mac", src)])
        inp = {"expression": text, "source": src}
        ctx.case(("repeat", src), nontrivial=True)
        ctx.count("expressions in a repeat block")
        if any(sp[0] not in ("ok", "error") for sp in specs):
            continue
        if any(sp[0] == "error" for sp in specs):
            if r.outcome == "ok":
                ctx.violation("division by zero / a negative shift count in a '.repeat' pass was given a value silently", inp, expected="an error", observed=r.summary())
            continue
        want = b"".join((int(sp[1]) & 0xFFFF).to_bytes(2, "little") for sp in specs)
        o = 8
        got = r.code[o:o + len(want)] if r.outcome == "ok" else None
        if r.outcome != "ok" or got != want:
            ctx.violation("an expression in a '.repeat' block does not evaluate, pass by pass, to the integer the documented arithmetic gives", inp,
                          expected=want.hex(), observed=got.hex() if got is not None else r.summary())
    # ---- chains of infix operators without brackets: the tree the real parser builds against the total
    # Lean model of the precedence loop (Model.Shunt: flatten_shunt, shunt_normal, normal_unique)
    chain_ops = ["*", "/", "%", "+", "-", "<<", ">>", "_", "&", "^", "|", "!"]

    def py_tree(node):
        name = type(node).__name__
        if hasattr(node, "lhs") and hasattr(node, "rhs"):
            return "(%s %s %s)" % (py_tree(node.lhs), name, py_tree(node.rhs))
        return str(node.value)
    creqs, cjobs = [], []
    for _ in range(1500 if ctx.thorough else 400):
        k = rng.randint(1, 8)
        atoms = [rng.randrange(1, 200) for _ in range(k + 1)]
        ops = [rng.choice(chain_ops) for _ in range(k)]
        text = "%d." % atoms[0] + "".join(" %s %d." % (o, a) for o, a in zip(ops, atoms[1:]))
        r = impl.assemble([("/t/chain.mac", "res = " + text + "\n")], parse_only=True)
        ctx.case("chain:" + text)
        ctx.count("operator chains")
        if r.outcome != "ok":
            ctx.disagree("operator chain does not parse", text, "a tree", r.summary())
            continue
        got = py_tree(r.compiler[0].body.insns[0].value)
        creqs.append("shunt %d %s" % (atoms[0], " ".join("%s %d" % (o, a) for o, a in zip(ops, atoms[1:]))))
        cjobs.append((text, got))
    for (text, got), a in zip(cjobs, ctx.driver.ask(creqs)):
        if a != got:
            ctx.disagree("Shunt.shunt (tree of the precedence loop)", text, a, got)
            # C-like reading violated? evaluate both readings: if the values differ the oracle above would
            # also see it on its own inputs; here the replay is the tree itself
            ctx.violation("an unbracketed operator chain is not grouped by precedence and left associativity", {"expression": text},
                          expected=a, observed=got)
    # ---- the same with prefix operators in front of the first operand (a symbol, so that the sign is not part of a
    # number): Model.ShuntP (prefix_binds_tightest)
    def py_tree_p(node):
        name = type(node).__name__
        if hasattr(node, "lhs") and hasattr(node, "rhs"):
            return "(%s %s %s)" % (py_tree_p(node.lhs), name, py_tree_p(node.rhs))
        if hasattr(node, "operand"):
            return "(%s %s)" % (name, py_tree_p(node.operand))
        if hasattr(node, "value"):
            return str(node.value)
        return str(getattr(node, "name", node))[1:]
    preqs, pjobs = [], []
    for _ in range(1200 if ctx.thorough else 300):
        k = rng.randint(0, 6)
        npre = rng.randint(1, 4)
        pres = [rng.choice(["+", "-", "~", "^c", "^C"]) for _ in range(npre)]
        atoms = [rng.randrange(1, 200) for _ in range(k + 1)]
        ops = [rng.choice(chain_ops) for _ in range(k)]
        sep = lambda: rng.choice(["", " ", "\t"])
        text = "".join(p + sep() for p in pres) + "s%d" % atoms[0] + "".join(" %s %d." % (o, a) for o, a in zip(ops, atoms[1:]))
        r = impl.assemble([("/t/chain.mac", "res = " + text + "\n")], parse_only=True)
        ctx.case("pchain:" + text)
        ctx.count("operator chains with leading prefix operators")
        if r.outcome != "ok":
            ctx.disagree("operator chain with prefix operators does not parse", text, "a tree", r.summary())
            continue
        got = py_tree_p(r.compiler[0].body.insns[0].value)
        preqs.append("shuntp %s | %d %s" % (" ".join(p.lower() for p in pres), atoms[0], " ".join("%s %d" % (o, a) for o, a in zip(ops, atoms[1:]))))
        pjobs.append((text, got))
    for (text, got), a in zip(pjobs, ctx.driver.ask(preqs)):
        if a != got:
            ctx.disagree("ShuntP.shuntP (tree of the precedence loop with prefix operators)", text, a, got)
            ctx.violation("prefix operators do not bind tighter than the infix operators that follow", {"expression": text}, expected=a, observed=got)
    # ---- shift counts at the limit of what is taken for a sane count (operators.MAX_SHIFT, regenerated as Gen.maxShift):
    # up to and including the limit the documented arithmetic, beyond it an error
    MAXS = int(impl.mod("operators").MAX_SHIFT)
    for a in (1, 123, -5, 0, 1 << 40):
        for op in ("<<", ">>", "_"):
            for c in (MAXS - 1, MAXS, MAXS + 1, -(MAXS - 1), -MAXS, -(MAXS + 1), 0, 1, -1):
                if op in ("<<", ">>") and c < 0:
                    want = None
                elif abs(c) > MAXS:
                    want = None
                elif op == "<<" or (op == "_" and c >= 0):
                    want = a * (1 << c)
                elif op == ">>":
                    want = a >> c
                else:
                    want = a >> (-c)
                src = "a9 = %s\nres = a9 %s %s\n.word 0\n" % (("%d." % a) if a >= 0 else ("0 - %d." % -a), op, ("%d." % c) if c >= 0 else ("(0 - %d.)" % -c))
                r = impl.assemble([("/t/main.mac", src)], want_symbols=True)
                got = r.symbols.get(".internal1.res") if r.outcome == "ok" else None
                ctx.case(("shift-limit", a, op, c))
                ctx.count("shift counts at the limit")
                if want is None:
                    if r.outcome == "ok":
                        ctx.violation("a negative or absurd shift count was given a value silently", {"source": src}, expected="an error", observed=str(got)[:60])
                elif r.outcome != "ok" or got != want:
                    ctx.violation("a shift by a count up to the limit does not give the documented value", {"source": src},
                                  expected=("%d" % want)[:40] + ("… (%d bits)" % want.bit_length() if want.bit_length() > 120 else ""),
                                  observed={"outcome": r.outcome, "errors": r.error_ids(), "value": (str(got)[:40] if got is not None else None)})
    # ---- literals: every radix spelling, the 8/9 rule
    lit_cases = []
    for v in [0, 1, 7, 8, 9, 10, 63, 64, 255, 0o777, 0o1000, 65535, 65536, 123456789]:
        for sp in ["%o" % v, "%d." % v, "0x%x" % v, "0X%X" % v, "0o%o" % v, "0b%s" % bin(v)[2:], "^X%x" % v, "^O%o" % v, "^B%s" % bin(v)[2:], "^D%d" % v,
                   "^x%X" % v, "^d%d" % v, "-%o" % v, "-%d." % v]:
            lit_cases.append((sp, -v if sp.startswith("-") else v, None))
    for sp in ["8", "9", "18", "79", "108", "-8", "-19"]:
        lit_cases.append((sp, None, "invalid-number"))
    lreqs = ["expr bk 0 - " + nl(map(ord, sp)) for sp, _, _ in lit_cases]
    lans = ctx.driver.ask(lreqs)
    for (sp, v, err), a in zip(lit_cases, lans):
        r = impl.assemble([("/t/main.mac", "res = %s\n" % sp)], want_symbols=True)
        got = r.symbols.get(".internal1.res") if r.outcome == "ok" else None
        ctx.case("lit:" + sp)
        ctx.count("literal-spellings")
        md = parse_kv(" ".join(a.split()[1:]))
        m_errs = sorted(set(x for x in md.get("e", "-").split(",") if x != "-"))
        if (not m_errs and (r.outcome != "ok" or got != int(md.get("v", "0")))) or (m_errs and (r.outcome != "failed" or r.error_ids() != m_errs)):
            ctx.disagree("literal", sp, a, {"outcome": r.outcome, "value": got, "errors": r.error_ids()})
        if err is None and (r.outcome != "ok" or got != v):
            ctx.violation("a literal is not read in the radix its spelling states", {"expression": sp, "source": "res = %s\n" % sp}, expected=v, observed={"outcome": r.outcome, "value": got})
        if err is not None and (r.outcome == "ok" or err not in r.error_ids()):
            ctx.violation("a bare digit string containing 8 or 9 was accepted", {"expression": sp, "source": "res = %s\n" % sp}, expected=err, observed={"outcome": r.outcome, "value": got})


def depth_of(t):
    if t[0] == "un":
        return 1 + depth_of(t[2])
    if t[0] == "bin":
        return 1 + max(depth_of(t[2]), depth_of(t[3]))
    return 0


def search(ctx, broken):
    if not ctx.thorough:
        ctx.thorough = True
        run(ctx)


def replay(ctx, path):
    with open(path, encoding="utf-8") as f:
        rep = json.load(f)
    v = rep.get("violation")
    if not v:
        print("replay file names a broken obligation, no failing input: re-run ./check C05")
        return 0
    r = impl.assemble([("/t/main.mac", v["input"]["source"])], want_symbols=True)
    print(v["input"]["source"])
    print(r.summary(), r.symbols.get(".internal1.res"))
    return 0
