"""C11 symbol scoping and linking: "scope worlds" of 1-3 linked files with include trees
(depth <= 3), every unit drawing its ordinary names from one small pool (so names are
reused as private symbols of several files), numeric local labels reused in every scope,
all export forms ('::', '==', '.extern a, b' before or after the definition, '.extern all'),
references in every order relative to definition and export, respelled in another case.
Every statement that emits has a fixed size, so the generator itself computes, from the
rules of the property alone, which definition each reference must bind to, the complete
expected image, and the expected errors; the real assembler is compared against that and
against the whole-program Lean model (whose name handling is Model.Scope, the subject of
the C11 theorems)."""
import json
import os
import re

from . import impl, asmrun

ORD_POOL = ["val", "tmp", "cnt", "Foo", "x.y", "buf$", "go", "k9"]
LOC_POOL = ["1", "2", "10", "1$", "2$", "77$"]
# many scopes, names whose digits run into the scope counter if the separator were lost: scope 1 + "12$" / scope 11 + "2$"
LOC_POOL_DIGITS = ["1", "2", "11", "12", "21", "22", "111", "1$", "2$", "11$", "12$", "21$", "112$"]


class Unit:
    def __init__(self, idx, name, main, depth):
        self.idx, self.name, self.main, self.depth = idx, name, main, depth
        self.lines = []
        self.own = {}          # lower name -> "label" | "const"   (planned)
        self.style_all = False
        self.children = []


def respell(name, rng):
    k = rng.random()
    if k < 0.6:
        return name
    if k < 0.8:
        return name.upper()
    if k < 0.9:
        return name.lower()
    return name.capitalize()


def local_ref(name, rng):
    if name.isdigit():
        return name + ":"
    return name + (":" if rng.random() < 0.3 else "")


class World:
    def __init__(self, rng):
        self.rng = rng
        self.units = []
        self.mains = []
        self.marker = 0o10000
        self.fault = None
        self.forms = set()

    def next_marker(self):
        self.marker += 0o13
        return self.marker

    # ------------------------------------------------------------------ build
    def build(self):
        rng = self.rng
        nmain = rng.choice([1, 2, 2, 3])
        for i in range(nmain):
            u = Unit(len(self.units), "f%d.mac" % i, True, 0)
            self.units.append(u)
            self.mains.append(u)
        for j in range(rng.choice([0, 0, 1, 1, 2, 3])):
            parents = [u for u in self.units if u.depth < 3]
            p = rng.choice(parents)
            u = Unit(len(self.units), "i%d.mac" % j, False, p.depth + 1)
            self.units.append(u)
            p.children.append(u)
        # ---- symbol plan: who defines what, who exports what
        exported = {}        # lower -> unit
        self.many = rng.random() < 0.25
        self.loc_pool = LOC_POOL_DIGITS if self.many else LOC_POOL
        for u in self.units:
            for nm in rng.sample(ORD_POOL, rng.randint(5, 8) if self.many else rng.randint(1, 4)):
                u.own[nm.lower()] = (nm, rng.choice(["label", "label", "const"]))
        order = list(self.units)
        rng.shuffle(order)
        self.export_form = {}     # (unit idx, lower) -> form
        for u in order:
            free = [l for l in u.own if l not in exported]
            if len(free) == len(u.own) and rng.random() < 0.2:
                u.style_all = True
                for l in u.own:
                    exported[l] = u
                    self.export_form[(u.idx, l)] = "all"
                continue
            for l in free:
                if rng.random() < 0.5:
                    exported[l] = u
                    self.export_form[(u.idx, l)] = rng.choice(["inline", "inline", "extern-before", "extern-after"])
        self.exported = exported
        for u in self.units:
            self.build_unit(u)
        return self

    def visible_ord(self, u):
        """(spelling, kind) of every ordinary name a reference in u may use"""
        out = [(nm, k) for (nm, k) in u.own.values()]
        for l, eu in self.exported.items():
            if l not in u.own:
                out.append(eu.own[l])
        return out

    def build_unit(self, u):
        rng = self.rng
        lines = []
        labels = [(nm, k) for (nm, k) in u.own.values() if k == "label"]
        consts = [(nm, k) for (nm, k) in u.own.values() if k == "const"]
        rng.shuffle(labels)
        vis = self.visible_ord(u)
        vis_labels = [nm for nm, k in vis if k == "label"]
        nscopes = len(labels) + 1
        for s in range(nscopes):
            if s > 0:
                nm = labels[s - 1][0]
                form = self.export_form.get((u.idx, nm.lower()))
                lines.append(("olabel", nm, form == "inline"))
            body = []
            locs = rng.sample(self.loc_pool, rng.choice([0, 1, 1, 2, 3]) if not self.many else rng.choice([1, 2, 3, 4]))
            for ln in locs:
                body.append(("llabel", ln))
                for _ in range(rng.randint(1, 2)):
                    body.append(("ref", ln, local_ref(ln, rng), rng.random() < 0.2))
            for _ in range(rng.randint(0, 3)):
                if vis:
                    nm = rng.choice(vis)[0]
                    body.append(("ref", nm, respell(nm, rng), rng.random() < 0.2))
            if rng.random() < 0.5:
                body.append(("mark", self.next_marker()))
            if rng.random() < 0.25:
                # a block inside the scope (it opens a scope of its own and closes it again)
                body.append(("rep", rng.randint(0, 3), self.next_marker()))
            rng.shuffle(body)
            lines += body
        # constants anywhere (a constant does not end a local scope)
        for nm, _k in consts:
            form = self.export_form.get((u.idx, nm.lower()))
            if vis_labels and rng.random() < 0.4:
                e = ("sym", rng.choice(vis_labels), rng.randrange(0, 9))
            else:
                e = ("lit", self.next_marker())
            lines.insert(rng.randrange(len(lines) + 1), ("const", nm, e, form == "inline"))
        # .extern lines
        bef = [u.own[l][0] for (i, l), f in self.export_form.items() if i == u.idx and f == "extern-before"]
        aft = [u.own[l][0] for (i, l), f in self.export_form.items() if i == u.idx and f == "extern-after"]

        def def_index(nm):
            for i, ln in enumerate(lines):
                if ln[0] in ("olabel", "const") and ln[1].lower() == nm.lower():
                    return i
            return 0
        for nm in aft:
            lines.insert(rng.randrange(def_index(nm) + 1, len(lines) + 1), ("extern", [respell(nm, rng)]))
        if bef:
            if len(bef) > 1 and rng.random() < 0.5:
                lines.insert(rng.randrange(min(def_index(n) for n in bef) + 1), ("extern", [respell(n, rng) for n in bef]))
            else:
                for nm in bef:
                    lines.insert(rng.randrange(def_index(nm) + 1), ("extern", [respell(nm, rng)]))
        if u.style_all:
            lines.insert(rng.randrange(len(lines) + 1), ("extern_all", rng.choice(["all", "ALL", "All"])))
        for c in u.children:
            lines.insert(rng.randrange(len(lines) + 1), ("include", c.idx))
        u.lines = lines

    # ------------------------------------------------------------------ faults
    def scopes_of(self, u):
        """[(start index, end index)] of the local scopes of u.lines"""
        cuts = [0] + [i + 1 for i, ln in enumerate(u.lines) if ln[0] == "olabel"] + [len(u.lines) + 1]
        return [(cuts[i], cuts[i + 1] - 1 if i + 2 < len(cuts) else len(u.lines)) for i in range(len(cuts) - 1)]

    def inject(self):
        rng = self.rng
        kind = rng.choice(["inv-local", "inv-private", "dup-ord", "dup-local", "dup-export", "dup-export-all", "ghost-export", "undefined", "inc-private"])
        u = rng.choice(self.units)
        if kind == "inv-local":
            sc = self.scopes_of(u)
            a, b = rng.choice(sc)
            here = {ln[1] for ln in u.lines[a:b] if ln[0] == "llabel"}
            elsewhere = [ln[1] for v in self.units for ln in v.lines if ln[0] == "llabel" and ln[1] not in here]
            nm = rng.choice(elsewhere) if elsewhere else "9$"
            u.lines.insert(rng.randrange(a, b + 1), ("ref", nm, local_ref(nm, rng), False))
        elif kind in ("inv-private", "inc-private"):
            cands = []
            for v in self.units:
                if v is u:
                    continue
                if kind == "inc-private" and not (v in u.children or u in v.children):
                    continue
                for l, (nm, _k) in v.own.items():
                    if l not in self.exported and l not in u.own:
                        cands.append(nm)
            if not cands:
                others = [v for v in self.units if v is not u]
                if not others:
                    kind = "undefined"
                    u.lines.append(("ref", "nowhere", "nowhere", False))
                    self.fault = kind
                    return
                v = rng.choice(others)
                v.lines.append(("const", "hid", ("lit", self.next_marker()), False))
                cands = ["hid"]
            nm = rng.choice(cands)
            u.lines.insert(rng.randrange(len(u.lines) + 1), ("ref", nm, respell(nm, rng), False))
        elif kind == "dup-ord":
            nm, _k = rng.choice(list(u.own.values()))
            sp = respell(nm, rng)
            ln = ("olabel", sp, False) if rng.random() < 0.5 else ("const", sp, ("lit", self.next_marker()), False)
            u.lines.insert(rng.randrange(len(u.lines) + 1), ln)
        elif kind == "dup-local":
            sc = [(a, b) for a, b in self.scopes_of(u) if any(ln[0] == "llabel" for ln in u.lines[a:b])]
            if not sc:
                u.lines.append(("llabel", "5$"))
                u.lines.append(("llabel", "5$"))
            else:
                a, b = rng.choice(sc)
                nm = rng.choice([ln[1] for ln in u.lines[a:b] if ln[0] == "llabel"])
                u.lines.insert(rng.randrange(a, b + 1), ("llabel", nm))
        elif kind == "dup-export":
            if not self.exported or len(self.units) < 2:
                kind = "undefined"
                u.lines.append(("ref", "nowhere", "nowhere", False))
            else:
                l, eu = rng.choice(sorted(self.exported.items(), key=lambda kv: kv[0]))
                v = rng.choice([w for w in self.units if w is not eu])
                nm = eu.own[l][0]
                if l in v.own:
                    v.lines.insert(rng.randrange(len(v.lines) + 1), ("extern", [respell(nm, rng)]))
                elif rng.random() < 0.5:
                    v.lines.append(("olabel", nm, True))
                else:
                    v.lines.append(("const", nm, ("lit", self.next_marker()), True))
        elif kind == "dup-export-all":
            # a unit that exports nothing so far defines a name another unit exports, and then says '.extern all'
            # (before or after that definition, in either link order)
            quiet = [w for w in self.units if not any(i == w.idx for (i, _l) in self.export_form) and not w.style_all]
            cands = [(l, eu, w) for l, eu in sorted(self.exported.items(), key=lambda kv: kv[0]) for w in quiet if w is not eu]
            if not cands:
                kind = "undefined"
                u.lines.append(("ref", "nowhere", "nowhere", False))
            else:
                l, eu, w = rng.choice(cands)
                nm = eu.own[l][0]
                if l not in w.own and not any(ln[0] in ("olabel", "const") and ln[1].lower() == l for ln in w.lines):
                    w.lines.insert(rng.randrange(len(w.lines) + 1), rng.choice([("olabel", nm, False), ("const", nm, ("lit", self.next_marker()), False)]))
                w.lines.insert(rng.randrange(len(w.lines) + 1), ("extern_all", rng.choice(["all", "ALL"])))
        elif kind == "ghost-export":
            u.lines.insert(rng.randrange(len(u.lines) + 1), ("extern", ["ghost"]))
            v = rng.choice(self.units)
            v.lines.insert(rng.randrange(len(v.lines) + 1), ("ref", "ghost", "Ghost", False))
        else:
            u.lines.insert(rng.randrange(len(u.lines) + 1), ("ref", "nowhere", "nowhere", False))
        self.fault = kind

    # ------------------------------------------------------------------ text
    def text_of(self, u, base=None):
        out = []
        if base is not None:
            out.append(".link %o" % base)
        pending = None
        for ln in u.lines:
            k = ln[0]
            if k == "olabel":
                t = ln[1] + ("::" if ln[2] else ":")
                self.forms.add("label::" if ln[2] else "label:")
            elif k == "llabel":
                t = ln[1] + ":"
            elif k == "const":
                e = ln[2]
                rhs = "%o" % e[1] if e[0] == "lit" else "%s + %o" % (e[1], e[2])
                t = "%s %s %s" % (ln[1], "==" if ln[3] else "=", rhs)
                self.forms.add("const==" if ln[3] else "const=")
            elif k == "extern":
                t = ".extern " + ", ".join(ln[1])
                self.forms.add(".extern")
            elif k == "extern_all":
                t = ".extern " + ln[1]
                self.forms.add(".extern all")
            elif k == "ref":
                t = ("mov #%s, r0" % ln[2]) if ln[3] else (".word " + ln[2])
            elif k == "mark":
                t = ".word %o" % ln[1]
            elif k == "rep":
                t = ".repeat %d. { .word %o }" % (ln[1], ln[2])
                self.forms.add("repeat block")
            elif k == "include":
                t = '.include "%s"' % self.units[ln[1]].name
                self.forms.add("include")
            else:
                raise ValueError(k)
            if pending is not None:
                t = pending + " " + t
                pending = None
            if k in ("olabel", "llabel") and self.rng.random() < 0.25:
                pending = t
                continue
            out.append(t)
        if pending is not None:
            out.append(pending)
        return "\n".join(out) + "\n"

    # ------------------------------------------------------------------ the rules of the property
    def evaluate(self, base):
        """-> (errors: set of ids, image or None, judged: bool, bindings)"""
        errors = set()
        judged = [True]
        own = {u.idx: {} for u in self.units}       # lower -> ("label", addr) | ("const", expr, unit)
        locs = {}                                   # (scope id, name) -> addr
        exports = {}                                # lower -> unit idx
        refs = []                                   # (addr, unit, scope, name, is_mov)
        out = []                                    # ("w", value) | ("ref", index)
        counter = {"addr": base, "scope": 0}

        def declare(l, ui):
            if l in exports:
                errors.add("duplicate-symbol")
                if exports[l] == ui:
                    judged[0] = False       # the same file exporting its symbol twice: not a second definition
            else:
                exports[l] = ui

        def walk(u):
            counter["scope"] += 1
            scope = counter["scope"]
            all_on = False
            for ln in u.lines:
                k = ln[0]
                if k == "olabel":
                    l = ln[1].lower()
                    if l in own[u.idx]:
                        errors.add("duplicate-symbol")
                        continue
                    own[u.idx][l] = ("label", counter["addr"])
                    if ln[2]:
                        declare(l, u.idx)
                    if all_on:
                        declare(l, u.idx)
                    counter["scope"] += 1
                    scope = counter["scope"]
                elif k == "llabel":
                    key = (scope, ln[1].lower())
                    if key in locs:
                        errors.add("duplicate-symbol")
                    else:
                        locs[key] = counter["addr"]
                elif k == "const":
                    l = ln[1].lower()
                    if l in own[u.idx]:
                        errors.add("duplicate-symbol")
                        continue
                    own[u.idx][l] = ("const", ln[2], u.idx)
                    if ln[3]:
                        declare(l, u.idx)
                    if all_on:
                        declare(l, u.idx)
                elif k == "extern":
                    for nm in ln[1]:
                        declare(nm.lower(), u.idx)
                elif k == "extern_all":
                    for l in list(own[u.idx]):
                        declare(l, u.idx)
                    all_on = True
                elif k == "ref":
                    if ln[3]:
                        out.append(("w", 0o012700))
                        counter["addr"] += 2
                    refs.append((counter["addr"], u.idx, scope, ln[1]))
                    out.append(("ref", len(refs) - 1))
                    counter["addr"] += 2
                elif k == "mark":
                    out.append(("w", ln[1]))
                    counter["addr"] += 2
                elif k == "rep":
                    for _ in range(ln[1]):
                        out.append(("w", ln[2]))
                        counter["addr"] += 2
                elif k == "include":
                    walk(self.units[ln[1]])
        for u in self.mains:
            walk(u)

        visiting = set()

        def value(d):
            if d[0] == "label":
                return d[1]
            e = d[1]
            if e[0] == "lit":
                return e[1]
            key = id(d)
            if key in visiting:
                judged[0] = False
                return None
            visiting.add(key)
            v = lookup(e[1], d[2], None)
            visiting.discard(key)
            return None if v is None else v + e[2]

        def lookup(name, ui, scope):
            l = name.lower()
            if l[0].isdigit():
                if (scope, l) in locs:
                    return locs[(scope, l)]
                errors.add("undefined-symbol")
                return None
            if l in own[ui]:
                return value(own[ui][l])
            if l in exports and l in own[exports[l]]:
                return value(own[exports[l]][l])
            errors.add("undefined-symbol")
            return None
        bound = [lookup(nm, ui, sc) for (_a, ui, sc, nm) in refs]
        for ui in own:
            for d in own[ui].values():
                value(d)
        if errors:
            return errors, None, judged[0], bound
        image = bytearray()
        for kind, v in out:
            w = v if kind == "w" else bound[v]
            if not -32768 <= w < 65536:
                return errors, None, False, bound
            image += (w & 0xffff).to_bytes(2, "little")
        return errors, bytes(image), judged[0], bound


def gen_world(rng, negative):
    w = World(rng).build()
    if negative:
        w.inject()
    return w


def run(ctx):
    impl.load()
    rng = ctx.rng("c11")
    ctx.rule = ("'scope worlds': 1-3 linked files with include trees of depth <= 3; every unit takes 1-4 ordinary names (labels or "
                "constants) from one pool of 8, so the same name is private to several files; 0-3 numeric local labels from a pool of 6 in "
                "every scope, so local names are reused in every scope; exported names use '::', '==', '.extern a, b' before or after "
                "the definition, or '.extern all' placed anywhere; references ('.word x' / 'mov #x, r0', respelled in another case) and '.repeat' blocks "
                "stand before and after the definitions, exports and includes; constants may be 'label + k' evaluated in the defining "
                "file. 35% of the worlds get one injected fault (invisible local, another file's private name, a second definition, a "
                "duplicate local, a second export, an export of nothing, an undefined name). The generator computes the binding of every "
                "reference and the image from the rules of the property. distinct = distinct program texts; non-trivial = at least one "
                "name defined in two units or one local name defined in two scopes. Further families: one file compiled twice; one name exported by two different files (4 export forms x 4 x 5 places of the second file, with and without a third file that uses the name)")
    n = 2500 if ctx.thorough else 500
    reqs, jobs = [], []
    for it in range(n):
        negative = rng.random() < 0.35
        w = gen_world(rng, negative)
        base = rng.choice([None, 0o1000, 0o2000, 0o40000])
        d = impl.scratch_dir()
        try:
            files = [(os.path.join(d, u.name), w.text_of(u, base if u is w.mains[0] else None)) for u in w.units]
            nmain = len(w.mains)
            for p, t in files[nmain:]:
                with open(p, "w", encoding="utf-8") as f:
                    f.write(t)
            errors, image, judged, bound = w.evaluate(0o1000 if base is None else base)
            r = impl.assemble(files[:nmain], want_symbols=False)
            ikeys = sorted(k.lower() for k in r.compiler.symbols) if r.outcome == "ok" and hasattr(r.compiler, "symbols") else None
            inp = {"files": [(os.path.basename(p), t) for p, t in files], "nmain": nmain, "fault": w.fault}
            names = {}
            for u in w.units:
                for l in {ln[1].lower() for ln in u.lines if ln[0] in ("olabel", "const")}:
                    names[l] = names.get(l, 0) + 1
            nloc = sum(1 for u in w.units for ln in u.lines if ln[0] == "llabel")
            nlocnames = len({ln[1] for u in w.units for ln in u.lines if ln[0] == "llabel"})
            reuse = any(c > 1 for c in names.values()) or nloc > nlocnames
            ctx.case(json.dumps(inp["files"]), nontrivial=reuse)
            ctx.count("units-%d" % len(w.units))
            ctx.count("depth-%d" % max(u.depth for u in w.units))
            ctx.count("fault-%s" % (w.fault or "none"))
            ctx.count("references", len(bound))
            for f in w.forms:
                ctx.count("form " + f)
            if any(c > 1 for c in names.values()):
                ctx.count("worlds with a name defined in several units")
            if nloc > nlocnames:
                ctx.count("worlds with a local name in several scopes")
            ctx.count("expected-" + ("errors" if errors else "image"))
            if it < 40:
                ctx.sample({"files": inp["files"], "fault": w.fault, "expected_errors": sorted(errors), "impl": r.summary()})
            if r.outcome in ("crash", "hang"):
                ctx.violation("a scope world ended in " + r.outcome, inp, expected="an image or reported errors", observed=r.exc)
                continue
            if judged:
                if errors:
                    got = set(r.error_ids())
                    if r.outcome == "ok":
                        ctx.violation("an invisible name or a second definition was bound silently", inp, expected=sorted(errors), observed=r.summary())
                    elif not errors <= got:
                        ctx.violation("the expected scoping error was not reported", inp, expected=sorted(errors), observed=r.summary())
                    elif got - errors:
                        ctx.count("extra error ids: " + ",".join(sorted(got - errors)))
                else:
                    if r.outcome != "ok":
                        ctx.violation("a visible name was not bound", inp, expected="image " + image.hex(), observed=r.summary())
                    elif r.base != (0o1000 if base is None else base) or r.code != image:
                        ctx.violation("a reference is bound to the wrong definition", inp, expected=image.hex(), observed=r.code.hex())
            else:
                ctx.count("not judged by the rules (same-file double export / constant cycle)")
            mfiles = [("/w/" + os.path.basename(p), t) for p, t in files]
            reqs.append(asmrun.asm_request(mfiles, nmain))
            jobs.append((inp, files, r, ikeys))
            if w.many:
                ctx.count("worlds with many scopes and multi-digit local names")
        finally:
            impl.drop_scratch(d)
    # ---- one file compiled twice (included along two paths, linked twice, included in a '.repeat' of two): a name it exports
    # is then defined twice - an error; a name it keeps private is defined once per copy, each copy bound to its own
    srng = ctx.rng("c11-twice")
    for _ in range(200 if ctx.thorough else 60):
        exported = srng.random() < 0.6
        nm = srng.choice(["counter", "Tbl", "v$1", "k.k"])
        val = srng.randrange(1, 200)
        kind = srng.choice(["label", "const", "extern-before", "extern-after", "extern-all"]) if exported else srng.choice(["plabel", "pconst"])
        lib = {"label": "%s:: .word %d.\n" % (nm, val), "const": "%s == %d.\n.word %s\n" % (nm, val, nm),
               "extern-before": ".extern %s\n%s: .word %d.\n" % (nm, nm, val), "extern-after": "%s: .word %d.\n.extern %s\n" % (nm, val, nm),
               "extern-all": "%s: .word %d.\n.extern all\n" % (nm, val),
               "plabel": "%s: .word %d., %s\n" % (nm, val, nm), "pconst": "%s = %d.\n.word %s, %s\n" % (nm, val, nm, nm.upper() if srng.random() < 0.3 else nm)}[kind]
        shape = srng.choice(["diamond", "diamond", "linked-twice", "repeat", "twice-in-a-row"])
        use = (".word %s\n" % nm) if exported and srng.random() < 0.7 else "nop\n"
        d = impl.scratch_dir()
        try:
            lp = os.path.join(d, "lib.mac")
            with open(lp, "w", encoding="utf-8") as f:
                f.write(lib)
            extra = []
            if shape == "diamond":
                with open(os.path.join(d, "drv.mac"), "w", encoding="utf-8") as f:
                    f.write("nop\n.include \"lib.mac\"\n")
                extra = [("drv.mac", "nop\n.include \"lib.mac\"\n")]
                order = [".include \"lib.mac\"\n", ".include \"drv.mac\"\n"]
                srng.shuffle(order)
                main = ".link 1000\n" + order[0] + use + order[1]
                mains = [(os.path.join(d, "main.mac"), main)]
            elif shape == "linked-twice":
                mains = [(os.path.join(d, "main.mac"), ".link 1000\n" + use), (lp, lib), (lp, lib)]
            elif shape == "repeat":
                mains = [(os.path.join(d, "main.mac"), ".link 1000\n" + use + ".repeat 2 {\n.include \"lib.mac\"\n}\n")]
            else:
                mains = [(os.path.join(d, "main.mac"), ".link 1000\n.include \"lib.mac\"\n" + use + ".include \"lib.mac\"\n")]
            r = impl.assemble(mains)
            inp = {"files": [(os.path.basename(p), t) for p, t in mains] + ([("lib.mac", lib)] if shape != "linked-twice" else []) + extra, "nmain": len(mains),
                   "shape": shape, "definition": kind}
            ctx.case(("twice", json.dumps(inp["files"])))
            ctx.count("one file compiled twice: %s, %s" % (shape, "exported name" if exported else "private name"))
            if r.outcome in ("crash", "hang"):
                ctx.violation("a program that compiles one file twice ended in " + r.outcome, inp, expected="an image or reported errors", observed=r.exc)
            elif exported and r.outcome == "ok":
                ctx.violation("a name exported by a file that is compiled twice is defined twice, and no error was reported", inp,
                              expected="a duplicate-definition error", observed=r.summary())
            elif not exported:
                ref = val.to_bytes(2, "little")
                copy = ref * (3 if kind == "pconst" else 1)
                words_ = None
                if kind == "plabel":
                    words_ = "label"
                if r.outcome != "ok":
                    ctx.violation("a file with private names only cannot be compiled twice", inp, expected="an image", observed=r.summary())
                elif kind == "pconst" and r.code.count(ref) < 4:
                    ctx.violation("the copies of a private constant are not each bound to their own definition", inp, expected="the value in every copy",
                                  observed=r.code.hex())
                elif kind == "plabel":
                    # every copy is '<val>, <own address>'
                    idx = [i for i in range(0, len(r.code) - 3, 2) if r.code[i:i + 2] == ref and int.from_bytes(r.code[i + 2:i + 4], "little") == r.base + i]
                    if len(idx) < 2:
                        ctx.violation("the copies of a private label are not each bound to their own definition", inp, expected="two self-referring copies",
                                      observed=r.code.hex())
        finally:
            impl.drop_scratch(d)

    # ---- one name exported by two different files: every export form x every export form x where the second file comes in
    # (linked before / after, included before the export, between a leading '.extern' and the definition it announces, after
    # the definition) x a third file that uses the name: always a second definition of a visible name, never a silent binding
    xrng = ctx.rng("c11-two-exports")
    def export_text(kind, nm, val, middle=""):
        return {"label": middle + "%s:: .word %d.\n" % (nm, val), "const": middle + "%s == %d.\n.word %s\n" % (nm, val, nm),
                "extern-before": ".extern %s\n%s%s: .word %d.\n" % (nm, middle, nm, val),
                "extern-after": "%s: .word %d.\n%s.extern %s\n" % (nm, val, middle, nm)}[kind]
    kinds = ["label", "const", "extern-before", "extern-after"]
    places = ["linked-after", "linked-before", "include-top", "include-middle", "include-end"]
    combos = [(k1, k2, pl) for k1 in kinds for k2 in kinds for pl in places]
    if not ctx.thorough:
        combos = [c for c in combos if c[2] == "include-middle"] + xrng.sample([c for c in combos if c[2] != "include-middle"], 24)
    for k1, k2, place in combos:
        nm = xrng.choice(["X", "shared", "Tbl", "v$1", "k.k"])
        v1, v2 = xrng.sample(range(1, 200), 2)
        filler = xrng.choice(["", "nop\n", "1$: sob r0, 1$\n", "own: .word own\n"])
        inc = ".include \"b.mac\"\n"
        btext = filler + export_text(k2, nm, v2)
        if place == "include-top":
            atext = inc + export_text(k1, nm, v1)
        elif place == "include-middle":
            atext = export_text(k1, nm, v1, middle=inc)
        elif place == "include-end":
            atext = export_text(k1, nm, v1) + inc
        else:
            atext = export_text(k1, nm, v1)
        user = xrng.choice([None, ".word %s\n" % nm, "mov #%s, r0\n" % nm.lower()])
        d = impl.scratch_dir()
        try:
            ap, bp, up = os.path.join(d, "a.mac"), os.path.join(d, "b.mac"), os.path.join(d, "user.mac")
            with open(bp, "w", encoding="utf-8") as f:
                f.write(btext)
            mains = [(ap, ".link 1000\n" + atext)]
            if place == "linked-after":
                mains.append((bp, btext))
            elif place == "linked-before":
                mains = [(bp, ".link 1000\n" + btext), (ap, atext)]
            if user is not None:
                mains.insert(xrng.randrange(len(mains) + 1) if place.startswith("include") else len(mains), (up, user))
                if not mains[0][1].startswith(".link"):
                    mains[0] = (mains[0][0], ".link 1000\n" + mains[0][1])
            r = impl.assemble(mains)
            inp = {"files": [(os.path.basename(p_), t) for p_, t in mains] + ([("b.mac", btext)] if place.startswith("include") else []), "nmain": len(mains),
                   "first export": k1, "second export": k2, "place": place}
            ctx.case(("two-exports", json.dumps(inp["files"])))
            ctx.count("one name exported by two files: " + place)
            allf = list(mains) + ([(bp, btext)] if place.startswith("include") else [])
            reqs.append(asmrun.asm_request([("/w/" + os.path.basename(p_), t) for p_, t in allf], len(mains)))
            jobs.append((inp, allf, r, None))
            if r.outcome in ("crash", "hang"):
                ctx.violation("a program in which two files export one name ended in " + r.outcome, inp, expected="a duplicate-definition error", observed=r.exc)
            elif r.outcome == "ok" or "duplicate-symbol" not in r.error_ids():
                ctx.violation("one name is exported by two files and no second-definition error was reported (a reference binds silently to one of them)", inp,
                              expected="duplicate-symbol", observed=r.summary())
        finally:
            impl.drop_scratch(d)

    for (inp, files, r, ikeys), a in zip(jobs, ctx.driver.ask(reqs)):
        m = asmrun.parse_answer(a)
        if m["outcome"] == "unsupported":
            ctx.count("model: unsupported")
            continue
        problems = []
        if m["outcome"] == "ok":
            if r.outcome != "ok" or r.base != m["base"] or r.code != m["code"]:
                problems.append("image/base")
        elif m["outcome"] == "failed":
            if r.outcome != "failed":
                problems.append("outcome")
        else:
            problems.append("model " + m["outcome"])
        idg = asmrun.impl_diags(r, files)
        aborted = "aborted" in m.get("note", "") or "critical" in m.get("note", "")
        if not aborted and idg != m["diags"]:
            problems.append("diagnostics")
        # the keys of the symbol table: '.internal<k>.<name>' exactly as Model.Scope qualifies them; '.local<k>.<name>' up to
        # the numbering of the scopes (the code numbers a '.repeat' pass when it gets to evaluate it)
        if m["outcome"] == "ok" and ikeys is not None:
            def norm(keys):
                out = []
                for k in keys:
                    mm = re.match(r"^\.local(\d+)\.(.+)$", k)
                    out.append(".local#." + mm.group(2) if mm else k)
                return sorted(out)
            malformed = [k for k in ikeys if not re.match(r"^\.(local|internal)[1-9]\d*\.[^.].*$", k)]
            if malformed or norm(ikeys) != norm(k.lower() for k in m["keys"]):
                problems.append("symbol-table keys (impl %s)" % (malformed or norm(ikeys))[:12])
                ctx.count("key-format-problems")
        if problems:
            ctx.disagree("whole-program model (scoping): " + ", ".join(problems), inp,
                         {"outcome": m["outcome"], "base": m["base"], "code": m["code"].hex(), "diags": m["diags"][:8], "note": m.get("note")},
                         dict(r.summary(), diags=idg[:8]) if isinstance(r.summary(), dict) else [r.summary(), idg[:8]])


def search(ctx, broken):
    if not ctx.thorough:
        ctx.thorough = True
        run(ctx)


def replay(ctx, path):
    with open(path, encoding="utf-8") as f:
        rep = json.load(f)
    print(json.dumps(rep.get("violation") or rep, indent=1, ensure_ascii=False)[:6000])
    v = rep.get("violation") or {}
    inp = v.get("input")
    if inp and "files" in inp:
        impl.load()
        d = impl.scratch_dir()
        try:
            files = [(os.path.join(d, p), t) for p, t in inp["files"]]
            for p, t in files[inp["nmain"]:]:
                with open(p, "w", encoding="utf-8") as f:
                    f.write(t)
            r = impl.assemble(files[:inp["nmain"]])
            print("replayed on the current tree:", r.summary())
        finally:
            impl.drop_scratch(d)
    return 0
