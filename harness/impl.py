"""In-process access to the implementation under test (/repo's working tree,
hooks on), with a watchdog and canonical results."""
import atexit
import os
import shutil
import signal
import sys
import tempfile

from .common import REPO, Infra

os.environ["PDPY11_VERIF"] = "1"
sys.dont_write_bytecode = True
if REPO not in sys.path:
    sys.path.insert(0, REPO)

_mods = {}


def load(fresh=False):
    """import (or re-import from scratch) the pdpy11 modules of REPO"""
    if fresh or not _mods:
        for name in [m for m in sys.modules if m == "pdpy11" or m.startswith("pdpy11.")]:
            del sys.modules[name]
        import importlib
        for name in ("bk_encoding", "parser", "compiler", "reports", "deferred", "types", "operators", "insns",
                     "metacommands", "metacommand_impl", "formats", "bk_wav", "radix50", "devices", "context", "_cli", "containers"):
            _mods[name] = importlib.import_module("pdpy11." + name)
        top = os.path.abspath(os.path.dirname(_mods["parser"].__file__))
        if top != os.path.abspath(os.path.join(REPO, "pdpy11")):
            raise Infra("pdpy11 imported from %s, not from %s" % (top, REPO))
    return _mods


def mod(name):
    return load()[name]


class Hang(BaseException):
    pass


_alarm_fired = [False]


def _alarm(_sig, _frm):
    # the exception may land inside a context manager's __enter__/__exit__ and be replaced by a
    # secondary exception (e.g. the stack assertion of Awaiting): remember that the alarm fired
    _alarm_fired[0] = True
    raise Hang()


class watchdog:
    def __init__(self, seconds):
        self.seconds = seconds

    def __enter__(self):
        _alarm_fired[0] = False
        self.old = signal.signal(signal.SIGALRM, _alarm)
        signal.setitimer(signal.ITIMER_REAL, self.seconds)
        return self

    def __exit__(self, *a):
        signal.setitimer(signal.ITIMER_REAL, 0)
        signal.signal(signal.SIGALRM, self.old)
        return False


_scratch = []


def scratch_dir():
    d = tempfile.mkdtemp(prefix="pdpy11v-")
    _scratch.append(d)
    return d


def drop_scratch(d):
    shutil.rmtree(d, ignore_errors=True)
    if d in _scratch:
        _scratch.remove(d)


@atexit.register
def _cleanup():
    for d in list(_scratch):
        shutil.rmtree(d, ignore_errors=True)


class Result:
    __slots__ = ("outcome", "base", "code", "diags", "exc", "symbols", "trace", "emitted", "compiler", "lengths", "where")

    def __init__(self):
        self.outcome = None     # ok | failed | crash | hang
        self.base = None
        self.code = None
        self.diags = []         # [(severity, identifier, [(file, start, end, text)])]
        self.exc = None
        self.where = None
        self.symbols = {}
        self.trace = None
        self.emitted = []
        self.compiler = None

    def errors(self):
        return [d for d in self.diags if d[0] in ("error", "critical")]

    def warnings(self):
        return [d for d in self.diags if d[0] == "warning"]

    def error_ids(self):
        return sorted({d[1] for d in self.errors()})

    def summary(self):
        return {"outcome": self.outcome, "base": self.base, "code": None if self.code is None else self.code.hex(),
                "errors": [(d[1], [(p[0], p[1], p[2]) for p in d[2]]) for d in self.errors()][:8],
                "exc": self.exc}


def crash_site(ex):
    """innermost frame inside /repo of an exception: 'file.py:function'"""
    import traceback
    site = "?"
    for fr in traceback.extract_tb(ex.__traceback__):
        if os.path.abspath(fr.filename).startswith(REPO):
            site = "%s:%s" % (os.path.basename(fr.filename), fr.name)
    return site


def assemble(sources, charset="bk", timeout=10.0, want_symbols=False, parse_only=False):
    """sources: [(filename, text)] parsed and linked in order.  Files referenced by
    `.include` / `insert_file` must exist on disk (caller's scratch directory)."""
    m = load()
    reports = m["reports"]
    res = Result()

    def handler(priority, identifier, *reps):
        sev = "warning" if priority is reports.warning else ("critical" if priority is reports.critical else "error")
        locs = []
        for rep in reps:
            try:
                cs, ce, text = rep
                locs.append((cs.filename, cs.pos, ce.pos, text))
            except Exception:  # pylint: disable=broad-except
                locs.append((None, None, None, repr(rep)))
        res.diags.append((sev, identifier, locs))

    try:
        with watchdog(timeout):
            try:
                with reports.handle_reports(handler):
                    parsed = [m["parser"].parse(fn, text) for fn, text in sources]
                    if parse_only:
                        res.outcome = "ok"
                        res.compiler = parsed
                        return res
                    comp = m["compiler"].Compiler(output_charset=charset)
                    res.compiler = comp
                    base, code = comp.compile_and_link_files(parsed)
                res.outcome = "ok"
                res.base = base
                res.code = bytes(code)
                res.emitted = list(comp.emitted_files)
                res.trace = getattr(comp, "verif_trace", None)
                if want_symbols:
                    for name, (_tok, value) in comp.symbols.items():
                        res.symbols[name] = m["deferred"].wait(value)
            except reports.UnrecoverableError:
                res.outcome = "failed"
            except RecursionError as ex:
                res.outcome = "crash"
                res.exc = ("RecursionError", str(ex)[:200])
            except Exception as ex:  # pylint: disable=broad-except
                res.outcome = "crash"
                res.exc = (type(ex).__name__, str(ex)[:300])
                res.where = crash_site(ex)
    except Hang:
        res.outcome = "hang"
        _reset_module_state()
    if _alarm_fired[0] and res.outcome != "hang":
        res.outcome = "hang"
        res.exc = ("watchdog", "alarm fired; secondary exception %r" % (res.exc,))
        _reset_module_state()
    if res.outcome in ("crash",):
        _reset_module_state()
    return res


def _reset_module_state():
    """after a crash or a watchdog kill the module-level stacks may be dirty; start from
    fresh modules (C18 checks that state separately and does not use this)"""
    load(fresh=True)


def asm1(text, filename="/t/main.mac", **kw):
    return assemble([(filename, text)], **kw)


# --------------------------------------------------------------------------
# the command line, in-process

class CliResult:
    __slots__ = ("exit", "stdout", "stderr", "exc")

    def __init__(self):
        self.exit = None
        self.stdout = b""
        self.stderr = ""
        self.exc = None


def run_cli(argv, cwd=None, stdin_text="", timeout=20.0):
    """pdpy11._cli.main_cli() with the given arguments; returns exit status (0 when main_cli
    returns normally), captured stdout (bytes) and stderr (text)"""
    import io
    m = load()
    res = CliResult()
    old = (sys.argv, sys.stdout, sys.stderr, sys.stdin, os.getcwd())
    out_b = io.BytesIO()
    sys.stdout = io.TextIOWrapper(out_b, encoding="utf-8", errors="replace", write_through=True)
    sys.stderr = io.StringIO()
    sys.stdin = io.StringIO(stdin_text)
    sys.argv = ["pdpy11"] + list(argv)
    try:
        if cwd:
            os.chdir(cwd)
        try:
            with watchdog(timeout):
                m["_cli"].main_cli()
            res.exit = 0
        except SystemExit as ex:
            res.exit = ex.code if isinstance(ex.code, int) else (0 if ex.code is None else 1)
        except Hang:
            res.exit = "hang"
            _reset_module_state()
        except BaseException as ex:  # pylint: disable=broad-except
            res.exit = "exception"
            res.exc = (type(ex).__name__, str(ex)[:200])
    finally:
        try:
            sys.stdout.flush()
        except Exception:  # pylint: disable=broad-except
            pass
        res.stdout = out_b.getvalue()
        res.stderr = sys.stderr.getvalue()
        sys.argv, sys.stdout, sys.stderr, sys.stdin = old[:4]
        os.chdir(old[4])
    return res


def snapshot_dir(d):
    """{relative path: bytes} of every file under d"""
    out = {}
    for root, _dirs, files in os.walk(d):
        for fn in files:
            p = os.path.join(root, fn)
            with open(p, "rb") as f:
                out[os.path.relpath(p, d)] = f.read()
    return out
