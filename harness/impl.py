"""In-process access to the implementation under test (/repo's working tree,
hooks on), with a watchdog and canonical results."""
import atexit
import os
import shutil
import signal
import sys
import tempfile

from .common import REPO, Infra

os.environ["PDPY11_VERIF"] = "1"
sys.dont_write_bytecode = True
if REPO not in sys.path:
    sys.path.insert(0, REPO)

_mods = {}


def load(fresh=False):
    """import (or re-import from scratch) the pdpy11 modules of REPO"""
    if fresh or not _mods:
        for name in [m for m in sys.modules if m == "pdpy11" or m.startswith("pdpy11.")]:
            del sys.modules[name]
        import importlib
        for name in ("bk_encoding", "parser", "compiler", "reports", "deferred", "types", "operators", "insns",
                     "metacommands", "metacommand_impl", "formats", "bk_wav", "radix50", "devices", "context", "_cli", "containers"):
            _mods[name] = importlib.import_module("pdpy11." + name)
        top = os.path.abspath(os.path.dirname(_mods["parser"].__file__))
        if top != os.path.abspath(os.path.join(REPO, "pdpy11")):
            raise Infra("pdpy11 imported from %s, not from %s" % (top, REPO))
    return _mods


def mod(name):
    return load()[name]


class Hang(BaseException):
    pass


def _alarm(_sig, _frm):
    raise Hang()


class watchdog:
    def __init__(self, seconds):
        self.seconds = seconds

    def __enter__(self):
        self.old = signal.signal(signal.SIGALRM, _alarm)
        signal.setitimer(signal.ITIMER_REAL, self.seconds)
        return self

    def __exit__(self, *a):
        signal.setitimer(signal.ITIMER_REAL, 0)
        signal.signal(signal.SIGALRM, self.old)
        return False


_scratch = []


def scratch_dir():
    d = tempfile.mkdtemp(prefix="pdpy11v-")
    _scratch.append(d)
    return d


def drop_scratch(d):
    shutil.rmtree(d, ignore_errors=True)
    if d in _scratch:
        _scratch.remove(d)


@atexit.register
def _cleanup():
    for d in list(_scratch):
        shutil.rmtree(d, ignore_errors=True)


class Result:
    __slots__ = ("outcome", "base", "code", "diags", "exc", "symbols", "trace", "emitted", "compiler", "lengths")

    def __init__(self):
        self.outcome = None     # ok | failed | crash | hang
        self.base = None
        self.code = None
        self.diags = []         # [(severity, identifier, [(file, start, end, text)])]
        self.exc = None
        self.symbols = {}
        self.trace = None
        self.emitted = []
        self.compiler = None

    def errors(self):
        return [d for d in self.diags if d[0] in ("error", "critical")]

    def warnings(self):
        return [d for d in self.diags if d[0] == "warning"]

    def error_ids(self):
        return sorted({d[1] for d in self.errors()})

    def summary(self):
        return {"outcome": self.outcome, "base": self.base, "code": None if self.code is None else self.code.hex(),
                "errors": [(d[1], [(p[0], p[1], p[2]) for p in d[2]]) for d in self.errors()][:8],
                "exc": self.exc}


def assemble(sources, charset="bk", timeout=10.0, want_symbols=False, parse_only=False):
    """sources: [(filename, text)] parsed and linked in order.  Files referenced by
    `.include` / `insert_file` must exist on disk (caller's scratch directory)."""
    m = load()
    reports = m["reports"]
    res = Result()

    def handler(priority, identifier, *reps):
        sev = "warning" if priority is reports.warning else ("critical" if priority is reports.critical else "error")
        locs = []
        for rep in reps:
            try:
                cs, ce, text = rep
                locs.append((cs.filename, cs.pos, ce.pos, text))
            except Exception:  # pylint: disable=broad-except
                locs.append((None, None, None, repr(rep)))
        res.diags.append((sev, identifier, locs))

    try:
        with watchdog(timeout):
            try:
                with reports.handle_reports(handler):
                    parsed = [m["parser"].parse(fn, text) for fn, text in sources]
                    if parse_only:
                        res.outcome = "ok"
                        res.compiler = parsed
                        return res
                    comp = m["compiler"].Compiler(output_charset=charset)
                    res.compiler = comp
                    base, code = comp.compile_and_link_files(parsed)
                res.outcome = "ok"
                res.base = base
                res.code = bytes(code)
                res.emitted = list(comp.emitted_files)
                res.trace = getattr(comp, "verif_trace", None)
                if want_symbols:
                    for name, (_tok, value) in comp.symbols.items():
                        res.symbols[name] = m["deferred"].wait(value)
            except reports.UnrecoverableError:
                res.outcome = "failed"
            except RecursionError as ex:
                res.outcome = "crash"
                res.exc = ("RecursionError", str(ex)[:200])
            except Exception as ex:  # pylint: disable=broad-except
                res.outcome = "crash"
                res.exc = (type(ex).__name__, str(ex)[:300])
    except Hang:
        res.outcome = "hang"
        _reset_module_state()
    if res.outcome in ("crash",):
        _reset_module_state()
    return res


def _reset_module_state():
    """after a crash or a watchdog kill the module-level stacks may be dirty; start from
    fresh modules (C18 checks that state separately and does not use this)"""
    load(fresh=True)


def asm1(text, filename="/t/main.mac", **kw):
    return assemble([(filename, text)], **kw)
