"""C13 output containers: file_formats against the Lean model (`wavhash`, `bin`), the files
read back by the independent Lean readers (`wavread`), and every output selector / path
form through the real command line."""
import json
import os

from . import impl
from .common import nl, parse_kv, parse_nl


def rle(b):
    out = []
    i = 0
    n = len(b)
    while i < n:
        j = i
        while j < n and b[j] == b[i]:
            j += 1
        out.append("%d*%d" % (b[i], j - i) if j - i > 1 else "%d" % b[i])
        i = j
    return ",".join(out) if out else "-"


def poly_hash(b):
    h = 0
    for x in b:
        h = (h * 1000003 + x + 1) % 2305843009213693951
    return h


def eac(data):
    acc = 0
    for b in data:
        acc += b
        if acc >= 65536:
            acc -= 65535
    return acc


def images(ctx, rng):
    top = 4096 if ctx.thorough else 512
    out = [b"", b"\x00", b"\xff", bytes(range(256)), b"\xff" * 257, b"\xff" * 514, b"\xff" * 256 + b"\xfe\x01", b"\x00" * 300,
           b"\xff" * 257 + b"\x00" * 10]
    # byte sums at every boundary of the end-around carry: k*65535 + d and k*65536 + d (one fold, two
    # folds, a fold that carries again), built from 0xFF bytes and a remainder
    sums = set()
    for k in range(1, 16 if ctx.thorough else 4):
        for d in (-2, -1, 0, 1, 2):
            sums.add(k * 65535 + d)
            sums.add(k * 65536 + d)
        sums.add(k * 65536 + 65535 - k + 1)      # (S & 0xFFFF) + (S >> 16) = 0x10000 exactly
        sums.add(k * 65536 + 65535)
    for target in sorted(sums):
        body = bytearray(b"\xff" * (target // 255))
        if target % 255:
            body.append(target % 255)
        rng.shuffle(body)
        out.append(bytes(body))
    for _ in range(400 if ctx.thorough else 24):
        n = rng.choice([1, 2, 3, 7, 16, 20, 64, 255, 256, 257, rng.randrange(0, top + 1)])
        mode = rng.random()
        if mode < 0.5:
            out.append(bytes(rng.randrange(256) for _ in range(n)))
        elif mode < 0.75:
            out.append(bytes(rng.choice([0, 255, 0x55, 0xAA]) for _ in range(n)))
        else:
            # force the byte sum to a multiple of 65535 where possible
            body = bytearray(rng.randrange(256) for _ in range(max(n, 300)))
            deficit = (-sum(body)) % 65535
            while deficit:
                k = min(deficit, 255)
                body.append(k)
                deficit -= k
            out.append(bytes(body))
    return out


def run(ctx):
    impl.load()
    rng = ctx.rng("c13")
    ff = impl.mod("formats").file_formats
    ctx.rule = ("file_formats[raw|bin|bk_wav|bk_turbo_wav] on images of 0-512 (thorough: 0-4096) bytes incl. byte sums that are multiples of "
                "65535 and byte sums k*65535+d, k*65536+d, k*65536+65535 (k <= 3, thorough 15; d in -2..2: every boundary of the end-around carry), bases over the whole range, tape names 0-16 bytes; every CLI/directive output selector and path form through "
                "main_cli in a scratch directory. distinct = distinct (format, base, name, image); non-trivial = non-empty image or a path case")
    reqs = []
    jobs = []
    for img in images(ctx, rng):
        base = rng.choice([0, 0o1000, 0o177776, 0o100000, rng.randrange(65536)])
        name = bytes(rng.choice(b"ABCXYZ019 .$") for _ in range(rng.randint(0, 16)))
        name16 = name.ljust(16, b" ")
        # raw / bin
        got_raw = ff["raw"](base, img)
        if got_raw != img:
            ctx.violation("raw output differs from the image", {"base": base, "image": img.hex()}, expected=img.hex(), observed=got_raw.hex())
        got_bin = ff["bin"](base, img)
        reqs.append("bin %d %s" % (base, rle(img)))
        jobs.append(("bin", base, name16, img, got_bin))
        if got_bin != base.to_bytes(2, "little") + len(img).to_bytes(2, "little") + img:
            ctx.violation("bin output is not base, length, bytes", {"base": base, "image": img.hex()}, expected="<HH + image", observed=got_bin[:16].hex())
        for turbo in (0, 1):
            w = ff["bk_turbo_wav" if turbo else "bk_wav"](base, img, name16)
            reqs.append("wavhash %d %d %s %s" % (turbo, base, ",".join(map(str, name16)), rle(img)))
            jobs.append(("wav", turbo, base, name16, img, w))
            reqs.append("wavread %d %s" % (turbo, rle(w)))
            jobs.append(("read", turbo, base, name16, img, w))
        ctx.count("images")
    answers = ctx.driver.ask(reqs)
    for job, ans in zip(jobs, answers):
        kind = job[0]
        if kind == "bin":
            _, base, name16, img, got = job
            ctx.case(("bin", base, img), nontrivial=len(img) > 0)
            d = parse_kv(ans)
            if not ans.startswith("ok") or int(d["len"]) != len(got) or int(d["h"]) != poly_hash(got):
                ctx.disagree("bin container", {"base": base, "image": img.hex()[:80]}, ans, {"len": len(got), "h": poly_hash(got)})
        elif kind == "wav":
            _, turbo, base, name16, img, w = job
            ctx.case(("wav", turbo, base, name16, img), nontrivial=len(img) > 0)
            d = parse_kv(ans)
            if not ans.startswith("ok") or int(d["len"]) != len(w) or int(d["h"]) != poly_hash(w):
                ctx.disagree("WAV container", {"turbo": turbo, "base": base, "name": name16.hex(), "image": img.hex()[:80], "image_len": len(img)},
                             ans, {"len": len(w), "h": poly_hash(w)})
        else:
            _, turbo, base, name16, img, w = job
            d = parse_kv(ans)
            ctx.sample({"format": "turbo" if turbo else "normal", "base": base, "name": name16.decode(), "image_len": len(img),
                        "wav_len": len(w), "read_back": {k: d.get(k) for k in ("ch", "rate", "bits", "demod", "base", "len", "ck", "eac", "pilot")}})
            inp = {"turbo": turbo, "base": base, "name": name16.hex(), "image": img.hex() if len(img) <= 600 else img.hex()[:600] + "...", "image_len": len(img),
                   "image_sum": sum(img)}
            if not ans.startswith("riff") or d.get("ch") != "1" or d.get("bits") != "8":
                ctx.violation("the WAV file is not a well-formed 8-bit mono RIFF file", inp, expected="riff ch=1 bits=8", observed=ans[:200])
                continue
            if d.get("demod") != "ok":
                ctx.violation("the pulse train cannot be demodulated by BK-0010 tape rules", inp, expected="demodulated", observed=ans[:200])
                continue
            ok = (int(d["base"]) == base and int(d["len"]) == len(img) and bytes(parse_nl(d["name"])) == name16
                  and bytes(parse_nl(d["data"])) == img)
            if not ok:
                ctx.violation("the demodulated tape does not carry the header and bytes of the image", inp,
                              expected={"base": base, "len": len(img)}, observed=ans[:300])
            elif int(d["ck"]) != int(d["eac"]) or int(d["ck"]) != eac(img):
                ctx.violation("the checksum on the tape is not the BK end-around-carry sum of the bytes", inp,
                              expected=eac(img), observed=int(d["ck"]), finding_sig="wav-checksum-multiple-of-65535" if sum(img) and sum(img) % 65535 == 0 else None)
    run_paths(ctx, rng)


# ---------------------------------------------------------------------------------------------
SRC = "mov #1, r0\n.word 177777, 5\n.ascii /xyz/\n.even\n"


def expected_image():
    r = impl.asm1(SRC)
    return r.base, r.code


def run_paths(ctx, rng):
    """every output selector and path form through main_cli; the file must be at the path the
    option or directive names and decode to exactly the image"""
    base, code = expected_image()
    ff = impl.mod("formats").file_formats
    cases = []
    # (main file name, extra source lines, argv extras, {expected relative path: (format, tape name or None)})
    for main in ("prog.mac", "PROG.MAC", "noext", "dir/sub.mac", "a.b.mac"):
        stem = main[:-4] if main.lower().endswith(".mac") else main
        short = stem.split("/")[-1]
        cases += [
            (main, "", ["-o", "out.bin"], {"out.bin": ("bin", None)}),
            (main, "", ["-o", "OUT.BIN"], {"OUT.BIN": ("bin", None)}),
            (main, "", ["-o", "out.dat"], {"out.dat": ("raw", None)}),
            (main, "", ["-o", "outnoext"], {"outnoext": ("raw", None)}),
            (main, "", ["-o", "o/x.bin"], {"o/x.bin": ("bin", None)}),
            (main, "", ["--implicit-bin"], {stem + ".bin": ("bin", None)}),
            (main, "make_bin\n", [], {stem + ".bin": ("bin", None)}),
            (main, "make_raw\n", [], {stem: ("raw", None)}),
            (main, "make_bin 'named.bin'\n", [], {os.path.join(os.path.dirname(main), "named.bin"): ("bin", None)}),
            (main, "make_raw \"r/raw.out\"\n", [], {os.path.normpath(os.path.join(os.path.dirname(main), "r/raw.out")): ("raw", None)}),
            (main, "make_wav\n", [], {stem + ".wav": ("bk_wav", short)}),
            (main, "make_turbo_wav\n", [], {stem + ".wav": ("bk_turbo_wav", short)}),
            (main, "make_wav 'tape.wav'\n", [], {os.path.join(os.path.dirname(main), "tape.wav"): ("bk_wav", "tape")}),
            (main, "make_wav 'tape.wav', 'MYNAME'\n", [], {os.path.join(os.path.dirname(main), "tape.wav"): ("bk_wav", "MYNAME")}),
            (main, "make_turbo_wav 't2.WAV', '0123456789ABCDEF'\n", [], {os.path.join(os.path.dirname(main), "t2.WAV"): ("bk_turbo_wav", "0123456789ABCDEF")}),
            (main, "make_bin\nmake_wav 'w.wav'\n", ["-o", "also.bin"], {stem + ".bin": ("bin", None), os.path.join(os.path.dirname(main), "w.wav"): ("bk_wav", "w"), "also.bin": ("bin", None)}),
            # several directives of one format: every file carries its own name
            (main, "make_wav 'game.wav', 'GAME'\nmake_wav 'backup.wav', 'BACKUP'\n", [],
             {os.path.join(os.path.dirname(main), "game.wav"): ("bk_wav", "GAME"), os.path.join(os.path.dirname(main), "backup.wav"): ("bk_wav", "BACKUP")}),
            (main, "make_turbo_wav 'a1.wav'\nmake_turbo_wav 'b2.wav', 'SECOND'\nmake_wav 'c3.wav'\n", [],
             {os.path.join(os.path.dirname(main), "a1.wav"): ("bk_turbo_wav", "a1"), os.path.join(os.path.dirname(main), "b2.wav"): ("bk_turbo_wav", "SECOND"),
              os.path.join(os.path.dirname(main), "c3.wav"): ("bk_wav", "c3")}),
            (main, "make_bin 'one.bin'\nmake_bin 'two.bin'\nmake_raw 'three'\n", [],
             {os.path.join(os.path.dirname(main), "one.bin"): ("bin", None), os.path.join(os.path.dirname(main), "two.bin"): ("bin", None),
              os.path.join(os.path.dirname(main), "three"): ("raw", None)}),
        ]
    if not ctx.thorough:
        cases = [c for i, c in enumerate(cases) if i < 19 or rng.random() < 0.45]
    for main, extra, argv, expect in cases:
        d = impl.scratch_dir()
        try:
            for sub in ("dir", "o", "r", "dir/r"):
                os.makedirs(os.path.join(d, sub), exist_ok=True)
            # the load address the source states: the default, zero, small, near the top (the image does not depend on it)
            lb = rng.choice([None, None, 0, 0, 2, 0o177000, 0o100000])
            base = 0o1000 if lb is None else lb
            src_c = ("" if lb is None else rng.choice([".link %o\n" % lb, ". = %o\n" % lb])) + SRC
            ctx.count("path-cases linked at %s" % ("the default" if lb is None else "%o" % lb))
            with open(os.path.join(d, main), "w", encoding="utf-8") as f:
                f.write(src_c + extra)
            # what an earlier build left behind must not matter: some targets exist already, longer than the new contents
            # and beginning with them, equal to them, or holding something else
            stale = {}
            decoys = []
            for pth, (fmt0, tname0) in expect.items():
                how = rng.choice([None, None, "longer", "same", "junk"])
                if os.path.dirname(main) and os.path.normpath(pth).startswith(os.path.dirname(main) + os.sep) and rng.random() < 0.6:
                    # the source is in a subdirectory: a file of the same name in the working directory (and none yet beside the
                    # source) is another file - the directive's path is relative to the source file
                    dec = os.path.relpath(os.path.normpath(pth), os.path.dirname(main))
                    if dec not in [os.path.normpath(q) for q in expect] and not os.path.exists(os.path.join(d, dec)):
                        os.makedirs(os.path.dirname(os.path.join(d, dec)) or d, exist_ok=True)
                        with open(os.path.join(d, dec), "wb") as f:
                            f.write(b"another file of the same name")
                        decoys.append(dec)
                        ctx.count("targets with a namesake in the working directory")
                        continue
                if how is None:
                    continue
                if fmt0 == "raw":
                    cur = code
                elif fmt0 == "bin":
                    cur = base.to_bytes(2, "little") + len(code).to_bytes(2, "little") + code
                else:
                    cur = ff[fmt0](base, code, tname0.encode("bk").ljust(16, b" "))
                data0 = {"longer": cur + b"\x03\x00tail", "same": cur, "junk": b"old contents " * 3}[how]
                fp = os.path.join(d, os.path.normpath(pth))
                os.makedirs(os.path.dirname(fp), exist_ok=True)
                with open(fp, "wb") as f:
                    f.write(data0)
                stale[os.path.normpath(pth)] = how
                ctx.count("targets that existed before the run (%s)" % how)
            before = impl.snapshot_dir(d)
            res = impl.run_cli([main] + argv, cwd=d)
            after = impl.snapshot_dir(d)
            new = {k: v for k, v in after.items() if before.get(k) != v or k in stale}
            key = (main, extra, tuple(argv))
            ctx.case(key)
            ctx.count("path-cases")
            inp = {"main": main, "source": src_c + extra, "argv": [main] + argv, "targets_existing_before": stale, "namesakes_in_cwd": decoys}
            if res.exit != 0:
                ctx.violation("a run with only valid input failed", inp, expected="exit 0", observed={"exit": res.exit, "stderr": res.stderr[-300:], "exc": res.exc})
                continue
            if sorted(new) != sorted(os.path.normpath(p) for p in expect):
                ctx.violation("outputs were not written at the paths the options/directives name", inp,
                              expected=sorted(expect), observed=sorted(new))
                continue
            for p, (fmt, tname) in expect.items():
                data = new[os.path.normpath(p)]
                if fmt == "raw":
                    good = data == code
                elif fmt == "bin":
                    good = data == base.to_bytes(2, "little") + len(code).to_bytes(2, "little") + code
                else:
                    good = data == ff[fmt](base, code, tname.encode("bk").ljust(16, b" "))
                if not good:
                    ctx.violation("an output file does not contain exactly the assembled image", dict(inp, path=p, format=fmt),
                                  expected="image in format " + fmt, observed=data[:32].hex())
        finally:
            impl.drop_scratch(d)
    tape_name_stream(ctx, ctx.rng("c13-names"), 2000 if ctx.thorough else 400)
    # a tape name that does not fit 16 bytes is an error
    d = impl.scratch_dir()
    try:
        with open(os.path.join(d, "p.mac"), "w", encoding="utf-8") as f:
            f.write(SRC + "make_wav 'x.wav', '0123456789ABCDEFG'\n")
        res = impl.run_cli(["p.mac"], cwd=d)
        ctx.case("long-tape-name")
        if res.exit == 0:
            ctx.violation("a 17-byte tape name was accepted", {"source": "make_wav 'x.wav', '0123456789ABCDEFG'"}, expected="an error", observed="exit 0")
    finally:
        impl.drop_scratch(d)


NAME_STEMS = ["GAME", "tape", "a.b", "x", "ИГРА", "My Prog", "Z9$", "0123456789AB", "wav", "w", "Тест.1"]
NAME_TAILS = ["", "", ".wav", ".WAV", ".Wav", ".bin", ".", ".wav.wav", " .wav", ".wave", "wav", ".mac"]


def tape_name_stream(ctx, rng, n):
    """the name in the tape header: an explicit name is written exactly as given (whatever it ends in), an inferred
    one is the file name of the output path without a final '.wav'; 17 bytes and more are refused"""
    mreqs, mjobs = [], []
    for _ in range(n):
        directive = rng.choice(["make_wav", "make_turbo_wav"])
        stem, tail = rng.choice(NAME_STEMS), rng.choice(NAME_TAILS)
        explicit = rng.random() < 0.6
        pdir = rng.choice(["", "", "o/", "./", "sub/dir/"])
        if explicit:
            name = (stem + tail) if rng.random() < 0.8 else (stem + tail + "0123456789")[:rng.randint(15, 20)]
            path = pdir + rng.choice(["t.wav", "out.WAV", "x", "n.a.m.e.wav"])
            src = "%s \"%s\", \"%s\"" % (directive, path, name)
            want = name
        else:
            fname = stem + tail
            if rng.random() < 0.2:
                fname = (fname + "0123456789ABCDEFGH")[:rng.randint(14, 22)] + rng.choice(["", ".wav"])
            path = pdir + fname
            src = "%s \"%s\"" % (directive, path)
            want = fname[:-4] if fname.lower().endswith(".wav") else fname
        if not want or '"' in want:
            continue
        text = ".link 1000\nnop\n" + src + "\n"
        r = impl.assemble([("/w/prog.mac", text)], charset="bk")
        enc = want.encode("bk")
        inp = {"source": text, "explicit": explicit}
        ctx.case(("tape-name", src))
        ctx.count("tape-names")
        ctx.count("tape-names-explicit" if explicit else "tape-names-inferred")
        ctx.count("tape-names ending in .wav", want.lower().endswith(".wav"))
        if len(enc) > 16:
            if r.outcome == "ok" or "too-long-string" not in r.error_ids():
                ctx.violation("a tape name of more than 16 bytes was not refused", inp, expected="too-long-string", observed=r.summary())
            continue
        if r.outcome != "ok" or len(r.emitted) != 1:
            ctx.violation("a tape directive with a name that fits was not accepted", inp, expected="one output", observed=r.summary())
            continue
        got = r.emitted[0][4]
        fmt = r.emitted[0][2]
        # Model.Container.tapeName on the same operands (code points; the path operand as written)
        mreqs.append("tapename %s %s %s" % (nl(map(ord, name)) if explicit else "none", nl(map(ord, "/w/" + path)), nl(map(ord, "/w/prog.mac"))))
        mjobs.append((inp, bytes(got)))
        if got != enc.ljust(16, b" ") or fmt != ("bk_wav" if directive == "make_wav" else "bk_turbo_wav"):
            ctx.violation("the name in the tape header is not the name the source states (explicit: as written; inferred: the output "
                          "file name without '.wav')", inp, expected=enc.ljust(16, b" ").hex(), observed={"name": bytes(got).hex(), "format": fmt})
    # directives without operands: the name comes from the source file name
    for src_name in ["prog.mac", "PROG.MAC", "Game.Mac", "noext", "a.b.mac", "x.wav.mac", "dir.d/n.mac"]:
        r = impl.assemble([("/w/" + src_name, "nop\nmake_wav\n")], charset="bk")
        if r.outcome == "ok" and len(r.emitted) == 1:
            mreqs.append("tapename none none %s" % nl(map(ord, "/w/" + src_name)))
            mjobs.append(({"source file": src_name, "source": "nop\nmake_wav\n"}, bytes(r.emitted[0][4])))
    for (inp, got), a in zip(mjobs, ctx.driver.ask(mreqs)):
        want = "".join(map(chr, parse_nl(a))).encode("bk").ljust(16, b" ") if a != "bad-op" else a
        if want != got:
            ctx.disagree("Model.Container.tapeName", inp, want.hex() if isinstance(want, bytes) else want, got.hex())


def search(ctx, broken):
    if not ctx.thorough:
        ctx.thorough = True
        run(ctx)


def replay(ctx, path):
    with open(path, encoding="utf-8") as f:
        rep = json.load(f)
    v = rep.get("violation")
    if not v:
        print("replay file names a broken obligation, no failing input: re-run ./check C13")
        return 0
    print(json.dumps(v, indent=1)[:2000])
    return 0
