"""C15 Radix-50 packing: correspondence of `.rad50` / `^R` with the Lean model and the
direct oracle (emitted words unpacked by the Lean Spec decoder)."""
import json

from . import impl
from .common import nl, parse_kv, parse_nl

# the standard alphabet (from the DEC documentation; *not* read from /repo)
ALPHA = " ABCDEFGHIJKLMNOPQRSTUVWXYZ$.%0123456789"
FOLD_TO_ASCII = {0x131: "I", 0x17F: "S"}   # Unicode case folding into the alphabet: either outcome accepted by the oracle
SPECIAL_CPS = [0x130, 0x131, 0x17F, 0x212A, 0xFB05, 0xFB06, 0xDF, 0xB5, 0x1F0]


def quote_str(s):
    for q in "/\"'":
        if q not in s:
            break
    else:
        q = "/"
    out = []
    for ch in s:
        if ch == "\\":
            out.append("\\\\")
        elif ch == q:
            out.append("\\" + q)
        elif ch == "\n":
            out.append("\\n")
        elif ch == "\r":
            out.append("\\r")
        elif ch == "\t":
            out.append("\\t")
        else:
            out.append(ch)
    return q + "".join(out) + q


def src_line(case):
    parts = []
    for kind, v in case:
        parts.append(quote_str(v) if kind == "s" else "<%d.>" % v if v >= 0 else "<-%d.>" % -v)
    return ".rad50 " + " ".join(parts)


def req_line(case):
    return "rad50 " + " ".join(("s:" + nl(map(ord, v))) if k == "s" else "c:%d" % v for k, v in case)


def expect(case):
    """oracle expectation from the property text: ('ok', padded upper-cased text as codes) |
    ('err',) | ('either',)"""
    codes = []
    either = False
    for kind, v in case:
        if kind == "s":
            for ch in v:
                u = ch.upper() if ord(ch) < 128 else ch
                if u in ALPHA:
                    codes.append(ALPHA.index(u))
                elif ord(ch) in FOLD_TO_ASCII:
                    either = True
                    codes.append(ALPHA.index(FOLD_TO_ASCII[ord(ch)]))
                else:
                    return ("err",)
        else:
            if 0 <= v < 40:
                codes.append(v)
            else:
                return ("err",)
    while len(codes) % 3:
        codes.append(0)
    return ("either", codes) if either else ("ok", codes)


def gen_cases(ctx):
    rng = ctx.rng("cases")
    cases = []
    # every alphabet character, both cases, in each position
    for ch in ALPHA:
        for c in {ch, ch.lower()}:
            for pos in range(3):
                t = [rng.choice(ALPHA) for _ in range(3)]
                t[pos] = c
                cases.append([("s", "".join(t))])
    ctx.count("single-position", len(cases))
    if ctx.thorough:
        for a in ALPHA:
            for b in ALPHA:
                for c in ALPHA:
                    cases.append([("s", a + b + c)])
        ctx.count("all-triples", 64000)
        ctx.exhaustive = True
    else:
        for _ in range(4000):
            t = "".join(rng.choice(ALPHA) for _ in range(3))
            if rng.random() < 0.3:
                t = t.lower()
            cases.append([("s", t)])
        ctx.count("random-triples", 4000)
    # strings of 0..12 characters, 1..3 chunks, mixed with <n>
    for _ in range(1500 if ctx.thorough else 400):
        case = []
        for _ in range(rng.randint(1, 3)):
            if rng.random() < 0.7:
                n = rng.randint(0, 12)
                s = "".join(rng.choice(ALPHA + ALPHA.lower()) for _ in range(n))
                case.append(("s", s))
            else:
                case.append(("c", rng.randint(0, 39)))
        cases.append(case)
        ctx.count("strings")
    for n in range(0, 64):
        cases.append([("c", n)])
        cases.append([("s", "A"), ("c", n), ("s", "Z")])
    cases.append([("c", -1)])
    cases.append([("c", 1000000)])
    ctx.count("angle-codes", 130)
    # characters outside the alphabet
    bad = [chr(c) for c in range(1, 128) if chr(c).upper() not in ALPHA]
    bad += [chr(c) for c in SPECIAL_CPS]
    if ctx.thorough:
        bad += [chr(c) for c in range(128, 0x10000) if not 0xD800 <= c < 0xE000]
        bad += [chr(rng.randrange(0x10000, 0x110000)) for _ in range(3000)]
    else:
        bad += [chr(c) for c in rng.sample(range(128, 0xD800), 250)] + [chr(rng.randrange(0xE000, 0x110000)) for _ in range(50)]
    for ch in bad:
        pre = "".join(rng.choice(ALPHA) for _ in range(rng.randint(0, 3)))
        post = "".join(rng.choice(ALPHA) for _ in range(rng.randint(0, 3)))
        cases.append([("s", pre + ch + post)])
    ctx.count("bad-characters", len(bad))
    return cases


def run_batch(ctx, batch):
    """assemble one program holding all cases of the batch; return per case
    (words or None, {'ic': n, 'ob': n, 'other': [...]}, crash)"""
    lines = [src_line(c) for c in batch]
    text = "\n".join(lines) + "\n"
    starts = []
    pos = 0
    for ln in lines:
        starts.append(pos)
        pos += len(ln) + 1
    r = impl.asm1(text, timeout=60)
    per = [{"ic": 0, "ob": 0, "other": []} for _ in batch]
    import bisect
    for sev, ident, locs in r.diags:
        if sev == "warning":
            continue
        p = locs[0][1] if locs and locs[0][1] is not None else 0
        i = bisect.bisect_right(starts, p) - 1
        if ident == "invalid-character":
            per[i]["ic"] += 1
        elif ident == "value-out-of-bounds":
            per[i]["ob"] += 1
        else:
            per[i]["other"].append(ident)
    return r, per


def check_cases(ctx, cases, label):
    reqs = [req_line(c) for c in cases]
    answers = [parse_kv(a) for a in ctx.driver.ask(reqs)]
    valid_idx = [i for i, a in enumerate(answers) if a.get("ic") == "0" and a.get("ob") == "0"]
    invalid_idx = [i for i, a in enumerate(answers) if i not in set(valid_idx)]
    # --- cases the model accepts: batches, output sliced by the model's word count
    B = 1000
    for k in range(0, len(valid_idx), B):
        idxs = valid_idx[k:k + B]
        batch = [cases[i] for i in idxs]
        r, per = run_batch(ctx, batch)
        exp_words = [parse_nl(answers[i]["w"]) for i in idxs]
        total = sum(len(w) for w in exp_words) * 2
        if r.outcome == "ok" and len(r.code) == total and not r.errors():
            off = 0
            for i, w in zip(idxs, exp_words):
                got = [r.code[off + 2 * j] | (r.code[off + 2 * j + 1] << 8) for j in range(len(w))]
                off += 2 * len(w)
                judge(ctx, cases[i], answers[i], "ok", got, {"ic": 0, "ob": 0, "other": []}, None)
        else:
            # something in this batch is off: one by one
            for i in idxs:
                r1, per1 = run_batch(ctx, [cases[i]])
                got = None
                if r1.outcome == "ok":
                    got = [r1.code[2 * j] | (r1.code[2 * j + 1] << 8) for j in range(len(r1.code) // 2)]
                judge(ctx, cases[i], answers[i], r1.outcome, got, per1[0], r1.exc)
    # --- cases the model rejects: batches, diagnostics attributed by line
    for k in range(0, len(invalid_idx), B):
        idxs = invalid_idx[k:k + B]
        batch = [cases[i] for i in idxs]
        r, per = run_batch(ctx, batch)
        if r.outcome == "failed" and all(p["ic"] + p["ob"] + len(p["other"]) > 0 for p in per):
            for i, p in zip(idxs, per):
                judge(ctx, cases[i], answers[i], "failed", None, p, None)
        else:
            for i in idxs:
                r1, per1 = run_batch(ctx, [cases[i]])
                got = None
                if r1.outcome == "ok":
                    got = [r1.code[2 * j] | (r1.code[2 * j + 1] << 8) for j in range(len(r1.code) // 2)]
                judge(ctx, cases[i], answers[i], r1.outcome, got, per1[0], r1.exc)


def judge(ctx, case, model, outcome, words, errs, exc):
    key = json.dumps(case)
    ctx.case(key, nontrivial=any(k == "c" or len(v) > 0 for k, v in case))
    ctx.sample({"source": src_line(case), "model": model, "impl": {"outcome": outcome, "words": words, "errors": errs}})
    # 1. correspondence with the model
    m_ok = model.get("ic") == "0" and model.get("ob") == "0"
    if outcome == "crash" or outcome == "hang":
        ctx.disagree("rad50 directive: implementation " + outcome, src_line(case), model, {"outcome": outcome, "exc": exc})
    elif m_ok:
        if outcome != "ok" or words != parse_nl(model["w"]):
            ctx.disagree("rad50 directive words", src_line(case), model, {"outcome": outcome, "words": words, "errors": errs})
    else:
        if outcome != "failed" or str(errs["ic"]) != model["ic"] or str(errs["ob"]) != model["ob"] or errs["other"]:
            ctx.disagree("rad50 directive errors", src_line(case), model, {"outcome": outcome, "words": words, "errors": errs})
    # 2. the property itself (independent oracle)
    exp = expect(case)
    if exp[0] == "err":
        if outcome == "ok":
            sig = "rad50-multichar-upper" if any(k == "s" and any(len(ch.upper()) > 1 for ch in v) for k, v in case) else None
            ctx.violation("a character outside the RADIX-50 alphabet (or a code >= 40) was packed silently",
                          {"source": src_line(case)}, expected="an error", observed={"words": words}, finding_sig=sig)
        elif outcome in ("crash", "hang"):
            ctx.violation("'.rad50' ended in " + outcome, {"source": src_line(case)}, expected="an error diagnostic", observed=exc)
    else:
        if outcome == "ok":
            ctx.extra.setdefault("_decode", []).append((case, words, exp))
        elif exp[0] == "ok":
            ctx.violation("a valid '.rad50' operand was rejected", {"source": src_line(case)}, expected={"codes": exp[1]},
                          observed={"outcome": outcome, "errors": errs, "exc": exc})


def check_decodes(ctx):
    """unpack every emitted word list with the Lean Spec decoder and compare with the input"""
    todo = ctx.extra.pop("_decode", [])
    answers = ctx.driver.ask(["r50dec " + nl(w) for _, w, _ in todo])
    for (case, words, exp), a in zip(todo, answers):
        got = parse_nl(parse_kv(a)["c"])
        want = [ord(ALPHA[c]) for c in exp[1]]
        if got != want and not (exp[0] == "either"):
            ctx.violation("unpacking the emitted RADIX-50 words does not return the upper-cased, space-padded input",
                          {"source": src_line(case)}, expected=want, observed={"words": words, "unpacked": got})
    ctx.extra["spec_decodes"] = ctx.extra.get("spec_decodes", 0) + len(todo)


def caret_cases(ctx):
    rng = ctx.rng("caret")
    al = ALPHA[1:]
    cases = []
    if ctx.thorough:
        for a in al:
            cases.append(a)
            for b in al:
                cases.append(a + b)
                for c in al:
                    cases.append(a + b + c)
    else:
        for a in al:
            cases.append(a)
            cases.append(a.lower() + rng.choice(al))
        for _ in range(3000):
            cases.append("".join(rng.choice(al) for _ in range(rng.randint(1, 3))))
    cases = [s if rng.random() < 0.7 else s.lower() for s in cases]
    return cases


def check_caret(ctx):
    cases = caret_cases(ctx)
    ctx.count("caret-R", len(cases))
    answers = ctx.driver.ask(["caretr " + nl(map(ord, s)) for s in cases])
    B = 2000
    todo = []
    for k in range(0, len(cases), B):
        batch = cases[k:k + B]
        text = "".join(".word ^R%s\n" % s for s in batch)
        r = impl.asm1(text, timeout=120)
        if r.outcome == "ok" and len(r.code) == 2 * len(batch):
            outs = [("ok", r.code[2 * j] | (r.code[2 * j + 1] << 8)) for j in range(len(batch))]
        else:
            outs = []
            for s in batch:
                r1 = impl.asm1(".word ^R%s\n" % s)
                outs.append((r1.outcome, (r1.code[0] | (r1.code[1] << 8)) if r1.outcome == "ok" and len(r1.code) == 2 else None))
        for s, (oc, val), a in zip(batch, outs, answers[k:k + B]):
            ctx.case("^R" + s)
            m = parse_kv(a)
            if oc != "ok" or "v" not in m or int(m["v"]) != val:
                ctx.disagree("^R literal", ".word ^R" + s, a, {"outcome": oc, "value": val})
            if oc == "ok":
                todo.append((s, val))
            else:
                ctx.violation("a valid ^R literal was rejected", {"source": ".word ^R" + s}, expected="a word", observed=oc)
    answers = ctx.driver.ask(["r50dec %d" % v for _, v in todo])
    for (s, val), a in zip(todo, answers):
        got = parse_nl(parse_kv(a)["c"])
        want = [ord(c) for c in s.upper().ljust(3)]
        if got != want:
            ctx.violation("unpacking a ^R literal does not return the upper-cased, space-padded input",
                          {"source": ".word ^R" + s}, expected=want, observed={"word": val, "unpacked": got})
    # malformed literals must be errors (more than three characters; none at all)
    for s in ["ABCD", "abcde", "A1B2C3"]:
        r = impl.asm1(".word ^R%s\n" % s)
        ctx.case("^R-long-" + s)
        if r.outcome != "failed":
            ctx.violation("a ^R literal of more than three characters was accepted", {"source": ".word ^R" + s}, expected="an error", observed=r.summary())
    for s in ["^R", "^R ,1", "^R!"]:
        r = impl.asm1(".word %s\n" % s)
        ctx.case("^R-empty-" + s)
        if r.outcome == "ok":
            ctx.violation("an empty ^R literal was accepted", {"source": ".word " + s}, expected="an error", observed=r.summary())
    # the case-insensitive regex lets four non-ASCII code points through: two fold into the
    # alphabet (accepted), two do not (must be an error, not an internal exception)
    cps = (0x130, 0x212A, 0x131, 0x17F)
    answers = ctx.driver.ask(["caretr %d" % cp for cp in cps])
    for cp, a in zip(cps, answers):
        src = ".word ^R" + chr(cp) + "\n"
        r = impl.asm1(src)
        ctx.case("^R-nonascii-%x" % cp)
        if r.outcome in ("crash", "hang"):
            ctx.violation("a ^R literal with a non-ASCII letter ends in an internal exception", {"source": src},
                          expected="a value or an error diagnostic", observed=r.exc, finding_sig="caretr-nonascii-crash")
        elif (a == "none") != (r.outcome == "failed"):
            ctx.disagree("^R literal (non-ASCII letter)", src, a, r.summary())


def context_stream(ctx):
    """the same directive evaluated more than once or later: inside '.repeat' blocks, with <n> codes that are symbols
    defined further down, several directives in a row sharing spellings"""
    rng = ctx.rng("contexts")
    pool = ["AB", "A", "EMPTY", "DK", "SWP", "X1$", "", "Z.9", "  Q"]
    for it in range(1500 if ctx.thorough else 400):
        nch = rng.randint(1, 4)
        case, syms = [], []
        for _ in range(nch):
            if rng.random() < 0.55:
                case.append(("s", rng.choice(pool)))
            else:
                case.append(("c", rng.randrange(0, 40)))
        ex = expect(case)
        if ex[0] != "ok" or not any(v != "" for k, v in case if k == "s") and not any(k == "c" for k, _ in case):
            continue
        codes = ex[1]
        words = [codes[i] * 1600 + codes[i + 1] * 40 + codes[i + 2] for i in range(0, len(codes), 3)]
        # render: some codes through symbols defined at the end
        parts, defs = [], []
        for kind, v in case:
            if kind == "s":
                parts.append(quote_str(v))
            elif rng.random() < 0.5:
                nm = "c%d_%d" % (it, len(defs))
                defs.append("%s = %d." % (nm, v))
                parts.append("<%s>" % nm)
            else:
                parts.append("<%d.>" % v)
        line = ".rad50 " + " ".join(parts)
        n = rng.choice([1, 2, 2, 3, 4])
        between = rng.choice(["", ".word 0\n"])
        if n == 1:
            text = line + "\n" + between
            want = list(words) + ([0] if between else [])
        else:
            text = ".repeat %d {\n%s\n%s}\n" % (n, line, between)
            want = (list(words) + ([0] if between else [])) * n
        src = ".link 1000\n" + text + ".rad50 /END/\n" + "\n".join(defs) + "\n"
        want += [5 * 1600 + 14 * 40 + 4]
        r = impl.asm1(src)
        ctx.case(("context", src), nontrivial=True)
        ctx.count("rad50 in context")
        ctx.count("rad50 in a repeat block", n > 1)
        ctx.count("rad50 with codes defined later", bool(defs))
        got = [r.code[i] | (r.code[i + 1] << 8) for i in range(0, len(r.code) - 1, 2)] if r.outcome == "ok" else None
        if got != want:
            ctx.violation("'.rad50' evaluated again (a '.repeat' pass, a code known only later) does not give the packed text again",
                          {"source": src}, expected=want, observed=got if got is not None else r.summary())


def run(ctx):
    ctx.rule = ("'.rad50' operands (1-3 chunks of quoted strings and <n> codes) and '^R' literals, assembled by the real code; "
                "distinct = distinct operand lists; non-trivial = at least one character or code. quick: every alphabet character in "
                "every position, 4000 random triples, strings 0-12, <n> 0..63, every non-alphabet ASCII character and a sample of "
                "non-ASCII ones; thorough: all 64000 triples for both forms and every BMP code point")
    cases = gen_cases(ctx)
    check_cases(ctx, cases, "main")
    check_decodes(ctx)
    check_caret(ctx)
    context_stream(ctx)
    ctx.assumptions = ["U+0131 and U+017F upper-case to I and S (Unicode case folding): the oracle accepts either outcome for them"]


def search(ctx, broken):
    if not ctx.thorough:
        ctx.thorough = True
        cases = gen_cases(ctx)
        check_cases(ctx, cases, "search")
        check_decodes(ctx)
        check_caret(ctx)


def replay(ctx, path):
    with open(path, encoding="utf-8") as f:
        rep = json.load(f)
    v = rep.get("violation")
    if not v:
        print("replay file names a broken obligation, no failing input: re-run ./check C15")
        return 0
    src = v["input"]["source"]
    r = impl.asm1(src + "\n")
    print("source: %r\noutcome: %s\ncode: %s\nerrors: %s" % (src, r.outcome, r.code.hex() if r.code else None, r.error_ids()))
    return 0
