"""C14 BK charset: exhaustive correspondence of the codec with the Lean model, the
property stated directly on the codec, and the way an encoding error surfaces in an
assembly."""
import json

from . import impl
from .common import nl, parse_nl
from .p_c15 import quote_str


def py_encode(s):
    try:
        return ("ok", list(s.encode("bk")))
    except UnicodeEncodeError as ex:
        return ("err", ex.start, ex.end)


def model_enc_ans(a):
    t = a.split()
    if t[0] == "ok":
        return ("ok", parse_nl(t[1]))
    if t[0] == "err":
        return ("err", int(t[1]), int(t[2]))
    return (a,)


def run(ctx):
    impl.load()
    rng = ctx.rng("c14")
    ctx.rule = ("bytes.decode('bk') on all 256 bytes; str.encode('bk') on single code points (quick: whole BMP + 3000 astral; thorough: all "
                "0x110000) and on random strings of 0-24 characters mixing table and non-table characters; '.ascii' / character literals "
                "through the assembler. distinct = distinct inputs; non-trivial = non-empty input")
    bk_table = impl.mod("bk_encoding").DECODING_TABLE
    table_chars = {c for entry in bk_table for c in entry}
    # the byte every table character must encode to, read off the decoding table (not asked of the encoder under test)
    byte_of = {}
    for bcode, entry in enumerate(bk_table):
        for c in entry:
            byte_of.setdefault(c, bcode)

    def enc_expected(text):
        return bytes(byte_of[c] for c in text)

    # ---- decoding: all 256 bytes (exhaustive)
    answers = ctx.driver.ask(["bkdec %d" % b for b in range(256)])
    for b, a in zip(range(256), answers):
        ctx.case(("dec", b))
        try:
            got = [ord(c) for c in bytes([b]).decode("bk")]
        except Exception as ex:  # pylint: disable=broad-except
            got = repr(ex)
        want = parse_nl(a.split()[1]) if a.startswith("ok") else a
        if got != want:
            ctx.disagree("bk decode", b, a, got)
        # the property, directly
        if isinstance(got, list) and len(got) == 1:
            ch = chr(got[0])
            try:
                back = list(ch.encode("bk"))
            except UnicodeEncodeError:
                back = None
            if back != [b]:
                ctx.violation("byte does not survive decode+encode", {"byte": b}, expected=[b], observed=back)
            if b <= 0x7E and got[0] != b:
                ctx.violation("'bk' differs from ASCII below 0x7F", {"byte": b}, expected=b, observed=got[0])
            if b >= 0xC0 and ch != bytes([b]).decode("koi8-r"):
                ctx.violation("'bk' differs from KOI8-R on 0xC0-0xFF", {"byte": b}, expected=ord(bytes([b]).decode("koi8-r")), observed=got[0])
        else:
            ctx.violation("byte does not decode to one character", {"byte": b}, expected="one character", observed=got)
    ctx.count("decode-bytes", 256)

    # ---- encoding single code points
    if ctx.thorough:
        cps = list(range(0x110000))
        ctx.exhaustive = True
    else:
        cps = list(range(0x10000)) + [rng.randrange(0x10000, 0x110000) for _ in range(3000)]
    answers = ctx.driver.ask(["bkenc %d" % cp for cp in cps])
    n_enc = 0
    for cp, a in zip(cps, answers):
        got = py_encode(chr(cp))
        want = model_enc_ans(a)
        ctx.case(("enc", cp), nontrivial=True)
        if got != want:
            ctx.disagree("bk encode of one code point", cp, a, got)
        inside = chr(cp) in table_chars
        if inside:
            n_enc += 1
        if inside and got[0] != "ok":
            ctx.violation("a character of the table is refused", {"codepoint": cp}, expected="a byte", observed=got)
        if not inside and got != ("err", 0, 1):
            ctx.violation("a character outside the table is not refused with its position", {"codepoint": cp}, expected=("err", 0, 1), observed=got)
    ctx.count("encode-codepoints", len(cps))
    ctx.count("encodable-codepoints", n_enc)

    # ---- strings
    pool_in = sorted(table_chars)
    strings = []
    for _ in range(6000 if ctx.thorough else 1500):
        n = rng.randint(0, 24)
        p_bad = rng.choice([0.0, 0.05, 0.2, 0.6])
        s = "".join(chr(rng.randrange(0x100, 0x3000)) if rng.random() < p_bad else rng.choice(pool_in) for _ in range(n))
        strings.append(s)
    answers = ctx.driver.ask(["bkenc " + nl(map(ord, s)) for s in strings])
    for s, a in zip(strings, answers):
        got = py_encode(s)
        want = model_enc_ans(a)
        ctx.case(("str", s), nontrivial=len(s) > 0)
        ctx.sample({"string": s, "model": a, "impl": got})
        if got != want:
            ctx.disagree("bk encode of a string", [ord(c) for c in s], a, got)
        bad = [i for i, c in enumerate(s) if c not in table_chars]
        if bad:
            exp = ("err", bad[0], bad[-1] + 1)
            ctx.count("strings-with-unencodable")
        else:
            exp = ("ok", None)
            ctx.count("strings-encodable")
        if got[0] != exp[0] or (bad and got != exp):
            ctx.violation("encoding error does not name the offending positions", {"string": s}, expected=exp, observed=got)
        if not bad and got[0] == "ok":
            if bytes(got[1]).decode("bk") != s.replace("\xa4", "$"):
                ctx.violation("string does not survive encode+decode", {"string": s}, expected=s, observed=bytes(got[1]).decode("bk"))

    # ---- the assembler: an unencodable character is an error, never a wrong byte
    chars = [chr(c) for c in range(0x20, 0x7F) if chr(c) not in "\\"] + [c for c in pool_in if ord(c) >= 0xA0]
    chars += [chr(rng.randrange(0x100, 0x3000)) for _ in range(120 if not ctx.thorough else 600)]
    chars += ["€", "λ", "\U0001F600"]
    # characters outside the table whose compatibility / case / accent folding lies inside it
    chars += list("№\u00a0…²Ａｂﬁ™½①ⅣÀéÿİǅ\u2002\u2212\uff0e")
    chars += [c for c in (chr(rng.randrange(0x2000, 0x2200)) for _ in range(60)) if c not in table_chars]
    for ch in chars:
        inside = ch in table_chars
        for form in ("ascii", "char", "dchar"):
            if form == "ascii":
                src = ".ascii " + quote_str("A" + ch + "B") + "\n"
                want = b"A" + (enc_expected(ch) if inside else b"") + b"B"
            elif form == "char":
                if ch in "'\t\r\n ":
                    continue
                src = ".word '" + ch + "\n"
                want = (enc_expected(ch) if inside else b"") + b"\x00"
            else:
                if ch in "\"\t\r\n ":
                    continue
                src = ".word \"" + ch + "Z\n"
                want = (enc_expected(ch) if inside else b"") + b"Z"
            r = impl.asm1(src)
            ctx.case(("asm", form, ch))
            ctx.count("assembler-" + form)
            if inside:
                if r.outcome != "ok" or r.code != want:
                    ctx.violation("a table character is not emitted as its byte by the assembler", {"source": src},
                                  expected=want.hex(), observed=r.summary())
            else:
                if r.outcome != "failed" or "invalid-character" not in r.error_ids():
                    ctx.violation("an unencodable character does not surface as an assembly error", {"source": src},
                                  expected="failure with invalid-character", observed=r.summary())
    # ---- the name in a tape header is text in the output charset too: given explicitly, taken from the output path, taken
    # from the source file name
    import os
    for ch in chars:
        if ch in "\"'/\\\t\r\n\x00" or ord(ch) < 0x20 or ch == " ":
            continue
        inside = ch in table_chars
        for form in ("tape-explicit", "tape-path", "tape-file"):
            nm = "ab" + ch + "c"
            d = None
            if form == "tape-explicit":
                files = [("/w/p.mac", "nop\nmake_wav \"o.wav\", \"%s\"\n" % nm)]
            elif form == "tape-path":
                files = [("/w/p.mac", "nop\n%s \"dir/%s.wav\"\n" % (rng.choice(["make_wav", "make_turbo_wav"]), nm))]
            else:
                files = [("/w/%s.mac" % nm, "nop\nmake_wav\n")]
            r = impl.assemble(files)
            ctx.case(("asm", form, ch))
            ctx.count("assembler-" + form)
            if inside:
                want = enc_expected(nm).ljust(16, b" ")
                if r.outcome != "ok" or len(r.emitted) != 1 or bytes(r.emitted[0][4]) != want:
                    ctx.violation("a table character in a tape name is not written as its byte", {"files": files}, expected=want.hex(), observed=r.summary())
            else:
                if r.outcome != "failed" or "invalid-character" not in r.error_ids():
                    ctx.violation("an unencodable character in a tape name does not surface as an assembly error", {"files": files},
                                  expected="failure with invalid-character", observed=r.summary())
    ctx.assumptions = ["Python's 'koi8-r' codec is the reference for KOI8-R in the direct oracle (the Lean theorem uses the frozen Spec table)"]


def search(ctx, broken):
    if not ctx.thorough:
        ctx.thorough = True
        run(ctx)


def replay(ctx, path):
    with open(path, encoding="utf-8") as f:
        rep = json.load(f)
    v = rep.get("violation")
    if not v:
        print("replay file names a broken obligation, no failing input: re-run ./check C14")
        return 0
    inp = v["input"]
    impl.load()
    if "byte" in inp:
        b = inp["byte"]
        d = bytes([b]).decode("bk")
        print("byte %d decodes to %r; encodes back to %r" % (b, d, py_encode(d)))
    elif "codepoint" in inp:
        print("U+%04X encodes to %r" % (inp["codepoint"], py_encode(chr(inp["codepoint"]))))
    elif "string" in inp:
        print("%r encodes to %r" % (inp["string"], py_encode(inp["string"])))
    else:
        r = impl.asm1(inp["source"])
        print(inp["source"], r.summary())
    return 0
