"""C17 diagnostics point at the culprit: `Context.__repr__` against the Lean model and the
Spec scan, planted faults in main / linked / included files, the bare report format."""
import json
import os
import re

from . import impl
from .common import nl

# (kind, line with the fault, culprit substring (the first report must start there), identifier)
FAULTS = [
    ("undefined-symbol", "mov #UNDEF1, r0", "UNDEF1", "undefined-symbol"),
    ("byte-too-large", ".byte 1, 400, 2", "400", "value-out-of-bounds"),
    ("unknown-insn", "frob r0", "frob", "unknown-insn"),
    ("division-by-zero", ".word 5 / 0", "5 / 0", "arithmetic-error"),
    ("duplicate-label", "dup1: nop", "dup1:", "duplicate-symbol"),
    ("odd-word", ".byte 1\n.word 2", ".word 2", "odd-address"),
    ("branch-too-far", "br .+1000", "br", "branch-out-of-bounds"),
    ("unterminated-string", ".ascii \"abc", "\"abc", "unterminated-string"),
    ("digit-8-9", ".word 19", "19", "invalid-number"),
    ("reserved-name", "r3: nop", "r3:", "reserved-name"),
    ("too-few-operands", "mov r0", "mov r0", "wrong-operands"),
    ("register-expected", "rts #5", "rts #5", "invalid-addressing"),
    ("user-error", ".error stop here", ".error stop here", "user-error"),
    ("register-as-value", ".word r1", "r1", "unexpected-register"),
    ("bad-escape", ".ascii \"a\\qb\"", "\\q", "invalid-escape"),
    ("negative-count", ".blkb -1", "-1", "value-out-of-bounds"),
    ("extern-local", "1:: nop", "1::", "invalid-extern"),
    ("unencodable", ".ascii \"a€b\"", ".ascii \"a€b\"", "invalid-character"),
    ("dangling-operator", ".word 1 + * 2", "* 2", "invalid-expression"),
    ("second-link", ".link 3000", ".link 3000", "address-conflict"),
    ("empty-assignment", "x9 = ,", "= ,", "invalid-assignment"),
    ("empty-operand", "mov r0, , r1", ", , r1", "invalid-operand"),
    ("inline-too-large", "emt 400", "emt", "value-out-of-bounds"),
    ("include-missing", ".include \"nonexistent.mac\"", ".include \"nonexistent.mac\"", "io-error"),
    ("hash-in-directive", ".word #5", "#5", "excess-hash"),
    ("align-zero", ".align 0", ".align 0", "value-out-of-bounds"),
    ("no-such-accumulator", "tstf r7", "r7", "implicit-accumulator"),
    ("insert-missing", "insert_file \"nonexistent.bin\"", "insert_file \"nonexistent.bin\"", "io-error"),
    ("too-many-meta-operands", ".even 1", ".even 1", "wrong-meta-operands"),
    ("sob-forward", "sob r0, .+10", "sob", "branch-out-of-bounds"),
    ("register-number", "clr %10", "10", "value-out-of-bounds"),
    ("rad50-bad-char", ".rad50 /a!b/", "/a!b/", "invalid-character"),
    ("negative-shift", ".word 1 << -1", "1 << -1", "arithmetic-error"),
    ("lonely-quote", ".word '", "'", "unterminated-string"),
    ("comma-after-name", "mov ,r0", ",r0", "invalid-insn"),
    # the culprit is the second (or later) of a chain of prefix operators, blanks in between
    ("hash-after-hash", "mov #-#3,r0", "#3", "unexpected-value"),
    ("register-after-hash", "mov # %3, r1", "%3", "unexpected-value"),
    ("hash-after-minus", ".word - #5", "#5", "unexpected-value"),
    ("deferred-after-minus", ".word -@5", "@5", "unexpected-value"),
    ("hash-after-deferred", "mov @-#5, r0", "#5", "unexpected-value"),
    ("deferred-after-absolute", "clr @#@5", "@5", "unexpected-value"),
    ("deferred-in-brackets", "mov #<-@3>, r0", "@3", "unexpected-value"),
    ("register-after-two-signs", ".word - - r1", "r1", "unexpected-register"),
    ("register-after-tilde", ".word ~\t-r2", "r2", "unexpected-register"),
    ("bad-digits-after-two-tildes", ".word ~ ~ 19", "19", "invalid-number"),
    ("undefined-after-two-signs", "mov #- -UNDEF2, r0", "UNDEF2", "undefined-symbol"),
    ("too-large-after-hash", "mov # -400000, r0", "-400000", "value-out-of-bounds"),
    # directives that emit nothing, with an operand that is unknown where they stand (they still have to be evaluated)
    ("undefined-in-nlist", ".nlist UNDEF5", "UNDEF5", "undefined-symbol"),
    ("undefined-in-list", ".list UNDEF6", "UNDEF6", "undefined-symbol"),
    ("undefined-in-output-name", "make_raw \"rel\" <NOVER + 60> \".raw\"", "NOVER", "undefined-symbol"),
    # definitions nothing refers to: they are resolved at the very end ("in case some have not been used")
    ("undefined-in-unused-definition", "spare8 = UNDEF8 + 2", "UNDEF8", "undefined-symbol"),
    ("division-by-zero-in-unused-definition", "spare9 = later9 / 0\nlater9 = 4", "later9 / 0", "arithmetic-error"),
    # the culprit is the whole displacement of an index operand, written as an unbracketed infix expression
    ("index-sum-too-large", "mov 177777+177777+5(r2), r0", "177777+177777+5", "value-out-of-bounds"),
    ("index-deferred-sum-too-large", "mov @177777+177777+5(r1), r0", "177777+177777+5", "value-out-of-bounds"),
    ("index-product-too-large", "mov 2*100000(r1), r2", "2*100000", "value-out-of-bounds"),
    ("index-difference-too-large", "clr 1000000-1(r5)", "1000000-1", "value-out-of-bounds"),
    ("index-division-by-zero", "mov 5/0(r3), r1", "5/0", "arithmetic-error"),
    ("index-negative-shift", "mov 1+2<<-1(r2), r0", "1+2<<-1", "arithmetic-error"),
    ("index-undefined-right", "clr 3+UNDEF7(r4)", "UNDEF7", "undefined-symbol"),
    ("index-undefined-left", "clr UNDEF8*2(r4)", "UNDEF8", "undefined-symbol"),
    ("index-negative-too-large", "mov -200000(r1), r2", "-200000", "value-out-of-bounds"),
]

FILLER = [
    "nop", "mov #1, r0", "\tclr (r1)+\t; tab indented", "lab%d: inc r2", ".word 1, 2, 3", "; full line comment комментарий",
    ".ascii /text/\n.even", "\t\tadd r3, r4", "c%d = 5", "   sub #2, r5   ; trailing ☃", "", ".byte 1, 2", "bis r0, @#177716", "%d$: sob r1, %d$",
]


def scan(text, pos):
    line, col = 1, 1
    for ch in text[:pos]:
        if ch == "\n":
            line, col = line + 1, 1
        elif ch == "\t":
            col += 4
        else:
            col += 1
    return line, col


def build_file(rng, fault, tag):
    """(text, culprit offset or None)"""
    lines = []
    n_before = rng.randint(0, 10)
    n_after = rng.randint(0, 6)
    k = 0

    def filler():
        nonlocal k
        k += 1
        t = rng.choice(FILLER)
        return t.replace("%d", str(k * 10 + tag))
    even = True
    for _ in range(n_before):
        lines.append(filler())
    if fault is None:
        for _ in range(n_after):
            lines.append(filler())
        return "\n".join(lines) + "\n", None
    kind, fline, culprit, _ident = fault
    if kind == "duplicate-label":
        lines.insert(0, "dup1: nop")
    if kind == "second-link":
        lines.insert(0, ".link 2000")
    indent = rng.choice(["", "\t", "  ", "\t \t"])
    lines.append(".even")
    text_before = "\n".join(lines) + "\n"
    fault_text = indent + fline
    off = len(text_before) + len(indent) + fline.index(culprit)
    rest = "\n".join(filler() for _ in range(n_after))
    if kind in ("odd-word",):
        rest = ".even\n" + rest
    text = text_before + fault_text + "\n" + rest + "\n"
    return text, off


NOT_IN_BLOCK = {"undefined-in-unused-definition", "division-by-zero-in-unused-definition", "duplicate-label", "reserved-name", "extern-local", "second-link", "empty-assignment", "odd-word", "include-missing", "insert-missing",
                "unterminated-string", "lonely-quote", "comma-after-name"}


def build_block_file(rng, fault):
    """the fault as the first (or a later) statement of a '.repeat' block, blank lines / comments / tabs between the
    brace and the statement"""
    kind, fline, culprit, _ident = fault
    head, _ = build_file(rng, None, 1)
    opener = rng.choice([".repeat 1 {", ".repeat 1 {  ", "\t.repeat 1\t{\t; c", ".repeat 1\n{", ".repeat 2 - 1 {"])
    gap = rng.choice(["\n", "\n\n", "\n ; a comment\n", "\n\t\n\t", " ", "\t", "\n    "])
    if ";" in opener and "\n" not in gap:
        gap = "\n" + gap
    before_stmt = rng.choice(["", "", "nop\n    ", "inc r1\n\t"])
    indent = rng.choice(["", "\t", "    "])
    text_before = head + ".even\n" + opener + gap + before_stmt + indent
    off = len(text_before) + fline.index(culprit)
    text = text_before + fline + "\n}\nnop\n"
    return text, off


def run(ctx):
    impl.load()
    rng = ctx.rng("c17")
    Context = impl.mod("context").Context
    ctx.rule = ("(a) Context.__repr__ on random texts with tabs, CR, non-ASCII and comments x every position class; (b) one fault of "
                "%d kinds planted at a random line after 0-10 filler lines (tabs, non-ASCII comments) in the main file, a second linked "
                "file or an included file: the first error report must name that file and start at the planted token; every report of "
                "every run must lie inside its file with start <= end; (c) the same through --report-format=bare; (d) the gutter line and highlight column of --report-format=graphical. distinct = distinct "
                "(text, position) / (kind, role, layout)" % len(FAULTS))
    # ---------------------------------------------------------------- (a) line/column arithmetic
    alphabet = ["a", "b", " ", "\t", "\n", "\n", "\r", ";", "я", "☃", "\U0001F600", ",", "1", "\x0c", "\x0b", "\x1c", "\x85", "\u2028"]
    reqs, jobs = [], []
    for _ in range(3000 if ctx.thorough else 600):
        n = rng.randint(0, 60)
        text = "".join(rng.choice(alphabet) for _ in range(n))
        for pos in {0, n, rng.randint(0, n), rng.randint(0, n)}:
            c = Context("f.mac", text)
            c.pos = pos
            got = repr(c)
            reqs.append("linecol %d %s" % (pos, nl(map(ord, text))))
            jobs.append((text, pos, got))
    for (text, pos, got), a in zip(jobs, ctx.driver.ask(reqs)):
        ml, mc, sl, sc = map(int, a.split())
        ctx.case(("repr", text, pos), nontrivial=pos > 0)
        ctx.count("repr-positions")
        if got != "f.mac:%d:%d" % (ml, mc):
            ctx.disagree("Context.__repr__", {"text": text, "pos": pos}, a, got)
        if got != "f.mac:%d:%d" % (sl, sc):
            ctx.violation("line:column is not the scan position (tab = 4 columns)", {"text": text, "pos": pos}, expected="f.mac:%d:%d" % (sl, sc), observed=got)

    # ---------------------------------------------------------------- (b) planted faults
    roles = ["main", "linked", "included", "block"]
    per_kind = 12 if ctx.thorough else 3
    for fault in FAULTS:
        for role in roles:
            for rep in range(per_kind):
                d = impl.scratch_dir()
                try:
                    if role == "block" and fault[0] in NOT_IN_BLOCK:
                        continue
                    ftext, off = build_file(rng, fault, 1) if role != "block" else build_block_file(rng, fault)
                    other, _ = build_file(rng, None, 2)
                    main_path = os.path.join(d, "main.mac")
                    if role in ("main", "block"):
                        files = [(main_path, ftext)]
                        fault_file = main_path
                    elif role == "linked":
                        second = os.path.join(d, "second.mac")
                        files = [(main_path, other), (second, ftext)]
                        fault_file = second
                    else:
                        inc = os.path.join(d, "inc.mac")
                        with open(inc, "w", encoding="utf-8") as f:
                            f.write(ftext)
                        files = [(main_path, other + ".include \"inc.mac\"\n" + "nop\n")]
                        fault_file = inc
                    texts = {p: t for p, t in files}
                    texts[fault_file] = ftext
                    r = impl.assemble(files)
                    ctx.case((fault[0], role, ftext))
                    ctx.count("fault-" + fault[0])
                    inp = {"kind": fault[0], "role": role, "files": [(os.path.basename(p), t) for p, t in files] + ([("inc.mac", ftext)] if role == "included" else [])}
                    if r.outcome in ("crash", "hang"):
                        ctx.violation("a planted fault ended in " + r.outcome, inp, expected="a diagnostic", observed=r.exc)
                        continue
                    # every location of every report lies inside its file
                    for sev, ident, locs in r.diags:
                        for fn, s, e, _t in locs:
                            txt = texts.get(fn)
                            if txt is None or s is None or not (0 <= s <= e <= len(txt)):
                                ctx.violation("a report does not lie inside a file of the assembly (or start > end)", inp,
                                              expected="0 <= start <= end <= len(file)", observed=(sev, ident, fn and os.path.basename(fn), s, e))
                    errs = [dg for dg in r.diags if dg[0] != "warning"]
                    if not errs:
                        ctx.violation("a planted fault was not reported", inp, expected=fault[3], observed=r.summary())
                        continue
                    sev, ident, locs = errs[0]
                    fn, s, e, _t = locs[0]
                    want = scan(ftext, off)
                    got = scan(texts.get(fn, ""), s) if fn in texts else None
                    ctx.sample({"kind": fault[0], "role": role, "first_report": (ident, os.path.basename(fn), got), "planted_at": want})
                    if ident != fault[3] or fn != fault_file or got != want:
                        ctx.violation("the first report does not point at the planted token", inp,
                                      expected={"id": fault[3], "file": os.path.basename(fault_file), "line_col": want},
                                      observed={"id": ident, "file": os.path.basename(fn), "line_col": got})
                finally:
                    impl.drop_scratch(d)

    # ---------------------------------------------------------------- (b2) reports with parts in two files: a name exported by
    # two linked files; the culprit is the second definition, whatever the files are called
    for rep in range(120 if ctx.thorough else 40):
        d = impl.scratch_dir()
        try:
            n1, n2 = rng.choice([("main.mac", "util.mac"), ("util.mac", "main.mac"), ("zeta.mac", "alpha.mac"), ("a.mac", "b.mac"), ("m2.mac", "m10.mac")])
            form = rng.choice(["label", "const", "mixed"])
            nm = rng.choice(["begin", "Shared", "x.y", "k9"])
            d1 = "%s:: nop" % nm if form in ("label", "mixed") else "%s == 5" % nm
            d2 = "%s:: nop" % nm if form == "label" else "%s == 7" % nm
            t1, _ = build_file(rng, None, 1)
            t2a, _ = build_file(rng, None, 2)
            t2b, _ = build_file(rng, None, 3)
            text1 = t1 + d1 + "\n"
            indent = rng.choice(["", "\t", "  "])
            text2 = t2a + ".even\n" + indent + d2 + "\n" + t2b
            off = len(t2a) + len(".even\n") + len(indent)
            p1, p2 = os.path.join(d, n1), os.path.join(d, n2)
            r = impl.assemble([(p1, text1), (p2, text2)])
            inp = {"files": [(n1, text1), (n2, text2)], "kind": "exported twice (" + form + ")"}
            ctx.case(("two-file", n1, n2, form, text2))
            ctx.count("two-file reports")
            errs = [dg for dg in r.diags if dg[0] != "warning"]
            if r.outcome in ("crash", "hang") or not errs:
                ctx.violation("a name exported by two files was not reported", inp, expected="duplicate-symbol", observed=r.summary() if r.outcome not in ("crash", "hang") else r.exc)
                continue
            sev, ident, locs = errs[0]
            fn, s0, e0, _t = locs[0]
            want = scan(text2, off)
            got = scan(text2 if fn == p2 else text1, s0)
            if fn != p2 or got != want:
                ctx.violation("the first position of a two-file report is not the culprit (the second definition)", inp,
                              expected={"file": n2, "line_col": want}, observed={"id": ident, "file": os.path.basename(fn), "line_col": got})
        finally:
            impl.drop_scratch(d)

    # ---------------------------------------------------------------- (c) the bare format
    for fault in (FAULTS if ctx.thorough else rng.sample(FAULTS, 12)):
        d = impl.scratch_dir()
        try:
            ftext, off = build_file(rng, fault, 1)
            with open(os.path.join(d, "m.mac"), "w", encoding="utf-8") as f:
                f.write(ftext)
            res = impl.run_cli(["m.mac", "--report-format=bare"], cwd=d)
            ctx.case(("bare", fault[0], ftext))
            ctx.count("bare-format")
            lines = [ln for ln in res.stdout.decode("utf-8", "replace").split("\n") if ": Error: " in ln]
            inp = {"kind": fault[0], "source": ftext}
            if res.exit == 0 or not lines:
                ctx.violation("the bare format did not report the planted fault", inp, expected="file:line:col: Error: ...", observed=(res.exit, res.stdout[:200]))
                continue
            m = re.match(r"(.*):(\d+):(\d+): Error: ", lines[0])
            want = scan(ftext, off)
            if not m or os.path.basename(m.group(1)) != "m.mac" or (int(m.group(2)), int(m.group(3))) != want:
                ctx.violation("the bare report does not print the planted token's line:column", inp, expected="m.mac:%d:%d" % want, observed=lines[0][:120])
        finally:
            impl.drop_scratch(d)


    # ---------------------------------------------------------------- (d) the graphical format: it computes line and column
    # on its own (GraphicalHandler.__call__), so it is compared with the planted position as well: the gutter number of the
    # highlighted source line and the terminal column of the highlight (tabs expanded to four spaces)
    for fault in (FAULTS if ctx.thorough else rng.sample(FAULTS, 12)):
        d = impl.scratch_dir()
        try:
            ftext, off = build_file(rng, fault, 1)
            with open(os.path.join(d, "m.mac"), "w", encoding="utf-8") as f:
                f.write(ftext)
            res = impl.run_cli(["m.mac", "--report-format=graphical"], cwd=d)
            ctx.case(("graphical", fault[0], ftext))
            inp = {"kind": fault[0], "source": ftext, "format": "graphical"}
            blocks = [b for b in res.stderr.split("\n\n") if "\x1b[91mError\x1b[0m in " in b or "\x1b[91mCritical" in b or "rror" in b.split("\n")[0]]
            if res.exit == 0 or not blocks:
                ctx.violation("the graphical format did not report the planted fault", inp, expected="Error in <file>: ...", observed=(res.exit, res.stderr[:200]))
                continue
            first = blocks[0]
            # every highlighted part of the first report: (gutter line, column); the columns of vertical connectors
            # (two characters each, printed between the gutter and the source line) shift the terminal column
            got = []
            for ln in first.split("\n"):
                cols = re.findall(r"\x1b\[(\d+)G\x1b\[48;5;52m", ln)
                if not cols:
                    continue
                g = re.match(r"\x1b\[92m\s*(\d+)\x1b\[0m \x1b\[38;5;242m│ \x1b\[38;5;11m([^\x1b]*)\x1b\[0m", ln)
                for c in cols:
                    got.append((int(g.group(1)) if g else None, int(c) - 9 - (len(g.group(2)) if g else 0) + 1))
            if not got:
                ctx.count("graphical: first report has no highlighted part (not compared)")
                continue
            ctx.count("graphical-format")
            ctx.count("graphical: %s highlighted part%s" % (("one", "") if len(got) == 1 else ("several", "s")))
            want = scan(ftext, off)
            head = first.split("\n")[0]
            n_lines = ftext.count("\n") + 1
            if "m.mac" not in head or want not in got or any(l is None or not 1 <= l <= n_lines or c < 1 for l, c in got):
                ctx.violation("the graphical report does not highlight the planted token's line:column (or highlights outside the file)", inp,
                              expected={"file": "m.mac", "line_col": want, "lines": n_lines}, observed={"header": re.sub(r"\x1b\[[0-9;]*m", "", head)[:120], "highlighted": got})
        finally:
            impl.drop_scratch(d)


def search(ctx, broken):
    if not ctx.thorough:
        ctx.thorough = True
        run(ctx)


def replay(ctx, path):
    with open(path, encoding="utf-8") as f:
        rep = json.load(f)
    v = rep.get("violation")
    if not v:
        print("replay file names a broken obligation, no failing input: re-run ./check C17")
        return 0
    print(json.dumps(v, indent=1, ensure_ascii=False)[:3000])
    return 0
