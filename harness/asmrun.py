"""Whole-program comparison: the real assembler against the Lean `asm` verb."""
import os

from . import impl
from .common import nl, parse_nl


def asm_request(files, nmain, bins=(), charset="bk"):
    """files: [(path, text)], the first nmain are linked; bins: [(path, bytes)]"""
    parts = ["asm", charset, str(nmain)]
    for p, t in files:
        parts.append("t:%s:%s" % (nl(map(ord, p)), nl(map(ord, t))))
    for p, b in bins:
        parts.append("b:%s:%s" % (nl(map(ord, p)), nl(b)))
    return " ".join(parts)


def parse_answer(a):
    t = a.split(" ")
    d = {"outcome": t[0]}
    for tok in t[1:]:
        if "=" in tok:
            k, v = tok.split("=", 1)
            d[k] = v
    d["code"] = bytes(parse_nl(d.get("code", "-")))
    d["base"] = int(d.get("base", "0"))
    d["diags"] = [] if d.get("diags", "-") == "-" else d["diags"].split(";")
    d["layout"] = [] if d.get("layout", "-") == "-" else [tuple(map(int, x.split("/"))) for x in d["layout"].split(";")]
    syms = []
    if d.get("syms", "-") != "-":
        for s in d["syms"].split(";"):
            f, n, v = s.split("/")
            syms.append((f, "".join(chr(int(c)) for c in n.split(".")) if n != "-" else "", int(v)))
    d["syms"] = syms
    d["keys"] = [] if d.get("keys", "-") == "-" else ["".join(chr(int(c)) for c in k.split(".")) if k != "-" else "" for k in d["keys"].split(";")]
    return d


def impl_diags(r, files):
    idx = {p: i for i, (p, _t) in enumerate(files)}
    out = set()
    for sev, ident, locs in r.diags:
        fn, s, e, _ = locs[0]
        out.add("%s:%s:%s:%s:%s" % (sev, ident, idx.get(fn, "?"), s, e))
    return sorted(out)


def compare(files, nmain, bins=(), charset="bk", driver=None, answer=None, with_positions=True):
    """returns (agree: bool, description, impl result, model answer dict)"""
    d = impl.scratch_dir() if False else None
    for p, b in bins:
        os.makedirs(os.path.dirname(p), exist_ok=True)
        with open(p, "wb") as f:
            f.write(b)
    for p, t in files[nmain:]:
        os.makedirs(os.path.dirname(p), exist_ok=True)
        with open(p, "w", encoding="utf-8") as f:
            f.write(t)
    r = impl.assemble(files[:nmain], charset=charset, want_symbols=True)
    if answer is None:
        answer = driver.ask([asm_request(files, nmain, bins, charset)])[0]
    m = parse_answer(answer)
    if m["outcome"] == "unsupported":
        return None, "unsupported: " + m.get("note", ""), r, m
    problems = []
    if m["outcome"] == "ok":
        if r.outcome != "ok":
            problems.append("outcome %s vs model ok" % r.outcome)
        else:
            if r.base != m["base"]:
                problems.append("base %s vs %s" % (r.base, m["base"]))
            if r.code != m["code"]:
                problems.append("image differs")
    elif m["outcome"] == "failed":
        if r.outcome != "failed":
            problems.append("outcome %s vs model failed" % r.outcome)
    elif m["outcome"] in ("crash", "cycle"):
        if r.outcome not in ("crash", "hang"):
            problems.append("outcome %s vs model %s" % (r.outcome, m["outcome"]))
    idg = impl_diags(r, files)
    mdg = m["diags"]
    if not with_positions:
        idg = sorted({":".join(x.split(":")[:2]) for x in idg})
        mdg = sorted({":".join(x.split(":")[:2]) for x in mdg})
    aborted = "aborted" in m.get("note", "") or "critical" in m.get("note", "") or "link_base" in m.get("note", "")
    if r.outcome in ("ok", "failed") and m["outcome"] in ("ok", "failed"):
        if aborted:
            # evaluation order decides which reports precede an abort: require only that the model's
            # error reports were all made by the implementation too
            if not set(x for x in mdg if not x.startswith("warning")) <= set(idg):
                problems.append("diagnostics before abort: model %s, impl %s" % (mdg, idg))
        elif idg != mdg:
            problems.append("diagnostics: model %s, impl %s" % (mdg, idg))
    return (not problems), "; ".join(problems), r, m
