"""deferred.Deferred (memoised thunks: remembered values, remembered give-ups per readiness
epoch) and deferred.Promise against Model/Thunk.lean (verb `thunk`) and against the engine
without memory: random DAGs of thunks over promises, speculative waits (`with try_compute:`)
interleaved with settlements in random order."""


def _gen(rng):
    npro = rng.randint(1, 5)
    nth = rng.randint(1, 7)

    def expr(j, depth):
        c = rng.random()
        if depth == 0 or c < 0.3:
            k = rng.random()
            if k < 0.3:
                return ("l", rng.randint(-9, 9))
            if k < 0.65 or j + 1 >= nth:
                return ("p", rng.randrange(npro))
            return ("t", rng.randrange(j + 1, nth))       # only later thunks: no cycles
        return ("+", expr(j, depth - 1), expr(j, depth - 1))
    bodies = [expr(j, rng.randint(0, 3)) for j in range(nth)]
    ops = []
    unsettled = list(range(npro))
    rng.shuffle(unsettled)
    for _ in range(rng.randint(2, 14)):
        if unsettled and rng.random() < 0.35:
            ops.append(("S", unsettled.pop(), rng.randint(-20, 20)))
        else:
            ops.append(("W", expr(-1, rng.randint(0, 2)) if rng.random() < 0.3 else ("t", rng.randrange(nth))))
    ops.append(("W", ("t", 0)))
    return npro, bodies, ops


def _rpn(e):
    if e[0] == "l":
        return "l%d" % e[1]
    if e[0] == "p":
        return "p%d" % e[1]
    if e[0] == "t":
        return "t%d" % e[1]
    return _rpn(e[1]) + " " + _rpn(e[2]) + " +"


def _plain(e, bodies, pv):
    """the engine without memory: a number, or None when some promise it needs is unsettled (left to right)"""
    if e[0] == "l":
        return e[1]
    if e[0] == "p":
        return pv.get(e[1])
    if e[0] == "t":
        return _plain(bodies[e[1]], bodies, pv)
    a = _plain(e[1], bodies, pv)
    if a is None:
        return None
    b = _plain(e[2], bodies, pv)
    return None if b is None else a + b


def _run_impl(npro, bodies, ops):
    from pdpy11 import deferred as D
    from . import internals
    P = [D.Promise[int]("q%d" % i) for i in range(npro)]
    T = []

    def ev(e):
        if e[0] == "l":
            return e[1]
        if e[0] == "p":
            return D.wait(P[e[1]])
        if e[0] == "t":
            return D.wait(T[e[1]])
        return ev(e[1]) + ev(e[2])
    for b in bodies:
        T.append(D.Deferred(int, (lambda b=b: ev(b))))
    out, answers = [], []
    for op in ops:
        if op[0] == "S":
            P[op[1]].settle(op[2])
            continue
        res = None
        with D.try_compute:
            res = ev(op[1])
        mem = " ".join(("v%d" % m[1]) if m[0] == "v" else m[0] for m in (internals.thunk_memory(D, t) for t in T))
        out.append(("not-ready" if res is None else "value %d" % res) + " [" + mem + "]")
        answers.append(res)
    return " | ".join(out), answers


def thunk_stream(ctx, rng, n):
    from pdpy11 import deferred as D
    from . import internals
    try:
        depth0 = internals.try_depth(D)
        internals.awaiting_stack(D)
    except internals.TieBroken as tb:
        ctx.disagree("tie to deferred.py internals", {"missing": str(tb)}, "try_compute.depth / Awaiting.awaiting_stack", "not found")
        return
    reqs, jobs = [], []
    for _ in range(n):
        npro, bodies, ops = _gen(rng)
        script = "%d ; " % npro + " ; ".join("T " + _rpn(b) for b in bodies) + " ; " + " ; ".join(
            ("S %d %d" % (o[1], o[2])) if o[0] == "S" else "W " + _rpn(o[1]) for o in ops)
        inp = {"script": script}
        ctx.case(("thunk", script))
        ctx.count("thunk-scripts")
        try:
            got, answers = _run_impl(npro, bodies, ops)
        except internals.TieBroken as tb:
            ctx.disagree("tie to deferred.py internals (the two memories of a thunk)", {"missing": str(tb)}, "settled / value / not_ready_epoch", "not found")
            return
        except Exception as e:  # noqa: BLE001
            ctx.violation("Deferred / Promise raised on a legal script of waits and settlements", inp, expected="answers", observed=repr(e)[:300])
            internals.set_try_depth(D, depth0)
            del internals.awaiting_stack(D)[:]
            continue
        # the engine without memory, on the promises as they are at each wait
        pv, ai = {}, 0
        for op in ops:
            if op[0] == "S":
                pv[op[1]] = op[2]
                continue
            want = _plain(op[1], bodies, pv)
            ctx.count("thunk-waits")
            ctx.count("thunk-waits answered with a number", want is not None)
            if answers[ai] != want:
                ctx.violation("a speculative wait answered differently from the engine without memory (a remembered value or a remembered "
                              "give-up is wrong)", dict(inp, wait=_rpn(op[1]), settled=dict(pv)), expected=want, observed=answers[ai])
            ai += 1
        reqs.append("thunk " + script)
        jobs.append((inp, got))
    for (inp, got), a in zip(jobs, ctx.driver.ask(reqs)):
        if a != got:
            ctx.disagree("Model.Thunk (Deferred._wait under try_compute: remembered values and give-ups)", inp, a, got)


# ---- graphs that may be cyclic: deferred.Awaiting (the stack of values being computed) -------------

def _gen_cyclic(rng):
    npro = rng.randint(1, 4)
    nth = rng.randint(1, 6)
    back = rng.choice([0.15, 0.4, 0.8])

    def expr(j, depth):
        c = rng.random()
        if depth == 0 or c < 0.35:
            k = rng.random()
            if k < 0.25:
                return ("l", rng.randint(-9, 9))
            if k < 0.55:
                return ("p", rng.randrange(npro))
            if j >= 0 and rng.random() >= back and j + 1 < nth:
                return ("t", rng.randrange(j + 1, nth))
            return ("t", rng.randrange(nth))                # any thunk: itself, an earlier one, a later one
        return ("+", expr(j, depth - 1), expr(j, depth - 1))
    bodies = [expr(j, rng.randint(0, 3)) for j in range(nth)]
    ops = []
    unsettled = list(range(npro))
    rng.shuffle(unsettled)
    for _ in range(rng.randint(2, 12)):
        if unsettled and rng.random() < 0.35:
            ops.append(("S", unsettled.pop(), rng.randint(-20, 20)))
        else:
            ops.append(("W", expr(-1, rng.randint(0, 2)) if rng.random() < 0.3 else ("t", rng.randrange(nth))))
    ops.append(("W", ("t", 0)))
    return npro, bodies, ops


def _plain_aw(e, bodies, pv, stack):
    """the engine with the awaiting stack and no memory: a number, 'not-ready' or 'cycle' (left to right)"""
    if e[0] == "l":
        return e[1]
    if e[0] == "p":
        return pv.get(e[1], "not-ready")
    if e[0] == "t":
        if e[1] in stack:
            return "cycle"
        return _plain_aw(bodies[e[1]], bodies, pv, stack + (e[1],))
    a = _plain_aw(e[1], bodies, pv, stack)
    if isinstance(a, str):
        return a
    b = _plain_aw(e[2], bodies, pv, stack)
    return b if isinstance(b, str) else a + b


def _run_impl_aw(npro, bodies, ops):
    from pdpy11 import deferred as D
    from . import internals
    P = [D.Promise[int]("q%d" % i) for i in range(npro)]
    T = []

    def ev(e):
        if e[0] == "l":
            return e[1]
        if e[0] == "p":
            return D.wait(P[e[1]])
        if e[0] == "t":
            return D.wait(T[e[1]])
        return ev(e[1]) + ev(e[2])
    for b in bodies:
        T.append(D.Deferred(int, (lambda b=b: ev(b))))
    out, answers = [], []
    for op in ops:
        if op[0] == "S":
            P[op[1]].settle(op[2])
            continue
        res = None
        with D.try_compute:
            try:
                res = ev(op[1])
            except D.DeferredCycle:
                res = "cycle"
            except D.NotReadyError:
                res = "not-ready"
        if internals.awaiting_stack(D):
            raise AssertionError("the awaiting stack is not empty after a wait: %r" % (internals.awaiting_stack(D),))
        mem = " ".join(("v%d" % m[1]) if m[0] == "v" else m[0] for m in (internals.thunk_memory(D, t) for t in T))
        out.append((res if isinstance(res, str) else "value %d" % res) + " [" + mem + "]")
        answers.append(res)
    return " | ".join(out), answers


def await_stream(ctx, rng, n):
    """cyclic graphs: the real Awaiting/Deferred against Model.Await.evalAwMemo (verb `await`), and against the engine
    with a stack and no memory (value level: a number is never confused with 'no answer', and the numbers agree)"""
    from pdpy11 import deferred as D
    from . import internals
    try:
        depth0 = internals.try_depth(D)
        internals.awaiting_stack(D)
    except internals.TieBroken as tb:
        ctx.disagree("tie to deferred.py internals", {"missing": str(tb)}, "try_compute.depth / Awaiting.awaiting_stack", "not found")
        return
    reqs, jobs = [], []
    for _ in range(n):
        npro, bodies, ops = _gen_cyclic(rng)
        script = "%d ; " % npro + " ; ".join("T " + _rpn(b) for b in bodies) + " ; " + " ; ".join(
            ("S %d %d" % (o[1], o[2])) if o[0] == "S" else "W " + _rpn(o[1]) for o in ops)
        inp = {"script": script}
        ctx.case(("await", script))
        ctx.count("await-scripts")
        try:
            got, answers = _run_impl_aw(npro, bodies, ops)
        except internals.TieBroken as tb:
            ctx.disagree("tie to deferred.py internals (the two memories of a thunk)", {"missing": str(tb)}, "settled / value / not_ready_epoch", "not found")
            return
        except RecursionError as e:
            ctx.violation("a wait on a cyclic graph of values did not end (the awaiting stack did not stop it)", inp, expected="an answer",
                          observed=repr(e)[:200])
            internals.set_try_depth(D, depth0)
            del internals.awaiting_stack(D)[:]
            continue
        except Exception as e:  # noqa: BLE001
            ctx.violation("Deferred / Promise / Awaiting raised on a script of waits and settlements", inp, expected="answers", observed=repr(e)[:300])
            internals.set_try_depth(D, depth0)
            del internals.awaiting_stack(D)[:]
            continue
        pv, ai = {}, 0
        for op in ops:
            if op[0] == "S":
                pv[op[1]] = op[2]
                continue
            want = _plain_aw(op[1], bodies, pv, ())
            ctx.count("await-waits")
            ctx.count("await-waits answered 'cycle'", want == "cycle")
            ctx.count("await-waits answered with a number", not isinstance(want, str))
            have = answers[ai]
            if isinstance(want, str) != isinstance(have, str) or (not isinstance(want, str) and want != have):
                ctx.violation("a wait on a graph with cycles answered differently from the engine without memory (a number where there is "
                              "none, none where there is one, or another number)", dict(inp, wait=_rpn(op[1]), settled=dict(pv)),
                              expected=want, observed=have)
            elif want != have:
                ctx.count("await-waits where the code says 'cycle' and the memoryless engine 'not-ready' or the reverse")
            ai += 1
        reqs.append("await " + script)
        jobs.append((inp, got))
    for (inp, got), a in zip(jobs, ctx.driver.ask(reqs)):
        code_side = " | ".join(x.split(" plain=")[0] for x in a.split(" | "))
        if code_side != got:
            ctx.disagree("Model.Await (BaseDeferred.wait / Awaiting around Deferred._wait under try_compute)", inp, code_side, got)
        for x in a.split(" | "):
            if " plain=" in x and x.split(" [")[0] != x.split(" plain=")[1]:
                ctx.count("model: evalAwMemo and evalAw answer differently (cycle against not-ready)")
