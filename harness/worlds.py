"""Placement worlds: programs of 1-3 linked files with nested `.include`s in which every
statement has a size the generator knows, so that the address of every label and of every
instruction is known by construction (no symbol table, no model needed).  Instructions and
data words refer to labels in the same file, in another linked file, in the including file
and in an included file, before and after the reference.  Used by C01 (the independent
decoder recovers operation and operand values), C04 (the processor reaches the named target),
C02 (labels are where the bytes are) and C09.

A world: {"files": [(name, text)], "main": n (how many are linked), "base": b,
          "labels": {name: address}, "probes": [probe]}
A probe: {"addr": a, "src": text, "decode": "mov 2 rel:12 reg:0" | None, "words": [..] | None,
          "rel": [(ext_word_address, target, deferred)], "branch": target | None}"""
import os

BRANCHES = ["br", "bne", "beq", "bpl", "bmi", "bvc", "bvs", "bge", "blt", "bgt", "ble", "bhi", "blos"]


class _File:
    def __init__(self, name):
        self.name = name
        self.items = []       # ("pad", text, size) | ("label", name, exported) | ("probe", tmpl) | ("include", file)


def gen_world(rng, max_files=3, allow_include=True, nprobes=(3, 10), plain_prefix=0.0):
    nmain = rng.choice([1, 1, 2, 3][:max_files + 1])
    files = [_File("f%d.mac" % i) for i in range(nmain)]
    incs = []
    if allow_include:
        for k in range(rng.choice([0, 1, 1, 2, 3])):
            f = _File("inc%d.mac" % k)
            # included from a main file or from an earlier include (nesting)
            host = rng.choice(files + incs)
            host.items.append(("include", f))
            incs.append(f)
    allf = files + incs
    # labels
    labels = []
    for f in allf:
        for _ in range(rng.randint(1, 4)):
            nm = "%s%s%d" % (rng.choice(["L", "lab", "T", "q.x"]), f.name[0] + f.name[1:].split(".")[0][-1], len(labels))
            if rng.random() < 0.15:
                # names that look like registers / accumulators / mnemonic fragments but are ordinary symbols
                cand = rng.choice(["f0", "f1", "f2", "f3", "f4", "f5", "f6", "ac6", "ac7", "r8", "r9", "r10", "sp1", "pc2", "fp", "a0", "x", "f1x", "R8", "F2"])
                if cand.lower() not in {n.lower() for n, _ in labels}:
                    nm = cand
            labels.append((nm, f))
            f.items.append(("label", nm))
    # shadowing: a later unit's own (private) label carries a name that the first linked file exports as something else;
    # inside that unit the name means its own label, wherever the reference stands
    shadow = {}           # name -> owning file
    if len(allf) > 1 and rng.random() < 0.35:
        cands = [(nm, f) for nm, f in labels if f is not files[0]]
        for nm, f in rng.sample(cands, min(len(cands), rng.randint(1, 2))):
            shadow[nm] = f
            files[0].items.append(("xdef", nm, rng.choice(["const", "label"])))
    # equates: a name for an address plus a number, defined anywhere (before or after the label, in any file)
    aliases = []
    for _ in range(rng.choice([0, 1, 2, 3])):
        tgt, tf = rng.choice([x for x in labels if x[0] not in shadow])
        f = rng.choice(allf)
        nm = "EQ%d%s" % (len(aliases), rng.choice(["", "x", ".a"]))
        k = rng.choice([0, 2, 4, -2, 10])
        aliases.append((nm, f, tgt, k))
        f.items.append(("alias", nm, tgt, k))
    # pads
    for f in allf:
        for _ in range(rng.randint(1, 5)):
            k = rng.choice(["blkb", "nop", "word", "blkw", "bare", "zero"])
            if k == "bare":
                # data directives without operands reserve one element
                t, n = rng.choice([(".word", 2), (".dword", 4), (".byte\n.byte", 2), (".word\n.word", 4)])
                f.items.append(("pad", t, n))
            elif k == "zero":
                # statements that occupy nothing
                f.items.append(("pad", rng.choice([".blkb 0", ".blkw 0", ".even", ".repeat 0 { nop }", ".repeat 3 { }", ".ascii //", "; only a comment", ""]), 0))
            elif k == "blkb":
                n = 2 * rng.randint(0, 40)
                f.items.append(("pad", ".blkb %d." % n, n))
            elif k == "blkw":
                n = rng.randint(0, 9)
                f.items.append(("pad", ".blkw %d." % n, 2 * n))
            elif k == "nop":
                n = rng.randint(1, 3)
                f.items.append(("pad", "\n".join(["nop"] * n), 2 * n))
            else:
                f.items.append(("pad", ".word %o, %o" % (rng.randrange(65536), rng.randrange(65536)), 4))
    # probes
    nprobe = rng.randint(*nprobes)
    hosts = allf
    if nmain > 1 and rng.random() < plain_prefix:
        # every linked file but the last is plain data: nothing in it waits for anything
        plain = set()

        def mark(f):
            plain.add(f.name)
            for it in f.items:
                if it[0] == "include":
                    mark(it[1])
        for f in files[:-1]:
            mark(f)
        hosts = [f for f in allf if f.name not in plain] or allf
    for _ in range(nprobe):
        f = rng.choice(hosts)
        # a quarter of the probes stand in a '.repeat' block: the same text compiled 2-4 times, each pass at its own address
        f.items.append(("probe", None, rng.randint(2, 4) if rng.random() < 0.25 else 1))
    # shuffle every file's items (includes stay where the shuffle puts them)
    for f in allf:
        rng.shuffle(f.items)
    # addresses: walk with includes inlined
    base = rng.choice([0o1000, 0o1000, rng.randrange(0, 0o1700) * 16, 0o40000, 0o157000])
    addr = {}
    probe_slots = []     # (file, index, address)
    order = []

    def walk(f, a):
        for i, it in enumerate(f.items):
            if it[0] == "label":
                addr[it[1]] = a
            elif it[0] == "xdef":
                pass
            elif it[0] == "pad":
                a += it[2]
            elif it[0] == "include":
                a = walk(it[1], a)
            elif it[0] == "probe":
                probe_slots.append((f, i, a, it[2]))
                a += PROBE_SIZE * it[2]
        return a
    a = base
    for f in files:
        a = walk(f, a)
    if a >= 65536 - 64:
        return None
    for nm, f, tgt, k in aliases:
        addr[nm] = addr[tgt] + k
    labels = labels + [(nm, f) for nm, f, _t, _k in aliases]
    # which labels are used from another file -> must be exported
    exported = set()
    file_of = dict(labels)
    for nm, f, tgt, k in aliases:
        if file_of[tgt] is not f:
            exported.add(tgt)
    probes = []
    all_labels = labels
    for f, i, pa, reps in probe_slots:
        tmpl = rng.choice(TEMPLATES)
        labels = [x for x in all_labels if x[0] not in shadow or shadow[x[0]] is f]
        own_shadowed = [x for x in labels if x[0] in shadow]
        t1 = rng.choice(own_shadowed) if own_shadowed and rng.random() < 0.5 else rng.choice(labels)
        t2 = rng.choice(labels)
        if tmpl[0] == "branch":
            near = [(nm, ff) for nm, ff in labels if all(-256 <= addr[nm] - (pa + PROBE_SIZE * k + 2) <= 254 for k in range(reps))]
            if not near:
                tmpl = rng.choice([t for t in TEMPLATES if t[0] != "branch"])
            else:
                t1 = rng.choice(near)
        state = rng.getstate()
        passes = []
        for k in range(reps):
            rng.setstate(state)          # every pass is the same text
            passes.append(_make_probe(rng, tmpl, pa + PROBE_SIZE * k, t1[0], t2[0], addr))
        for nm in passes[0]["uses"]:
            if file_of[nm] is not f:
                exported.add(nm)
        for q in passes:
            q.pop("uses")
            q["repeat"] = reps
        assert all(q["src"] == passes[0]["src"] for q in passes)
        f.items[i] = ("probe", passes[0], reps)
        probes += passes
    labels = all_labels
    # some labels are exported although nobody needs it
    for nm, _ in labels:
        if rng.random() < 0.15:
            exported.add(nm)
    alias_names = {a[0] for a in aliases}
    exported -= set(shadow)
    texts = []
    for f in allf:
        lines = []
        for it in f.items:
            if it[0] == "label":
                lines.append("%s%s" % (it[1], "::" if it[1] in exported else ":"))
            elif it[0] == "xdef":
                lines.append("%s == %o" % (it[1], 0o40000 + 2 * len(it[1])) if it[2] == "const" else "%s::" % it[1])
            elif it[0] == "alias":
                e = it[2] if it[3] == 0 else "%s %s %o" % (it[2], "+" if it[3] > 0 else "-", abs(it[3]))
                lines.append("%s %s %s" % (it[1], "==" if it[1] in exported else "=", e))
            elif it[0] == "pad":
                lines.append(it[1])
            elif it[0] == "include":
                lines.append('.include "%s"' % it[1].name)
            elif it[2] == 1:
                lines.append(it[1]["src"])
            else:
                lines.append(".repeat %d {\n%s\n}" % (it[2], it[1]["src"]))
        texts.append((f.name, "\n".join(lines) + "\n"))
    return {"files": texts, "main": nmain, "base": base, "labels": addr, "probes": probes, "shadowed": sorted(shadow)}


PROBE_SIZE = 6       # every probe is padded with nops to six bytes

TEMPLATES = [
    ("branch",), ("branch",), ("jmp",), ("jsr",), ("movrel",), ("movto",), ("tstdef",), ("imm",), ("abs",), ("cmp2",), ("inc",),
    ("word",), ("worddiff",), ("wordplus",), ("movrelplus",), ("idx",), ("idxdef",), ("idxdefneg",),
    ("fpload",), ("fpstore",), ("fpmul",),
]


def _make_probe(rng, tmpl, pa, l1, l2, addr):
    t1, t2 = addr[l1], addr[l2]
    k = tmpl[0]

    def rel(xa, t):
        return (t - xa - 2) & 0xFFFF
    p = {"addr": pa, "rel": [], "branch": None, "words": None, "decode": None, "uses": [l1], "abs_words": []}
    r = rng.randrange(6)
    if k == "branch":
        mn = rng.choice(BRANCHES)
        p["src"], size = "%s %s" % (mn, l1), 2
        p["decode"] = "%s 1 disp:%d" % (mn, (t1 - pa - 2) // 2)
        p["branch"] = t1
    elif k == "jmp":
        p["src"], size = "jmp %s" % l1, 4
        p["decode"] = "jmp 2 rel:%d" % rel(pa + 2, t1)
        p["rel"] = [(pa + 2, t1, False)]
    elif k == "jsr":
        p["src"], size = "jsr pc, %s" % l1, 4
        p["decode"] = "jsr 2 reg:7 rel:%d" % rel(pa + 2, t1)
        p["rel"] = [(pa + 2, t1, False)]
    elif k == "movrel":
        p["src"], size = "mov %s, r%d" % (l1, r), 4
        p["decode"] = "mov 2 rel:%d reg:%d" % (rel(pa + 2, t1), r)
        p["rel"] = [(pa + 2, t1, False)]
    elif k == "movrelplus":
        d = rng.choice([2, 4, -2, 6])
        p["src"], size = "mov %s%s%o, r%d" % (l1, "+" if d > 0 else "-", abs(d), r), 4
        p["decode"] = "mov 2 rel:%d reg:%d" % (rel(pa + 2, t1 + d), r)
        p["rel"] = [(pa + 2, t1 + d, False)]
    elif k == "movto":
        p["src"], size = "mov r%d, %s" % (r, l1), 4
        p["decode"] = "mov 2 reg:%d rel:%d" % (r, rel(pa + 2, t1))
        p["rel"] = [(pa + 2, t1, False)]
    elif k == "tstdef":
        p["src"], size = "tst @%s" % l1, 4
        p["decode"] = "tst 2 reldef:%d" % rel(pa + 2, t1)
        p["rel"] = [(pa + 2, t1, True)]
    elif k == "inc":
        p["src"], size = "inc %s" % l1, 4
        p["decode"] = "inc 2 rel:%d" % rel(pa + 2, t1)
        p["rel"] = [(pa + 2, t1, False)]
    elif k == "imm":
        p["src"], size = "mov #%s, r%d" % (l1, r), 4
        p["decode"] = "mov 2 imm:%d reg:%d" % (t1 & 0xFFFF, r)
        p["abs_words"] = [1]
    elif k == "abs":
        p["src"], size = "mov @#%s, r%d" % (l1, r), 4
        p["decode"] = "mov 2 abs:%d reg:%d" % (t1 & 0xFFFF, r)
        p["abs_words"] = [1]
    elif k in ("idx", "idxdef", "idxdefneg"):
        rn = rng.randrange(6) if rng.random() < 0.75 else rng.choice([6, 7])
        # the displacement: the label alone, or an unbracketed expression of two or three levels around it
        a, b, c = rng.randrange(1, 6), rng.randrange(1, 5), rng.randrange(0, 9)
        disp, dval = rng.choice([
            (l1, t1), (l1, t1), ("%s+%o*%o" % (l1, a, b), t1 + a * b), ("%s-%o*%o" % (l1, a, b), t1 - a * b), ("%o*%o+%s" % (a, b, l1), a * b + t1),
            ("%s+%o+%o" % (l1, a, c), t1 + a + c), ("%s+%o*%o-%o" % (l1, a, b, c), t1 + a * b - c), ("%s+<%o*%o>" % (l1, a, b), t1 + a * b),
            ("%s+%o/%o" % (l1, a * b, b), t1 + a)])
        rname = "r%d" % rn if rn < 6 or rng.random() < 0.4 else rng.choice([["sp", "SP", "%6"], ["pc", "PC", "%7", "Pc"]][rn - 6])
        if k == "idx":
            p["src"], mode, val = "mov %s(%s), r%d" % (disp, rname, r), 6, dval
        elif k == "idxdef":
            p["src"], mode, val = "mov @%s(%s), r%d" % (disp, rname, r), 7, dval
        else:
            p["src"], mode, val = "clr @-%s(%s)" % (l1, rname), 7, -t1
        size = 4

        def dop(m, reg, x):
            # an index on the program counter is what a decoder prints as a relative operand with that displacement
            if reg == 7:
                return ("rel:%d" if m == 6 else "reldef:%d") % (x & 0xFFFF)
            return "idx:%d:%d:%d" % (m, reg, x & 0xFFFF)
        if k == "idxdefneg":
            p["decode"] = "clr 2 " + dop(mode, rn, val)
            p["neg_words"] = [1]          # holds minus an address: moves by minus the difference of the bases
        else:
            p["decode"] = "mov 2 %s reg:%d" % (dop(mode, rn, val), r)
            p["abs_words"] = [1]
    elif k in ("fpload", "fpstore", "fpmul"):
        ac = rng.randrange(4)
        size = 4
        if k == "fpload":
            mn = rng.choice(["ldf", "ldd"])
            p["src"] = "%s %s, ac%d" % (mn, l1, ac)
            p["decode"] = "ldf 2 rel:%d ac:%d" % (rel(pa + 2, t1), ac)
        elif k == "fpstore":
            mn = rng.choice(["stf", "std"])
            p["src"] = "%s ac%d, %s" % (mn, ac, l1)
            p["decode"] = "stf 2 ac:%d rel:%d" % (ac, rel(pa + 2, t1))
        else:
            mn = rng.choice(["mulf", "muld"])
            p["src"] = "%s %s, ac%d" % (mn, l1, ac)
            p["decode"] = "mulf 2 rel:%d ac:%d" % (rel(pa + 2, t1), ac)
        p["rel"] = [(pa + 2, t1, False)]
    elif k == "cmp2":
        p["src"], size = "cmp %s, %s" % (l1, l2), 6
        p["decode"] = "cmp 3 rel:%d rel:%d" % (rel(pa + 2, t1), rel(pa + 4, t2))
        p["rel"] = [(pa + 2, t1, False), (pa + 4, t2, False)]
        p["uses"].append(l2)
    elif k == "word":
        p["src"], size = ".word %s" % l1, 2
        p["words"] = [t1 & 0xFFFF]
        p["abs_words"] = [0]
    elif k == "wordplus":
        d = rng.choice([2, 10, -4])
        p["src"], size = ".word %s%s%o" % (l1, "+" if d > 0 else "-", abs(d)), 2
        p["words"] = [(t1 + d) & 0xFFFF]
        p["abs_words"] = [0]
    else:
        p["src"], size = ".word %s-%s" % (l1, l2), 2
        p["words"] = [(t1 - t2) & 0xFFFF]
        p["uses"].append(l2)
    p["size"] = size
    p["src"] += "".join("\nnop" for _ in range((PROBE_SIZE - size) // 2))
    return p


def assemble_world(impl, w, want_symbols=False, base=None):
    """writes the files to a scratch directory and assembles the linked ones"""
    if base is not None:
        w = dict(w, base=base)
    d = impl.scratch_dir()
    try:
        for name, text in w["files"]:
            with open(os.path.join(d, name), "w", encoding="utf-8") as f:
                f.write(text)
        srcs = []
        for i, (name, text) in enumerate(w["files"][:w["main"]]):
            srcs.append((os.path.join(d, name), (".link %o\n" % w["base"] if i == 0 and w["base"] != 0o1000 else "") + text))
        return impl.assemble(srcs, want_symbols=want_symbols)
    finally:
        impl.drop_scratch(d)


def words_at(w, r, p):
    o = p["addr"] - w["base"]
    n = p["size"] // 2
    return [r.code[o + 2 * i] | (r.code[o + 2 * i + 1] << 8) for i in range(n)]


def stream_decode(ctx, rng, n, impl):
    """C01: every probe of every world is read back by the independent decoder"""
    jobs, reqs = [], []
    for _ in range(n):
        w = gen_world(rng)
        if not w:
            continue
        r = assemble_world(impl, w)
        inp = {"files": w["files"], "linked": w["main"], "base": w["base"]}
        ctx.case(("world", repr(w["files"])), nontrivial=len(w["files"]) > 1)
        ctx.count("placement-worlds")
        ctx.count("placement-worlds-with-include", len(w["files"]) > w["main"])
        if r.outcome != "ok":
            ctx.violation("a program of fixed-size statements and label references was not assembled", inp, expected="an image", observed=r.summary())
            continue
        if r.base != w["base"] or len(r.code) < max(p["addr"] + PROBE_SIZE for p in w["probes"]) - w["base"]:
            ctx.violation("the image of a placement world has the wrong base or is too short", inp, expected=w["base"], observed=r.summary())
            continue
        for p in w["probes"]:
            ws = words_at(w, r, p)
            ctx.count("placement-probes")
            if p["decode"]:
                reqs.append("dec " + ",".join(map(str, ws)))
                jobs.append((inp, p, ws))
            elif ws != p["words"]:
                ctx.violation("a data word naming a label does not hold the label's address", dict(inp, statement=p["src"], address=p["addr"]),
                              expected=p["words"], observed=ws)
    for (inp, p, ws), a in zip(jobs, ctx.driver.ask(reqs)):
        if a != p["decode"]:
            ctx.violation("the independent PDP-11 decoder does not recover the instruction (label operand across files / includes)",
                          dict(inp, statement=p["src"].split("\n")[0], address=p["addr"], words=ws), expected=p["decode"], observed=a)


def stream_reach(ctx, rng, n, impl):
    """C04: the processor, following the emitted displacement, arrives at the label the source names"""
    jobs, reqs = [], []
    for _ in range(n):
        w = gen_world(rng)
        if not w:
            continue
        r = assemble_world(impl, w)
        inp = {"files": w["files"], "linked": w["main"], "base": w["base"]}
        ctx.case(("world", repr(w["files"])), nontrivial=len(w["files"]) > 1)
        ctx.count("placement-worlds")
        ctx.count("placement-worlds-with-include", len(w["files"]) > w["main"])
        ctx.count("placement-worlds with a shadowed exported name", bool(w["shadowed"]))
        if r.outcome != "ok" or r.base != w["base"]:
            ctx.violation("a program whose branches are all within reach was not assembled at its base", inp, expected="an image", observed=r.summary())
            continue
        for p in w["probes"]:
            ws = words_at(w, r, p)
            if p["branch"] is not None:
                reqs.append("ea br %d %d" % (p["addr"], ws[0]))
                jobs.append((inp, p, ws, p["branch"]))
                ctx.count("placement-branches")
            for j, (xa, t, _d) in enumerate(p["rel"]):
                reqs.append("ea rel %d %d" % (xa, ws[1 + j]))
                jobs.append((inp, p, ws, t % 65536))
                ctx.count("placement-relative-operands")
    for (inp, p, ws, t), a in zip(jobs, ctx.driver.ask(reqs)):
        if int(a) != t:
            ctx.violation("the processor would reach a different address than the label the source names (across files / includes)",
                          dict(inp, statement=p["src"].split("\n")[0], address=p["addr"], words=ws), expected=t, observed=int(a))


def stream_layout(ctx, rng, n, impl, trace_invariant=None):
    """C02: every label has the address of the byte that follows it, in every file and include of the world"""
    for _ in range(n):
        w = gen_world(rng, plain_prefix=0.5)
        if not w:
            continue
        r = assemble_world(impl, w, want_symbols=True)
        inp = {"files": w["files"], "linked": w["main"], "base": w["base"]}
        ctx.case(("world", repr(w["files"])), nontrivial=len(w["files"]) > 1)
        ctx.count("placement-worlds")
        ctx.count("placement-worlds-%d-linked" % w["main"])
        if r.outcome != "ok" or r.base != w["base"]:
            ctx.violation("a program of fixed-size statements was not assembled at its base", inp, expected=w["base"], observed=r.summary())
            continue
        got = {}
        for name, v in r.symbols.items():
            nm = name[9:].partition(".")[2] if name.startswith(".internal") else name
            got.setdefault(nm.lower(), set()).add(v)
        for nm, a in w["labels"].items():
            ctx.count("placement-labels")
            if nm in w["shadowed"]:
                # the name is also exported by the first file as something else: the unit's own label must be among them
                ok = a in got.get(nm.lower(), set())
            else:
                ok = got.get(nm.lower()) == {a}
            if not ok:
                ctx.violation("a label does not have the address of the byte that follows it", dict(inp, label=nm),
                              expected=a, observed=sorted(got.get(nm.lower(), [])))
        for p in w["probes"]:
            if p["words"] is not None and words_at(w, r, p) != p["words"]:
                ctx.violation("a data word naming a label does not hold the address of the byte after the label",
                              dict(inp, statement=p["src"], address=p["addr"]), expected=p["words"], observed=words_at(w, r, p))
        if trace_invariant is not None and r.trace:
            trace_invariant(ctx, r, dict(inp, main_paths=[]), {})


def stream_relocate(ctx, rng, n, impl):
    """C09: the same world at two bases: exactly the words that hold an absolute address (immediate and absolute label
    operands, data words naming a label) move, each by the difference of the bases; opcode words, branch and relative
    displacements, differences of labels and all data are identical"""
    for _ in range(n):
        w = gen_world(rng)
        if not w:
            continue
        b1 = w["base"]
        top = max(p["addr"] for p in w["probes"]) + 64 - b1
        b2 = rng.choice([0o1000, 0o2000, 0o40000, 0o100000, rng.randrange(0, (65536 - top - 64) // 2) * 2])
        if b2 == b1 or b2 + top >= 65536:
            continue
        r1 = assemble_world(impl, w)
        r2 = assemble_world(impl, w, base=b2)
        inp = {"files": w["files"], "linked": w["main"], "bases": [b1, b2]}
        ctx.case(("world2", repr(w["files"]), b2), nontrivial=True)
        ctx.count("relocated-worlds")
        ctx.count("relocated-worlds-with-include", len(w["files"]) > w["main"])
        if r1.outcome != "ok" or r2.outcome != "ok" or len(r1.code) != len(r2.code):
            ctx.violation("a world assembles at one base and not (or to another length) at the other", inp, expected="two images of one length",
                          observed=[r1.summary() if r1.outcome != "ok" else len(r1.code), r2.summary() if r2.outcome != "ok" else len(r2.code)])
            continue
        D = (b2 - b1) % 65536
        must_move = set()
        for p in w["probes"]:
            for k in p["abs_words"]:
                must_move.add(p["addr"] - b1 + 2 * k)
        neg_move = set()
        for p in w["probes"]:
            for k in p.get("neg_words", []):
                neg_move.add(p["addr"] - b1 + 2 * k)
        ctx.count("words that must move", len(must_move))
        for o in range(0, len(r1.code) - 1, 2):
            a = r1.code[o] | (r1.code[o + 1] << 8)
            b = r2.code[o] | (r2.code[o + 1] << 8)
            want = (a + D) % 65536 if o in must_move else ((a - D) % 65536 if o in neg_move else a)
            if b != want:
                ctx.violation("relocation: " + ("a word holding an absolute address did not move by the difference of the bases" if o in must_move
                                                else "a word that holds no absolute address changed with the base"),
                              dict(inp, offset=o), expected=want, observed=b)
                break
