"""deferred.LinearPolynomial against Model/Poly.lean (verb `poly`) and against plain integer
arithmetic: random scripts of constructor / + / * / - / settle / _substitute_known / wait()
over a handful of promises.  Used by C12 (the base cancels exactly when its coefficients sum to
zero), C03 and C09 (the value the lazy engine arrives at is the arithmetic value)."""
import json


def _gen_script(rng, big):
    nv = rng.randint(2, 6)
    ops, nregs = [], 0
    settled = set()
    sem = []          # python-side meaning of each register: (dict var -> coeff, const), kept by the harness itself
    known = {}        # var -> ("int", k) | ("var", j) | ("poly", (dict, const))

    def small():
        if big and rng.random() < 0.1:
            return rng.choice([1, -1]) * rng.randrange(1 << 60, 1 << 70)
        return rng.randint(-3, 3)

    ment = []         # the variables each register mentions *structurally* (a coefficient that cancels arithmetically may still be there:
    #                   `p0 - p0` after p0 := p1 is {p0: -1, p1: 1}), closed under the definitions settled so far
    defs_ment = {}    # var -> the variables its definition mentions

    def clos(vs):
        out, todo = set(), list(vs)
        while todo:
            v = todo.pop()
            if v in out:
                continue
            out.add(v)
            todo.extend(defs_ment.get(v, ()))
        return out

    def push(op, meaning):
        nonlocal nregs
        ops.append(op)
        sem.append(meaning)
        t = op.split()
        if t[0] == "V":
            m = {int(t[1])}
        elif t[0] == "L":
            m = {int(x) for x in t[2::2]}
        elif t[0] == "A":
            m = ment[int(t[1])] | ment[int(t[2])]
        elif t[0] in ("K", "M", "N"):
            m = set(ment[int(t[1])])
        elif t[0] in ("X", "PK"):
            m = {int(t[1])}
        elif t[0] in ("PA", "PS"):
            m = {int(t[1]), int(t[2])}
        elif t[0] in ("KP", "KS"):
            m = {int(t[2])}
        else:   # RA
            m = ment[int(t[1])] | {int(t[2])}
        ment.append(m)
        nregs += 1

    def padd(a, b):
        d = dict(a[0])
        for k, v in b[0].items():
            d[k] = d.get(k, 0) + v
        return (d, a[1] + b[1])

    def est_add(meaning, i):
        """what `poly + promise i` means for the harness's own bookkeeping (the promise stands for its variable)"""
        d = dict(meaning[0])
        d[i] = d.get(i, 0) + 1
        return (d, meaning[1])

    for _ in range(rng.randint(4, 22)):
        kind = rng.choice("VVLLAAAKMNSSQWWEPPP")
        if kind == "P":
            # arithmetic on the promises themselves (BaseDeferred.__add__/__radd__/__sub__/__rsub__/__mul__/__rmul__/__neg__)
            i, j, k = rng.randrange(nv), rng.randrange(nv), small()
            form = rng.choice(["X", "PA", "PS", "PK", "KP", "KS", "RA"])
            if form == "X":
                push("X %d %d" % (i, k), ({i: k}, 0))
            elif form == "PA":
                push("PA %d %d" % (i, j), est_add(est_add(({}, 0), i), j))
            elif form == "PS":
                push("PS %d %d" % (i, j), est_add(({j: -1}, 0), i))
            elif form == "PK":
                push("PK %d %d" % (i, k), est_add(({}, k), i))
            elif form == "KP":
                push("KP %d %d" % (k, i), est_add(({}, k), i))
            elif form == "KS":
                push("KS %d %d" % (k, i), ({i: -1}, k))
            elif nregs:
                r = rng.randrange(nregs)
                push("RA %d %d" % (r, i), est_add(sem[r], i))
            continue
        if kind == "V" or nregs == 0:
            i = rng.randrange(nv)
            push("V %d" % i, ({i: 1}, 0))
        elif kind == "L":
            pairs = [(rng.randrange(nv), small()) for _ in range(rng.randint(0, 6))]
            c = small()
            d = {}
            for v, a in pairs:
                d[v] = d.get(v, 0) + a
            push("L %d %s" % (c, " ".join("%d %d" % p for p in pairs)), (d, c))
        elif kind == "A":
            r, s = rng.randrange(nregs), rng.randrange(nregs)
            push("A %d %d" % (r, s), padd(sem[r], sem[s]))
        elif kind == "K":
            r, k = rng.randrange(nregs), small()
            push("K %d %d" % (r, k), (dict(sem[r][0]), sem[r][1] + k))
        elif kind == "M":
            r, k = rng.randrange(nregs), small()
            push("M %d %d" % (r, k), ({v: a * k for v, a in sem[r][0].items()}, sem[r][1] * k))
        elif kind == "N":
            r = rng.randrange(nregs)
            push("N %d" % r, ({v: -a for v, a in sem[r][0].items()}, -sem[r][1]))
        elif kind == "S":
            free = [i for i in range(nv) if i not in settled]
            if not free:
                continue
            i = rng.choice(free)
            how = rng.choice(["int", "int", "var", "poly", "poly"])
            if how == "var" and i + 1 < nv:
                j = rng.randrange(i + 1, nv)
                ops.append("S %d var %d" % (i, j))
                known[i] = ("var", j)
                defs_ment[i] = {j}
            elif how == "poly":
                # a register that mentions only later variables (no cycles)
                ok = [r for r in range(nregs) if all(v > i for v in clos(ment[r]))]
                if not ok:
                    continue
                r = rng.choice(ok)
                defs_ment[i] = set(ment[r])
                ops.append("S %d poly %d" % (i, r))
                known[i] = ("poly", ({v: a for v, a in sem[r][0].items() if a != 0}, sem[r][1]))
            else:
                k = small()
                ops.append("S %d int %d" % (i, k))
                known[i] = ("int", k)
            settled.add(i)
        else:
            r = rng.randrange(nregs)
            ops.append("%s %d" % (kind, r))
    # always end with a wait on the last register
    if nregs:
        ops.append("W %d" % (nregs - 1))
    return nv, ops, sem, known


def _gen_chain(rng, big):
    """structured scripts: every variable but the last few is defined through later ones (by a polynomial with
    coefficients other than 1 and a constant, by another variable, or by a number), the target mentions the
    early variables with coefficients other than 1, definitions are settled before or after the target is
    built and queried: several levels of substitution in `_substitute_known` and in the loop of `_wait`"""
    nv = rng.randint(3, 7)
    ops, sem, known = [], [], {}
    nregs = 0

    def coef():
        if big and rng.random() < 0.05:
            return rng.choice([1, -1]) * rng.randrange(1 << 60, 1 << 70)
        return rng.choice([-3, -2, -1, 1, 2, 3, 5])

    def lit(pairs, c):
        nonlocal nregs
        d = {}
        for v, a in pairs:
            d[v] = d.get(v, 0) + a
        ops.append("L %d %s" % (c, " ".join("%d %d" % p for p in pairs)))
        sem.append((d, c))
        nregs += 1
        return nregs - 1

    nfree = rng.choice([0, 0, 1, 2])
    defs = []
    for i in range(nv - max(nfree, 1) if nfree else nv):
        later = list(range(i + 1, nv))
        how = rng.choice(["poly", "poly", "poly", "var", "int"]) if later else "int"
        if how == "poly":
            pairs = [(rng.choice(later), coef()) for _ in range(rng.randint(1, 3))]
            defs.append((i, "poly", pairs, rng.randint(-9, 9)))
        elif how == "var":
            defs.append((i, "var", rng.choice(later)))
        else:
            defs.append((i, "int", rng.randint(-9, 9)))
    rng.shuffle(defs)
    early = rng.randint(0, len(defs))

    def settle(d):
        if d[1] == "poly":
            r = lit(d[2], d[3])
            ops.append("S %d poly %d" % (d[0], r))
            known[d[0]] = ("poly", ({v: a for v, a in sem[r][0].items() if a != 0}, sem[r][1]))
        elif d[1] == "var":
            ops.append("S %d var %d" % (d[0], d[2]))
            known[d[0]] = ("var", d[2])
        else:
            ops.append("S %d int %d" % (d[0], d[2]))
            known[d[0]] = ("int", d[2])

    for d in defs[:early]:
        settle(d)
    target = lit([(rng.randrange(0, max(1, nv // 2)), coef()) for _ in range(rng.randint(1, 3))], rng.randint(-9, 9))
    for d in defs[early:]:
        if rng.random() < 0.3:
            ops.append("%s %d" % (rng.choice("QWE"), target))
        settle(d)
    for _ in range(rng.randint(1, 3)):
        ops.append("%s %d" % (rng.choice("QWWE"), target))
    ops.append("W %d" % target)
    return nv, ops, sem, known


def _run_impl(nv, ops):
    """the same script on the real classes"""
    from pdpy11 import deferred as D
    LP, Promise = D.LinearPolynomial, D.Promise
    P = [Promise[int]("p%d" % i) for i in range(nv)]
    index = {id(p): i for i, p in enumerate(P)}
    regs, out, waits = [], [], []

    def show(p):
        return " ".join("%d:%d" % (index[id(k)], v) for k, v in p.coeffs.items()) + " + %d" % p.constant_term

    for op in ops:
        t = op.split()
        if t[0] == "V":
            regs.append(LP[int]({P[int(t[1])]: 1}))
        elif t[0] == "L":
            vals = list(map(int, t[2:]))
            regs.append(LP[int]([(P[vals[i]], vals[i + 1]) for i in range(0, len(vals), 2)], int(t[1])))
        elif t[0] == "A":
            regs.append(regs[int(t[1])] + regs[int(t[2])])
        elif t[0] == "K":
            regs.append(regs[int(t[1])] + int(t[2]))
        elif t[0] == "M":
            regs.append(regs[int(t[1])] * int(t[2]))
        elif t[0] == "N":
            regs.append(-regs[int(t[1])])
        elif t[0] == "X":
            regs.append(P[int(t[1])] * int(t[2]) if len(regs) % 2 else int(t[2]) * P[int(t[1])])
        elif t[0] == "PA":
            regs.append(P[int(t[1])] + P[int(t[2])])
        elif t[0] == "PS":
            regs.append(P[int(t[1])] - P[int(t[2])])
        elif t[0] == "PK":
            regs.append(P[int(t[1])] + int(t[2]))
        elif t[0] == "KP":
            regs.append(int(t[1]) + P[int(t[2])])
        elif t[0] == "KS":
            regs.append(int(t[1]) - P[int(t[2])])
        elif t[0] == "RA":
            regs.append(regs[int(t[1])] + P[int(t[2])])
        elif t[0] == "S":
            i = int(t[1])
            if t[2] == "int":
                P[i].settle(int(t[3]))
            elif t[2] == "var":
                P[i].settle(P[int(t[3])])
            else:
                src = regs[int(t[3])]
                P[i].settle(LP[int](dict(src.coeffs), src.constant_term))
        elif t[0] == "Q":
            regs[int(t[1])]._substitute_known()
            out.append(show(regs[int(t[1])]))
        elif t[0] == "W":
            src = regs[int(t[1])]
            copy = LP[int](dict(src.coeffs), src.constant_term)
            res = None
            with D.try_compute:
                res = D.wait(copy)
            if res is None:
                out.append("not-ready")
                waits.append((int(t[1]), None))
            else:
                out.append("value %d" % res)
                waits.append((int(t[1]), res))
        elif t[0] == "E":
            e = regs[int(t[1])].get_current_best_estimate()
            out.append("int %d" % e if isinstance(e, int) else "poly " + show(e))
        if regs and not isinstance(regs[-1], LP):
            raise AssertionError("operation %r did not give a LinearPolynomial: %r" % (op, regs[-1]))
    return " | ".join(out), waits


def _arith(sem_r, known, free_vals, nv):
    """the arithmetic value of a register under the definitions and an assignment of the free variables"""
    memo = {}

    def val(v):
        if v in memo:
            return memo[v]
        k = known.get(v)
        if k is None:
            r = free_vals[v]
        elif k[0] == "int":
            r = k[1]
        elif k[0] == "var":
            r = val(k[1])
        else:
            r = sum(a * val(w) for w, a in k[1][0].items()) + k[1][1]
        memo[v] = r
        return r
    return sum(a * val(v) for v, a in sem_r[0].items()) + sem_r[1]


def poly_stream(ctx, rng, n, what="LinearPolynomial"):
    from pdpy11 import deferred as D
    from . import internals
    from . import impl as impl_mod
    try:
        depth0 = internals.try_depth(D)
    except internals.TieBroken as tb:
        ctx.disagree("tie to deferred.py internals", {"missing": str(tb)}, "try_compute.depth", "not found")
        return
    reqs, jobs = [], []
    for _ in range(n):
        nv, ops, sem, known = (_gen_chain if rng.random() < 0.5 else _gen_script)(rng, big=True)
        script = " ; ".join(ops)
        ctx.case(("poly", script), nontrivial=any(o[0] in "SQ" for o in ops))
        ctx.count("poly-scripts with arithmetic on bare promises", any(o.split()[0] in ("X", "PA", "PS", "PK", "KP", "KS", "RA") for o in ops))
        ctx.count("poly-scripts")
        inp = {"script": script, "variables": nv}
        try:
            with impl_mod.watchdog(30.0):
                got, waits = _run_impl(nv, ops)
        except impl_mod.Hang:
            ctx.violation("wait() on a linear polynomial did not end (no definition in the script mentions itself, directly or through others)",
                          inp, expected="a value or a give-up", observed="still running after 30 s")
            internals.set_try_depth(D, depth0)
            del internals.awaiting_stack(D)[:]
            continue
        except Exception as e:  # noqa: BLE001 - a crash of the engine on a legal script is a finding
            ctx.violation("LinearPolynomial raised on a legal operation script", inp, expected="a polynomial", observed=repr(e)[:300])
            internals.set_try_depth(D, depth0)
            continue
        # oracle on the implementation alone: a value returned by wait() is the arithmetic value, whatever the
        # variables nothing is known about are
        prefix_known = {}
        wi = 0
        # the definitions in force at each W are those settled before it; recompute per W
        for pos, op in enumerate(ops):
            t = op.split()
            if t[0] == "S":
                i = int(t[1])
                prefix_known[i] = known[i]
            elif t[0] == "W":
                r, res = waits[wi]
                wi += 1
                vals = []
                for trial in range(2):
                    free = {v: rng.randint(-50, 50) for v in range(nv)}
                    vals.append(_arith(sem[r], prefix_known, free, nv))
                if res is not None:
                    ctx.count("poly-values")
                    if any(v != res for v in vals):
                        ctx.violation("wait() on a linear polynomial returned a number that is not its arithmetic value",
                                      dict(inp, register=r, step=pos), expected=vals[0], observed=res)
                else:
                    ctx.count("poly-not-ready")
                    if not _mentions_free(sem[r], prefix_known, nv):
                        # promise chains deeper than one round of _wait substitutes: the engine retries later;
                        # not reachable from source programs (label addresses are one level), counted only
                        ctx.count("poly-gave-up-though-everything-cancels")
        reqs.append("poly " + script)
        jobs.append((inp, got))
    for (inp, got), a in zip(jobs, ctx.driver.ask(reqs)):
        if a != got:
            ctx.disagree("Model.Poly (%s: constructor, +, *, -, _substitute_known, wait)" % what, inp, a, got)


def _mentions_free(sem_r, known, nv):
    """does the fully substituted polynomial still mention a variable nothing is known about?"""
    total = {}

    def expand(v, coef, depth=0):
        k = known.get(v)
        if k is None:
            total[v] = total.get(v, 0) + coef
        elif k[0] == "int":
            pass
        elif k[0] == "var":
            expand(k[1], coef, depth + 1)
        else:
            for w, a in k[1][0].items():
                expand(w, coef * a, depth + 1)
    for v, a in sem_r[0].items():
        expand(v, a)
    return any(c != 0 for c in total.values())
