"""C03 symbol values do not depend on definition order.

Streams (all deterministic from the seed):
  tables     random acyclic definition tables over every value operator, uses as words; each in
             the base order and 4 placements (definitions shuffled and interleaved with the uses), with and
             without a leading '.link'; the implementation's variants must agree with each other
             (metamorphic) and with the total Lean model Defs.image (the subject of the theorems);
  chains     additive chains of depth 1..300 and non-linear chains of depth 1..30, definitions in
             source order, reversed and shuffled; the value is known to the generator;
  positions  one constant used in every operand and directive position, defined first, last or in
             the middle, against the same program with the literal written in place;
  programs   generated programs (harness.gen) with each top-level constant definition moved to other
             top-level positions and all of them permuted; whole-program model on the variants;
  practice   the 21 practice programs with literal-valued definitions moved (only placements whose
             parse is the original statement sequence with that one statement moved)."""
import json
import os
import re

from . import impl, asmrun, polyrun, thunkrun
from .gen import ProgramGen, render, item_text

SYM = {"add": "+", "sub": "-", "mul": "*", "div": "/", "mod": "%", "lshift": "<<", "rshift": ">>", "lsh": "_",
       "and_": "&", "xor": "^", "or_": "|", "or2": "!"}
USYM = {"neg": "-", "pos": "+", "inv": "~", "inv2": "^c"}
PRACTICE = os.path.join(impl.REPO, "tests", "practice")


# ------------------------------------------------------------------ expressions of the Defs model
def gen_e(rng, names, depth, nonlinear=True):
    if depth == 0 or rng.random() < 0.3:
        if names and rng.random() < 0.6:
            return ("ref", rng.choice(names))
        return ("lit", rng.choice([0, 1, 2, 3, 7, 8, 10, 100, 255, 256, 1000, -1, -5, rng.randrange(-300, 3000)]))
    k = rng.random()
    if k < 0.12:
        return ("un", rng.choice(["neg", "neg", "inv", "inv2", "pos"]), gen_e(rng, names, depth - 1))
    if k < 0.55 or not nonlinear:
        return ("bin", rng.choice(["add", "sub", "add"]), gen_e(rng, names, depth - 1), gen_e(rng, names, depth - 1))
    op = rng.choice(["mul", "div", "mod", "lshift", "rshift", "lsh", "and_", "xor", "or_", "or2"])
    if op in ("lshift", "rshift", "lsh"):
        return ("bin", op, gen_e(rng, names, depth - 1), ("lit", rng.choice([0, 1, 2, 3, 4, -1])))
    if op in ("div", "mod"):
        return ("bin", op, gen_e(rng, names, depth - 1), rng.choice([("lit", rng.choice([1, 2, 3, 7, -2, 0])), gen_e(rng, names, depth - 1)]))
    return ("bin", op, gen_e(rng, names, depth - 1), gen_e(rng, names, depth - 1))


def e_text(e):
    k = e[0]
    if k == "lit":
        return ("%o" % e[1]) if e[1] >= 0 else "(-%o)" % -e[1]
    if k == "ref":
        return e[1]
    if k == "un":
        return "(%s(%s))" % (USYM[e[1]], e_text(e[2]))
    return "(%s %s %s)" % (e_text(e[2]), SYM[e[1]], e_text(e[3]))


def e_rpn(e):
    k = e[0]
    if k == "lit":
        return "l%d" % e[1]
    if k == "ref":
        return "r" + e[1].lower()
    if k == "un":
        return e_rpn(e[2]) + ",u" + e[1]
    return e_rpn(e[2]) + "," + e_rpn(e[3]) + ",b" + e[1]


def sig(r):
    return (r.outcome, r.base, r.code, tuple(r.error_ids()))


def check_variants(ctx, what, variants, results, extra=None):
    """all variants must have the same outcome, base and image (and, when they succeed, the same warnings aside)"""
    s0 = sig(results[0])
    for (files, _), r in zip(variants[1:], results[1:]):
        if r.outcome in ("crash", "hang"):
            ctx.violation(what + ": a reordered variant ended in " + r.outcome, {"files": files, "base_variant": variants[0][0]}, expected=results[0].summary(), observed=r.exc)
            return False
        if r.outcome == "failed" and results[0].outcome == "failed":
            # the property fixes bytes and success/failure; which further reports are reached after the first one that
            # aborts a statement depends on when values become known, i.e. on the placement
            if sig(r) != s0:
                ctx.count(what + ": failed in every placement, with different sets of reports")
            continue
        if sig(r) != s0:
            ctx.violation(what + ": the result depends on where the definitions stand", dict({"files": files, "base_variant": variants[0][0]}, **(extra or {})),
                          expected=results[0].summary(), observed=r.summary())
            return False
    return True


# ------------------------------------------------------------------ stream: tables
def stream_tables(ctx, rng, n):
    reqs, jobs = [], []
    for it in range(n):
        nd = rng.randint(1, 9)
        names = ["d%d" % i for i in range(nd)]
        if rng.random() < 0.3:
            names = [rng.choice(["Val", "cnt", "x.y", "k$", "t_1"]) + str(i) for i in range(nd)]
        defs = []
        for i, nm in enumerate(names):
            # acyclic: a definition refers to names of lower index only (the source order is then permuted)
            defs.append((nm, gen_e(rng, names[:i], rng.randint(0, 3))))
        pool = list(names)
        if rng.random() < 0.15:
            pool.append("nowhere")
        # another linked file exporting some of the same names (which the file's own definitions
        # shadow wherever they stand) and some further ones
        ext = []
        if rng.random() < 0.35:
            for nm in names:
                if rng.random() < 0.4:
                    ext.append((nm, ("lit", rng.randrange(3000, 4000))))
            for j in range(rng.randint(0, 2)):
                ext.append(("ex%d" % j, ("lit", rng.randrange(100, 200))))
                pool.append("ex%d" % j)
        uses = [gen_e(rng, pool, rng.randint(0, 2)) for _ in range(rng.randint(1, 4))]
        dup = rng.random() < 0.08
        if dup:
            defs.append((rng.choice(names), ("lit", 5)))
        link = rng.random() < 0.5
        use_lines = [".word 177777 & (%s)" % e_text(u) for u in uses]
        def_lines = ["%s = %s" % (nm, e_text(e)) for nm, e in defs]
        # an included file that emits nothing (the file goes on after the include returns): its place among the
        # uses is fixed, the definitions move around it
        root, scratch = "/w", None
        if rng.random() < 0.4:
            scratch = impl.scratch_dir()
            root = scratch
            ninc = rng.randint(1, 2)
            with open(os.path.join(scratch, "inc.mac"), "w", encoding="utf-8") as f:
                # (a file included twice must not define anything)
                f.write(rng.choice(["; nothing\n", ".even\n"] + (["incz%d = 5\n" % it, "incq%d == 7\n; exported\n" % it] if ninc == 1 else [])))
            for _ in range(ninc):
                use_lines.insert(rng.randrange(len(use_lines) + 1), '.include "inc.mac"')
            ctx.count("tables with an include between the uses")
        variants = []
        for v in range(5):
            if v == 0:
                lines = def_lines + use_lines
            elif v == 1:
                lines = use_lines + list(reversed(def_lines))
            else:
                ds = list(def_lines)
                rng.shuffle(ds)
                lines = list(use_lines)            # uses keep their order, definitions go anywhere
                for dl in ds:
                    lines.insert(rng.randrange(len(lines) + 1), dl)
            text = (".link 2000\n" if link else "") + "\n".join(lines) + "\n"
            files = [(root + "/t.mac", text)]
            if ext:
                etext = "".join("%s == %s\n" % (nm, e_text(e)) for nm, e in ext)
                files = [(root + "/e.mac", (".link 2000\n" if link else "") + etext), (root + "/t.mac", "\n".join(lines) + "\n")] if v % 2 == 0 or link else files + [(root + "/e.mac", etext)]
            variants.append((files, None))
        results = [impl.assemble(f) for f, _ in variants]
        if scratch:
            impl.drop_scratch(scratch)
            variants = [([("/w/" + os.path.basename(p), t) for p, t in f], x) for f, x in variants]
        ctx.case(json.dumps(variants[0][0]), nontrivial=nd >= 2)
        ctx.count("tables")
        ctx.count("tables-" + ("link-first" if link else "no-link"))
        r0 = results[0]
        if r0.outcome in ("crash", "hang"):
            ctx.violation("a definition table ended in " + r0.outcome, {"files": variants[0][0]}, expected="values or errors", observed=r0.exc)
            continue
        ctx.count("tables-outcome-" + r0.outcome)
        if dup:
            # which of two definitions of one name is kept depends on their order, and so may the
            # reports made while evaluating the kept one; the property (and image_perm) only fix
            # that the program is refused with a duplicate-symbol report in every order
            bad = [(f, r) for (f, _), r in zip(variants, results) if r.outcome != "failed" or "duplicate-symbol" not in r.error_ids()]
            if bad:
                ctx.violation("a second definition was accepted in some order", {"files": bad[0][0], "base_variant": variants[0][0]},
                              expected="failed with duplicate-symbol", observed=bad[0][1].summary())
                continue
        elif not check_variants(ctx, "definition table", variants, results):
            continue
        # the total model: uses, then every definition (all symbols are resolved at the end)
        allu = [("bin", "and_", u, ("lit", 0o177777)) for u in uses] + [("ref", nm) for nm in names]
        own = {nm.lower() for nm, _ in defs}
        mdefs = defs + [(nm, e) for nm, e in ext if nm.lower() not in own]
        if ext:
            ctx.count("tables with a second file exporting the same names")
        req = "defs " + " ".join("d:%s:%s" % (nm.lower(), e_rpn(e)) for nm, e in mdefs) + " " + " ".join("u:" + e_rpn(u) for u in allu)
        reqs.append(req)
        jobs.append((variants[0][0], len(uses), r0))
        if it < 6:
            ctx.sample({"table": variants[2][0][0][1], "impl": r0.summary()})
    for (files, nu, r0), a in zip(jobs, ctx.driver.ask(reqs)):
        if a == "dup":
            if r0.outcome != "failed" or "duplicate-symbol" not in r0.error_ids():
                ctx.disagree("Defs.image (duplicate)", files, a, r0.summary())
            continue
        toks = a.split(" ")
        if any(t == "cycle" or not t.startswith("v:") for t in toks):
            ctx.disagree("Defs.image", files, a, r0.summary())
            continue
        vals = [int(t.split(":")[1]) for t in toks]
        errs = set()
        for t in toks:
            e = t.split(":")[2]
            if e != "-":
                errs |= set(e.split("+"))
        if errs:
            if r0.outcome != "failed" or set(r0.error_ids()) != errs:
                ctx.disagree("Defs.image (errors)", files, sorted(errs), r0.summary())
        else:
            want = b"".join((v & 0xffff).to_bytes(2, "little") for v in vals[:nu])
            if r0.outcome != "ok" or r0.code != want:
                ctx.disagree("Defs.image (values)", files, want.hex(), r0.summary())


# ------------------------------------------------------------------ stream: chains
def stream_chains(ctx, rng, thorough):
    depths = [1, 2, 3, 10, 50, 150, 300] if not thorough else [1, 2, 3, 5, 10, 25, 50, 100, 150, 200, 250, 299, 300]
    reqs, jobs = [], []
    cases = []
    for kind in ("additive", "nonlinear"):
        for d in depths:
            if kind == "nonlinear" and d > 30:
                d = rng.choice([4, 7, 13, 21, 29, 30])
            c = rng.randrange(0, 50)
            defs = [("x0", ("lit", c))]
            val = c
            for i in range(1, d + 1):
                if kind == "additive":
                    k = rng.randrange(0, 9)
                    sgn = rng.choice(["add", "add", "sub"])
                    defs.append(("x%d" % i, ("bin", sgn, ("ref", "x%d" % (i - 1)), ("lit", k))))
                    val = val + k if sgn == "add" else val - k
                else:
                    op = rng.choice(["mul", "div", "mod", "lshift", "rshift", "and_", "xor", "or_"])
                    k = {"mul": 3, "div": 2, "mod": 1000, "lshift": 1, "rshift": 1, "and_": 0o7777, "xor": 0o525, "or_": 0o1001}[op]
                    inner = ("bin", op, ("ref", "x%d" % (i - 1)), ("lit", k))
                    e = ("bin", "add", inner, ("lit", i))
                    defs.append(("x%d" % i, e))
                    pv = {"mul": val * k, "div": val // k, "mod": val % k, "lshift": val << k, "rshift": val >> k, "and_": val & k, "xor": val ^ k, "or_": val | k}[op]
                    val = pv + i
            cases.append((kind, d, defs, val, "x%d" % d))
    # products (and sums of products) of two values that are both still pending where the product is written: each factor a
    # sum or difference over a name defined further down through 1-3 more definitions
    for _ in range(60 if thorough else 20):
        defs, vals = [], {}
        for root in ("wd", "ht"):
            n = rng.randint(1, 3)
            v = rng.randrange(1, 30)
            names = [root] + ["%s%d" % (root, i) for i in range(1, n + 1)]
            vals[names[-1]] = v
            chain = [(names[-1], ("lit", v))]
            for i in range(n - 1, -1, -1):
                k = rng.randrange(0, 5)
                sgn = rng.choice(["add", "add", "sub"])
                v = v + k if sgn == "add" else v - k
                chain.append((names[i], ("bin", sgn, ("ref", names[i + 1]), ("lit", k))))
            vals[root] = v
            defs += list(reversed(chain))
        W, H = vals["wd"], vals["ht"]
        c, c2 = rng.randrange(1, 9), rng.randrange(1, 9)
        rW, rH = ("ref", "wd"), ("ref", "ht")
        shape = rng.randrange(7)
        e, val = [
            (("bin", "mul", ("bin", "add", rW, ("lit", c)), rH), (W + c) * H),
            (("bin", "mul", rW, ("bin", "add", rH, ("lit", c))), W * (H + c)),
            (("bin", "mul", ("bin", "sub", rW, ("lit", c)), ("bin", "add", rH, ("lit", c2))), (W - c) * (H + c2)),
            (("bin", "mul", ("bin", "add", rW, rH), rH), (W + H) * H),
            (("bin", "mul", rW, rH), W * H),
            (("bin", "add", ("bin", "mul", ("bin", "add", rW, ("lit", c)), rH), ("bin", "mul", ("bin", "sub", rH, rW), rW)), (W + c) * H + (H - W) * W),
            (("bin", "mul", ("bin", "add", ("lit", c), rW), ("bin", "sub", ("lit", c2), rH)), (c + W) * (c2 - H)),
        ][shape]
        defs = [("area", e)] + defs
        cases.append(("product", len(defs), defs, val, "area"))
    for kind, d, defs, val, top in cases:
        if True:
            use = ".word %s & 177777" % top
            def_lines = ["%s = %s" % (nm, e_text(e)) for nm, e in defs]
            for link in (True, False):
                variants = []
                for order in ("forward", "reversed", "shuffled", "use-first", "use-middle"):
                    ds = list(def_lines)
                    if order == "reversed":
                        ds.reverse()
                    elif order == "shuffled":
                        rng.shuffle(ds)
                    if order == "use-first":
                        lines = [use] + ds
                    elif order == "use-middle":
                        rng.shuffle(ds)
                        lines = ds[:len(ds) // 2] + [use] + ds[len(ds) // 2:]
                    else:
                        lines = ds + [use]
                    text = (".link 2000\n" if link else "") + "\n".join(lines) + "\n"
                    variants.append(([("/w/c.mac", text)], order))
                results = [impl.assemble(f, timeout=60) for f, _ in variants]
                ctx.case(("chain", kind, d, link, def_lines[0], val))
                ctx.count("chains-%s" % kind)
                ctx.count("chain depth %d" % d)
                want = (val & 0xffff).to_bytes(2, "little")
                for (files, order), r in zip(variants, results):
                    if r.outcome != "ok" or r.code != want:
                        ctx.violation("a definition chain of depth %d (%s, definitions %s) does not give its value" % (d, kind, order),
                                      {"files": files if d <= 12 else [("/w/c.mac", "<chain of %d definitions, see rule>" % d)], "kind": kind, "depth": d, "order": order, "link_first": link},
                                      expected=want.hex(), observed=r.summary())
                        break
            reqs.append("defs " + " ".join("d:%s:%s" % (nm, e_rpn(e)) for nm, e in defs) + " u:r%s" % top)
            jobs.append((kind, d, val))
    for (kind, d, val), a in zip(jobs, ctx.driver.ask(reqs)):
        if a != "v:%d:-" % val:
            ctx.disagree("Defs.eval on a chain", (kind, d), a, val)


# ------------------------------------------------------------------ stream: positions
POSITIONS = [
    (".word K", None), (".byte K", None), (".blkb K", None), (".blkw K", None), (".repeat K { nop }", None),
    (".repeat K { .word . }", None), (".dword K", None), ("mov #K, r0", None), ("mov K(r1), r2", None), ("mov @#K, r0", None),
    ("clr @K(r3)", None), ("add r1, K(sp)", None), ("br . + K", "even"), ("bne . - K", "even"), ("sob r1, . - K", "even"),
    ("emt K", None), ("trap K", None), ("mark K", None), ("ash #K, r0", None), (".ascii <K>", None), (".asciz <K>/a/", None),
    (". = . + K", None), (".align K", "pow2"), ("K, K + 1", "implicit"), (".word K * 2, -K", None), (".byte K / 2, K % 3", None),
    ("jmp @#K + 2", None), ("mov #K << 1, @#K >> 1", None), (".blkb K / 2", None), (".blkw K & 3", None), ("tst K", None), ("jsr pc, K", None),
    (".rad50 /A/<K>", None),
    # the constant as a register number, in every addressing form
    ("mov %<K & 3>, r1", None), ("clr (%<K & 3>)", None), ("clr (%<K & 3>)+", None), ("clr -(%<K & 3>)", None), ("clr @(%<K & 3>)+", None),
    ("clr @-(%<K & 3>)", None), ("mov 2(%<K & 3>), r0", None), ("mov @4(%<K & 3>), r0", None), ("clr @%<K & 3>", None),
    ("mov -(%<K & 3>), (%<K & 1>)+", None), ("ldf (%<K & 3>)+, ac1", None), ("mul -(%<K & 3>), r1", None), ("jsr %<K & 7>, K", None),
]


def stream_positions(ctx, rng, n):
    for it in range(n):
        npos = rng.randint(1, 5)
        chosen = [rng.choice(POSITIONS) for _ in range(npos)]
        k = rng.randrange(1, 24) * 2
        if any(c[1] == "pow2" for c in chosen):
            k = rng.choice([2, 4, 8, 16])
        name = rng.choice(["K", "siz", "N.1", "cnt$"])
        stmts = []
        for tmpl, kind in chosen:
            if kind == "implicit":
                stmts.append("%o, %s + 1" % (k, name))
            else:
                stmts.append(tmpl.replace("K", name))
            stmts.append(".even")
        lit = "%o" % k
        literal_stmts = []
        for tmpl, kind in chosen:
            if kind == "implicit":
                literal_stmts.append("%o, %s + 1" % (k, lit))
            else:
                literal_stmts.append(tmpl.replace("K", lit))
            literal_stmts.append(".even")
        chain = rng.random() < 0.4
        dlines = ["%s = %s" % (name, lit)] if not chain else ["%s = k$a + 1" % name, "k$a = k$b * 2", "k$b = %o" % ((k - 1) // 2)]
        if chain and (k - 1) % 2:
            dlines = ["%s = k$a + 2" % name, "k$a = k$b * 2", "k$b = %o" % ((k - 2) // 2)]
        link = rng.random() < 0.6
        head = [".link 2000"] if link else []
        variants = []
        variants.append(([("/w/p.mac", "\n".join(head + literal_stmts + ["halt"]) + "\n")], "literal"))
        for place in ("first", "last", "middle", "spread"):
            body = list(stmts)
            ds = list(dlines)
            if place == "first":
                lines = ds + body
            elif place == "last":
                lines = body + ds
            elif place == "middle":
                i = rng.randrange(len(body) + 1)
                lines = body[:i] + ds + body[i:]
            else:
                rng.shuffle(ds)
                lines = list(body)
                for dl in ds:
                    lines.insert(rng.randrange(len(lines) + 1), dl)
            variants.append(([("/w/p.mac", "\n".join(head + lines + ["halt"]) + "\n")], place))
        results = [impl.assemble(f) for f, _ in variants]
        ctx.case(json.dumps(variants[1][0]))
        ctx.count("positions")
        for tmpl, _ in chosen:
            ctx.count("position: " + tmpl)
        r0 = results[0]
        if r0.outcome in ("crash", "hang"):
            ctx.violation("a literal program ended in " + r0.outcome, {"files": variants[0][0]}, expected="result", observed=r0.exc)
            continue
        ctx.count("positions-outcome-" + r0.outcome)
        check_variants(ctx, "a constant used in %s" % [c[0] for c in chosen], variants, results, {"constant": name, "value": k})


# ------------------------------------------------------------------ stream: generated programs
def stream_programs(ctx, rng, n, link_first):
    reqs, jobs = [], []
    for it in range(n):
        feat = {"forward_sizes": True, "export": 0.1}
        g = ProgramGen(rng, features=feat, n_stmts=rng.randint(6, 30) if link_first else rng.randint(3, 7))
        items = g.generate()
        texts = [(it_["kind"], item_text(it_, rng)) for it_ in items]
        base_lines = [t for _k, t in texts]
        idx_defs = [i for i, (k, _t) in enumerate(texts) if k == "assign"]
        if not idx_defs:
            continue
        head = [".link %o" % rng.choice([0o1000, 0o2000, 0o40000])] if link_first else []
        variants = [([("/w/g.mac", "\n".join(head + base_lines) + "\n")], "original")]
        for v in range(5):
            lines = list(base_lines)
            if v < 3:
                # move one definition anywhere
                i = rng.choice(idx_defs)
                d = lines.pop(i)
                lines.insert(rng.randrange(len(lines) + 1), d)
                how = "moved one"
            else:
                ds = [lines[i] for i in idx_defs]
                rest = [l for i, l in enumerate(lines) if i not in set(idx_defs)]
                rng.shuffle(ds)
                if v == 3:
                    lines = rest + ds
                    how = "all last"
                else:
                    lines = rest
                    for dl in ds:
                        lines.insert(rng.randrange(len(lines) + 1), dl)
                    how = "all shuffled"
            variants.append(([("/w/g.mac", "\n".join(head + lines) + "\n")], how))
        results = [impl.assemble(f) for f, _ in variants]
        ctx.case(json.dumps(variants[0][0]), nontrivial=len(idx_defs) >= 2)
        ctx.count("programs-" + ("link-first" if link_first else "no-link"))
        r0 = results[0]
        if r0.outcome in ("crash", "hang"):
            ctx.violation("a generated program ended in " + r0.outcome, {"files": variants[0][0]}, expected="result", observed=r0.exc)
            continue
        ctx.count("programs-outcome-" + r0.outcome)
        if check_variants(ctx, "generated program", variants, results):
            pick = rng.randrange(1, len(variants))
            reqs.append(asmrun.asm_request(variants[pick][0], 1))
            jobs.append((variants[pick][0], results[pick]))
    for (files, r), a in zip(jobs, ctx.driver.ask(reqs)):
        m = asmrun.parse_answer(a)
        if m["outcome"] == "unsupported":
            ctx.count("model: unsupported")
            continue
        bad = None
        if m["outcome"] == "ok":
            if r.outcome != "ok" or r.base != m["base"] or r.code != m["code"]:
                bad = "image/base"
        elif m["outcome"] == "failed":
            mi = sorted({x.split(":")[1] for x in m["diags"] if not x.startswith("warning")})
            if r.outcome != "failed" or ("aborted" not in m.get("note", "") and mi != r.error_ids()):
                bad = "errors %s" % mi
        else:
            bad = "model " + m["outcome"]
        if bad:
            ctx.disagree("whole-program model on a reordered program: " + bad, {"files": files},
                         {"outcome": m["outcome"], "base": m["base"], "code": m["code"].hex()[:80], "diags": m["diags"][:6], "note": m.get("note")}, r.summary())


# ------------------------------------------------------------------ stream: practice corpus
DEF_RE = re.compile(r"^[ \t]*([A-Za-z_$.][A-Za-z_0-9$.]*)[ \t]*=[ \t]*([0-9]+\.?|0x[0-9A-Fa-f]+|[0-9][0-9A-Fa-f]*h)[ \t]*(;.*)?$")


def stmt_reprs(parsed):
    return [repr(i) for i in parsed.body.insns]


def stream_practice(ctx, rng, per_program, placements):
    if not os.path.isdir(PRACTICE):
        return
    for name in sorted(os.listdir(PRACTICE)):
        src = os.path.join(PRACTICE, name, "code.mac")
        if not os.path.exists(src):
            continue
        with open(src, encoding="utf-8") as f:
            text = f.read()
        lines = text.split("\n")
        r0 = impl.assemble([(src, text)], timeout=120)
        if r0.outcome != "ok":
            ctx.count("practice: does not assemble as is")
            continue
        p0 = impl.assemble([(src, text)], parse_only=True)
        base_stmts = stmt_reprs(p0.compiler[0])
        depth = 0
        tops = []
        ended = False
        for i, ln in enumerate(lines):
            code = ln.split(";")[0]
            if re.match(r"^\s*\.end\b", code, re.I):
                ended = True
            if depth == 0 and not ended:
                tops.append(i)
            depth += code.count("{") - code.count("}")
        cands = [i for i in tops if DEF_RE.match(lines[i])]
        rng.shuffle(cands)
        done = 0
        for i in cands:
            if done >= per_program:
                break
            dname = DEF_RE.match(lines[i]).group(1)
            stmt = None
            tried = 0
            for _ in range(placements * 3):
                if tried >= placements:
                    break
                j = rng.choice(tops)
                if j == i:
                    continue
                new = list(lines)
                d = new.pop(i)
                new.insert(j if j < i else j - 1, d)
                vtext = "\n".join(new)
                pv = impl.assemble([(src, vtext)], parse_only=True)
                if pv.outcome != "ok":
                    continue
                vs = stmt_reprs(pv.compiler[0])
                # the same statements with exactly one of them moved
                if sorted(vs) != sorted(base_stmts) or len(vs) != len(base_stmts):
                    ctx.count("practice: placement skipped (parse differs)")
                    continue
                if stmt is None:
                    stmt = [s for s in base_stmts if s.lower().startswith(dname.lower() + " =")]
                rest_a = [s for s in base_stmts if s not in stmt]
                rest_b = [s for s in vs if s not in stmt]
                if rest_a != rest_b:
                    ctx.count("practice: placement skipped (parse differs)")
                    continue
                tried += 1
                r = impl.assemble([(src, vtext)], timeout=120)
                ctx.case(("practice", name, i, j))
                ctx.count("practice placements")
                if sig(r) != sig(r0):
                    ctx.violation("practice program %s: moving '%s' from line %d to line %d changes the result" % (name, lines[i].strip(), i + 1, j + 1),
                                  {"practice": name, "definition_line": i + 1, "moved_before_line": j + 1, "definition": lines[i]},
                                  expected={"outcome": r0.outcome, "image_len": len(r0.code or b"")}, observed={"outcome": r.outcome, "errors": r.error_ids(), "exc": r.exc,
                                                                                                               "image_len": len(r.code or b"")})
            if tried:
                done += 1
        ctx.count("practice programs")


def run(ctx):
    impl.load()
    rng = ctx.rng("c03")
    ctx.rule = ("tables: 1-9 acyclic definitions over + - * / % << >> _ & ^ | ! and unary - + ~ ^c, 1-4 uses, an undefined name in 15%, a duplicate "
                "in 8%, 5 placements each (definitions first, last-reversed, 3x shuffled and interleaved with the uses), half with a leading "
                "'.link'; chains: additive depth 1..300 and non-linear depth <= 30 in 5 orders, with and without '.link'; positions: a constant "
                "(direct or through a 3-step chain) in 1-5 of 33 operand/directive positions, defined first/last/middle/spread, against the literal "
                "program; programs: harness.gen programs (sizes depending on later constants) with one definition moved (3x), all last, all "
                "shuffled; practice: literal-valued definitions of the 21 practice programs moved to other top-level lines. "
                "engine: random scripts over deferred.LinearPolynomial (constructor, + * -, promises settled in any order with numbers, "
                "other promises or polynomials, _substitute_known, wait()) against Model.Poly and integer arithmetic; random DAGs of "
                "deferred.Deferred thunks over promises, waited speculatively and settled in random order, against Model.Thunk and against "
                "the engine without memory. "
                "distinct = distinct base programs; non-trivial = at least two definitions")
    th = ctx.thorough
    stream_tables(ctx, rng, 1500 if th else 300)
    stream_chains(ctx, rng, th)
    stream_positions(ctx, rng, 1200 if th else 250)
    stream_programs(ctx, rng, 500 if th else 120, True)
    stream_programs(ctx, rng, 200 if th else 50, False)
    stream_practice(ctx, rng, 6 if th else 2, 4 if th else 2)
    # the arithmetic of the lazy engine itself: whatever is settled first, wait() arrives at the arithmetic value
    polyrun.poly_stream(ctx, ctx.rng("c03-poly"), 2000 if th else 400)
    # memoised thunks: speculative waits and settlements in any order against the engine without memory
    thunkrun.thunk_stream(ctx, ctx.rng("c03-thunk"), 2500 if th else 500)
    thunkrun.await_stream(ctx, ctx.rng("c03-await"), 1500 if th else 300)


def search(ctx, broken):
    if not ctx.thorough:
        ctx.thorough = True
        run(ctx)


def replay(ctx, path):
    with open(path, encoding="utf-8") as f:
        rep = json.load(f)
    v = rep.get("violation") or {}
    print(json.dumps(v or rep, indent=1, ensure_ascii=False)[:6000])
    inp = v.get("input") or {}
    if "files" in inp and isinstance(inp["files"], list):
        impl.load()
        for key in ("base_variant", "files"):
            if key in inp:
                r = impl.assemble([tuple(x) for x in inp[key]])
                print("replayed", key, "on the current tree:", r.summary())
    return 0
