"""C06 data directives: boundary-complete correspondence with the Lean model
(`dir`, `wlist`) and the property stated directly on the emitted bytes."""
import json
import os

from . import impl
from .common import nl, parse_kv, parse_nl
from .insnrun import num
from .p_c15 import quote_str

CHARSETS = ["bk", "utf-8", "koi8-r", "latin-1", "cp866"]


def boundary_values(n, rng):
    b = 1 << n
    vals = [0, 1, -1, b - 1, -(b - 1), b, -b, b + 1, -(b + 1), b >> 1, -(b >> 1), (b >> 1) - 1, 2 * b, -2 * b]
    vals += [rng.randrange(-b + 1, b) for _ in range(4)]
    return vals


def int_directive_cases(ctx, rng):
    cases = []
    for name, n in ((".byte", 8), (".db", 8), (".word", 16), (".dw", 16), (".dword", 32), ("", 16)):
        bvals = boundary_values(n, rng)
        for parity in (0, 1):
            # every boundary value alone and inside lists of 0..8 operands
            for v in bvals:
                cases.append((name, parity, [v]))
            for k in range(0, 9):
                if name == "" and k == 0:
                    continue
                for _ in range(8 if not ctx.thorough else 30):
                    ok_only = rng.random() < 0.7
                    pool = [x for x in bvals if -(1 << n) < x < (1 << n)] if ok_only else bvals
                    cases.append((name, parity, [rng.choice(pool) for _ in range(k)]))
    return cases


def render_escaped(s, rng):
    """source text of a quoted string denoting s, using escapes at random"""
    q = rng.choice("\"'/")
    out = []
    for ch in s:
        o = ord(ch)
        if ch == "\\":
            out.append("\\\\")
        elif ch == q:
            out.append("\\" + q)
        elif ch == "\n":
            out.append("\\n")
        elif ch == "\r":
            out.append("\\r")
        elif ch == "\t":
            out.append(rng.choice(["\\t", "\t"]))
        elif ch in "\"'/" and rng.random() < 0.3:
            out.append("\\" + ch)
        elif o < 256 and rng.random() < 0.1:
            out.append("\\x%02x" % o if rng.random() < 0.5 else "\\X%02X" % o)
        else:
            out.append(ch)
        if rng.random() < 0.02:
            out.append("\\\n")     # line continuation: contributes nothing
    return q + "".join(out) + q


def string_cases(ctx, rng):
    pools = {
        "ascii": [chr(c) for c in range(0x20, 0x7F)],
        "ctl": ["\n", "\t", "\r", "\x00", "\x7f", "\x1b"],
        "cyr": list("юабцдефгхийклмнопярстужвьызшэщчъЮАБЦДЕФГ"),
        "lat1": [chr(c) for c in range(0xA0, 0x100)],
        "box": list("┴♥┐╡├└═╤♠┌┬╨↓┼║┤←╬↑♣─╫│♦┘╪╥╧╞→▓■¤¶"),
        "other": ["€", "λ", "中", "\U0001F600", "ё", "Ё", "ő"],
    }
    cases = []
    for cs in CHARSETS:
        for _ in range(200 if not ctx.thorough else 1200):
            chunks = []
            for _ in range(rng.randint(1, 4)):
                if rng.random() < 0.25:
                    chunks.append(("a", rng.choice([0, 1, 65, 127, 128, 255, 256, 1000, -1, rng.randrange(256)])))
                else:
                    weights = rng.choice([["ascii"], ["ascii", "ctl"], ["ascii", "cyr"], ["ascii", "lat1"], ["ascii", "box"], ["ascii", "other", "cyr"]])
                    n = rng.randint(0, 10)
                    chunks.append(("s", "".join(rng.choice(pools[rng.choice(weights)]) for _ in range(n))))
            for name in (".ascii", ".asciz"):
                cases.append((name, cs, chunks))
    return cases


def run(ctx):
    impl.load()
    rng = ctx.rng("c06")
    ctx.rule = ("every data directive (and the implicit word list) x 0-8 operands x boundary values +-(2^n-1), +-2^n, +-(2^n+1) for "
                "n in {8,16,32} x both address parities; strings of 1-4 chunks (quoted with every escape form, <n>) x 5 charsets; "
                "counts and alignment moduli 0..64 and out-of-range, at addresses of every residue. distinct = distinct "
                "(directive, operands, address, charset); non-trivial = at least one operand or an address-dependent directive")

    reqs = []
    jobs = []   # (source, base, charset, expectation dict)

    # ---- integer directives
    for name, parity, vals in int_directive_cases(ctx, rng):
        base = 0o1000 + parity
        txt = ", ".join(num(v, rng) for v in vals)
        if name == "":
            # a label first: a line starting with '-', '+' or '^' would continue the previous
            # statement's expression (newlines are plain whitespace inside expressions)
            src = "w: " + txt
            reqs.append("wlist %d %s" % (base, " ".join(str(v) for v in vals)))
            n = 16
        else:
            src = (name if rng.random() < 0.8 else name.upper()) + (" " + txt if txt else "")
            reqs.append("dir %s bk %d %s" % (name, base, " ".join("i:%d" % v for v in vals)))
            n = {".byte": 8, ".db": 8, ".word": 16, ".dw": 16, ".dword": 32}[name]
        # property expectation, independently of the model
        fits = all(-(1 << n) < v < (1 << n) for v in vals)
        if not fits or (n > 8 and parity == 1):
            exp = ("fail",)
        else:
            body = b""
            for v in (vals or [0]):
                u = v % (1 << n)
                if n == 8:
                    body += bytes([u])
                elif n == 16:
                    body += u.to_bytes(2, "little")
                else:
                    body += (u >> 16).to_bytes(2, "little") + (u & 0xFFFF).to_bytes(2, "little")
            exp = ("bytes", body)
        jobs.append((src, base, "bk", exp, ("int", name, parity, tuple(vals))))
        ctx.count("int-directive" + ("-implicit" if name == "" else ""))

    # ---- strings
    for name, cs, chunks in string_cases(ctx, rng):
        parts = []
        wire = []
        for kind, v in chunks:
            if kind == "a":
                parts.append("<%s>" % num(v, rng))
                wire.append("a=%d" % v)
            else:
                parts.append(render_escaped(v, rng))
                wire.append("s=" + nl(map(ord, v)))
        src = name + " " + " ".join(parts)
        reqs.append("dir %s %s %d t:%s" % (name, cs, 0o1000, "|".join(wire)))
        body = b""
        fail = False
        for kind, v in chunks:
            if kind == "a":
                if 0 <= v < 256:
                    body += bytes([v])
                else:
                    fail = True
            else:
                try:
                    body += v.encode(cs)
                except UnicodeEncodeError:
                    fail = True
        if name == ".asciz":
            body += b"\x00"
        jobs.append((src, 0o1000, cs, ("fail",) if fail else ("bytes", body), ("str", name, cs, json.dumps(chunks))))
        ctx.count("string-directive-" + cs)

    # ---- reserved blocks, alignment
    for name in (".blkb", ".blkw"):
        for n in list(range(0, 20)) + [255, 256, 4096, 65535, 65536, 65537, -1, -65536, 100000]:
            src = "%s %s" % (name, num(n, rng))
            reqs.append("dir %s bk %d i:%d" % (name, 0o1000, n))
            mult = 1 if name == ".blkb" else 2
            exp = ("bytes", b"\x00" * (mult * n)) if 0 <= n < 65536 else ("fail",)
            jobs.append((src, 0o1000, "bk", exp, ("blk", name, n)))
            ctx.count("reserve")
    for addr in range(0o1000, 0o1000 + 8):
        for name in (".even", ".odd"):
            reqs.append("dir %s bk %d" % (name, addr))
            want = addr % 2 == (1 if name == ".even" else 0)
            jobs.append((name, addr, "bk", ("bytes", b"\x00" if want else b""), ("parity", name, addr)))
            ctx.count("even-odd")
    moduli = list(range(0, 65)) + [100, 256, 4096, -1, -4]
    for m in moduli:
        for addr in ([0o1000 + rng.randrange(0, 200) for _ in range(3)] + [0o1000, 0o1001]) if not ctx.thorough else range(0o1000, 0o1000 + 70):
            src = ".align %s" % num(m, rng)
            reqs.append("dir .align bk %d i:%d" % (addr, m))
            exp = ("align", m) if m > 0 else ("fail",)
            jobs.append((src, addr, "bk", exp, ("align", m, addr)))
            ctx.count("align")
    # ---- operand-count errors
    for src, name, args in ((".blkb", ".blkb", []), (".blkb 1, 2", ".blkb", [1, 2]), (".even 1", ".even", [1]), (".align", ".align", []), (".odd 1, 2", ".odd", [1, 2])):
        reqs.append("dir %s bk %d %s" % (name, 0o1000, " ".join("i:%d" % v for v in args)))
        jobs.append((src, 0o1000, "bk", ("fail",), ("count", src)))
        ctx.count("operand-count")

    answers = ctx.driver.ask(reqs)
    for (src, base, cs, exp, key), req, ans in zip(jobs, reqs, answers):
        text = ".link %d.\n%s\n" % (base, src)
        r = impl.assemble([("/t/main.mac", text)], charset=cs)
        ctx.case(key, nontrivial=True)
        ctx.sample({"source": text, "charset": cs, "model": ans, "impl": r.summary()})
        m = ans.split()
        md = parse_kv(" ".join(m[1:]))
        m_errs = sorted(set(x for x in md.get("e", "-").split(",") if x != "-"))
        m_warns = sorted(set(x for x in md.get("wn", "-").split(",") if x != "-"))
        i_errs = r.error_ids()
        i_warns = sorted({d[1] for d in r.warnings()})
        # correspondence
        if m[0] == "ok" and not m_errs:
            good = r.outcome == "ok" and list(r.code) == parse_nl(md["b"]) and i_warns == m_warns
        elif m[0] in ("ok", "abort"):
            good = r.outcome == "failed" and i_errs == m_errs
        else:
            good = r.outcome == "crash"
        if not good:
            ctx.disagree("data directive", {"source": text, "charset": cs, "request": req}, ans, r.summary())
        # the property
        if exp[0] == "fail":
            if r.outcome == "ok":
                ctx.violation("a value/count/character that cannot be stored was accepted silently", {"source": text, "charset": cs},
                              expected="an error", observed=r.summary())
            elif r.outcome != "failed":
                ctx.violation("a data directive ended in " + r.outcome, {"source": text, "charset": cs}, expected="an error diagnostic", observed=r.summary())
        elif exp[0] == "bytes":
            if r.outcome != "ok" or r.code != exp[1]:
                ctx.violation("a data directive did not emit exactly the stated value", {"source": text, "charset": cs},
                              expected=exp[1].hex(), observed=r.summary())
        elif exp[0] == "align":
            mm = exp[1]
            if r.outcome != "ok" or any(r.code) or (base + len(r.code)) % mm != 0 or len(r.code) >= mm:
                ctx.violation("'.align' did not zero-fill to the next multiple", {"source": text}, expected="least zero fill to a multiple of %d" % mm,
                              observed=r.summary())
    sequence_stream(ctx, ctx.rng("c06-seq"), 2500 if ctx.thorough else 500)


def sequence_stream(ctx, rng, n):
    """data directives in context: sequences in which the fill of '.even' / '.odd' / '.align' and the parity check of
    '.word' depend on what came before, at top level, inside '.repeat' blocks (every pass at its own address) and
    in an included file; the expected bytes are computed here statement by statement"""
    def gen_body(k):
        out = []
        for _ in range(k):
            if rng.random() < 0.15:
                # the directive alone: one element of zeros; and statements that occupy nothing
                out.append(rng.choice([(".byte0",), (".word0",), (".dword0",), (".blkb", 0), (".blkw0",), (".ascii", "")]))
                continue
            out.append(rng.choice([(".even",), (".odd",), (".align", rng.choice([2, 3, 4, 5, 8, 16])), (".byte", rng.randrange(256)),
                                   (".byte", rng.randrange(256)), (".blkb", rng.randint(0, 5)), (".word", rng.randrange(65536)),
                                   (".ascii", "".join(rng.choice("abcXYZ09") for _ in range(rng.randint(1, 4))))]))
        return out

    def text_of(st):
        if st[0] in (".byte0", ".word0", ".dword0"):
            return st[0][:-1]
        if st[0] == ".blkw0":
            return ".blkw 0"
        if st[0] == ".ascii":
            return '.ascii "%s"' % st[1]
        if st[0] in (".even", ".odd"):
            return st[0]
        return "%s %s" % (st[0], num(st[1], rng))

    def emit(st, addr):
        """bytes of one statement at an address, or None for the odd-address error"""
        k = st[0]
        if k == ".byte0":
            return b"\x00"
        if k == ".word0":
            return None if addr % 2 else b"\x00\x00"
        if k == ".dword0":
            return None if addr % 2 else b"\x00" * 4
        if k == ".blkw0":
            return b""
        if k == ".even":
            return b"\x00" * (addr % 2)
        if k == ".odd":
            return b"\x00" * (1 - addr % 2)
        if k == ".align":
            return b"\x00" * ((-addr) % st[1])
        if k == ".byte":
            return bytes([st[1]])
        if k == ".blkb":
            return b"\x00" * st[1]
        if k == ".word":
            return None if addr % 2 else st[1].to_bytes(2, "little")
        return st[1].encode("ascii")

    for it in range(n):
        base = rng.choice([0o1000, 0o1001, 0o2003, 0o40000, 0o1000, 0o1000])
        nolink = base == 0o1000 and rng.random() < 0.6        # the default base: nothing says where the program goes
        prog = []      # ("st", st) | ("rep", n, body) | ("inc", body)
        for _ in range(rng.randint(1, 5)):
            c = rng.random()
            if c < 0.45:
                prog.append(("rep", rng.randint(0, 6), gen_body(rng.randint(1, 4))))
            elif c < 0.6:
                prog.append(("inc", gen_body(rng.randint(1, 4))))
            else:
                prog.append(("st", gen_body(1)[0]))
        addr, img, fails = base, b"", False
        lines, incs = ([] if nolink else [".link %d." % base]), []
        for item in prog:
            if item[0] == "st":
                seqs, lines2 = [item[1]], [text_of(item[1])]
            elif item[0] == "rep":
                seqs = item[2] * item[1]
                sep = rng.choice(["\n", "\n    "])
                lines2 = [".repeat %s {%s%s\n}" % (num(item[1], rng), sep, sep.join(text_of(x) for x in item[2]))]
            else:
                seqs = item[1]
                incs.append("\n".join(text_of(x) for x in item[1]) + "\n")
                lines2 = ['.include "i%d.mac"' % (len(incs) - 1)]
            lines += lines2
            for st in seqs:
                b = emit(st, addr)
                if b is None:
                    fails = True
                    break
                img += b
                addr += len(b)
            if fails:
                break
        if fails and rng.random() < 0.7:
            continue        # keep some odd-address programs, not most
        d = impl.scratch_dir()
        try:
            for i, t in enumerate(incs):
                with open(os.path.join(d, "i%d.mac" % i), "w", encoding="utf-8") as f:
                    f.write(t)
            text = "\n".join(lines) + "\n"
            r = impl.assemble([(os.path.join(d, "m.mac"), text)])
        finally:
            impl.drop_scratch(d)
        inp = {"source": text, "included": incs}
        ctx.case(("seq", text, tuple(incs)), nontrivial=any(i[0] != "st" for i in prog))
        ctx.count("sequence-programs")
        ctx.count("sequence-programs-with-repeat", any(i[0] == "rep" and i[1] >= 3 for i in prog))
        if fails:
            if r.outcome == "ok":
                ctx.violation("a '.word' at an odd address was assembled", inp, expected="odd-address", observed=r.summary())
            elif r.outcome != "failed" or "odd-address" not in r.error_ids():
                ctx.violation("a '.word' at an odd address did not end in the odd-address error", inp, expected="odd-address", observed=r.summary())
        elif r.outcome != "ok" or r.code != img:
            ctx.violation("data directives in sequence / in a '.repeat' block / in an included file did not emit exactly the stated bytes "
                          "(fill computed from each statement's own address)", inp, expected=img.hex(), observed=r.summary())


    # ---- the parity of a later pass of a '.repeat': every word directive (explicit, implicit list; literal, expression,
    # label operand) followed by an odd number of bytes, in a block of 2-5 passes that starts at an even address: pass 2 puts
    # the word at an odd address - an error whatever pass 1 did; with an even number of bytes every pass is fine
    rrng = ctx.rng("c06-repeat-parity")
    wforms = [(".word 1234", bytes([0o234, 0o2])), (".word 1234+0", bytes([0o234, 0o2])), (".dword 200001", bytes([1, 0, 1, 0])),
              ("1234", bytes([0o234, 0o2])), (".word 1, 2", bytes([1, 0, 2, 0])), (".blkw 1", bytes(2))]
    for wtext, wbytes in wforms:
        for nbytes in (1, 2, 3):
            for passes in ((2, 3, 5) if ctx.thorough else (rrng.choice([2, 3, 5]),)):
                tail = ".byte " + ", ".join(str(rrng.randrange(1, 8)) for _ in range(nbytes))
                tb = bytes(int(x) for x in tail[6:].split(", "))
                text = ".link 1000\n.repeat %d {\n\t%s\n\t%s\n}\n" % (passes, wtext, tail)
                r = impl.assemble([("/t/m.mac", text)])
                inp = {"source": text, "included": []}
                ctx.case(("repeat-parity", text))
                ctx.count("repeat-parity programs")
                if nbytes % 2 == 1 and wtext != ".blkw 1":
                    if r.outcome == "ok" or "odd-address" not in r.error_ids():
                        ctx.violation("a word directive at an odd address in a later pass of a '.repeat' was assembled", inp, expected="odd-address", observed=r.summary())
                elif nbytes % 2 == 0:
                    if r.outcome != "ok" or r.code != (wbytes + tb) * passes:
                        ctx.violation("a '.repeat' of word data and an even number of bytes did not emit exactly the stated bytes", inp,
                                      expected=((wbytes + tb) * passes).hex(), observed=r.summary())


def search(ctx, broken):
    if not ctx.thorough:
        ctx.thorough = True
        run(ctx)


def replay(ctx, path):
    with open(path, encoding="utf-8") as f:
        rep = json.load(f)
    v = rep.get("violation")
    if not v:
        print("replay file names a broken obligation, no failing input: re-run ./check C06")
        return 0
    r = impl.assemble([("/t/main.mac", v["input"]["source"])], charset=v["input"].get("charset", "bk"))
    print(v["input"], r.summary())
    return 0
