"""C18 purity: the bracket classes driven by random computations against the Lean State
model, histories of assemblies followed by a probe, hash-seed runs in fresh processes, and
a syntactic audit that the module state is only touched inside the bracket classes."""
import ast
import hashlib
import json
import os
import subprocess

from . import impl, internals
from .common import REPO, PY


EXCS = ["notReady", "cycle", "recoverable", "unrecoverable"]


def gen_comp(rng, depth, under_handler):
    if depth == 0 or rng.random() < 0.2:
        k = rng.random()
        if k < 0.3:
            return ("ret",)
        if k < 0.65:
            return ("raise", rng.choice(EXCS + ["other1", "other2"]))
        return ("rep", rng.choice(["warning", "error", "critical"]))
    k = rng.random()
    if k < 0.3:
        return ("seq", gen_comp(rng, depth - 1, under_handler), gen_comp(rng, depth - 1, under_handler))
    if k < 0.45:
        return ("catch", sorted(set(rng.sample(EXCS + ["other1"], rng.randint(1, 3)))), gen_comp(rng, depth - 1, under_handler))
    if k < 0.6:
        return ("try", gen_comp(rng, depth - 1, under_handler))
    if k < 0.8:
        return ("await", rng.randrange(4), gen_comp(rng, depth - 1, under_handler))
    return ("hand", rng.randrange(3), gen_comp(rng, depth - 1, True))


def wire(c):
    k = c[0]
    if k == "ret":
        return ["ret"]
    if k == "raise":
        return ["raise:" + c[1]]
    if k == "rep":
        return ["rep:" + c[1]]
    if k == "seq":
        return ["seq"] + wire(c[1]) + wire(c[2])
    if k == "catch":
        return ["catch:" + "+".join(c[1])] + wire(c[2])
    if k == "try":
        return ["try"] + wire(c[1])
    if k == "await":
        return ["await:%d" % c[1]] + wire(c[2])
    return ["hand:%d" % c[1]] + wire(c[2])


class _Other1(Exception):
    pass


class _Other2(Exception):
    pass


def interp(c, m, objs, log):
    """run the computation with the real context managers and exception classes"""
    D, R = m["deferred"], m["reports"]
    exc = {"notReady": D.NotReadyError, "cycle": D.DeferredCycle, "recoverable": R.RecoverableError,
           "unrecoverable": R.UnrecoverableError, "other1": _Other1, "other2": _Other2}
    k = c[0]
    if k == "ret":
        return
    if k == "raise":
        raise exc[c[1]]()
    if k == "rep":
        ctx0 = m["context"].Context("f", "x")
        R.emit_report({"warning": R.warning, "error": R.error, "critical": R.critical}[c[1]], "probe", (ctx0, ctx0, "t"))
        return
    if k == "seq":
        interp(c[1], m, objs, log)
        interp(c[2], m, objs, log)
        return
    if k == "catch":
        try:
            interp(c[2], m, objs, log)
        except tuple(exc[e] for e in c[1]):
            pass
        return
    if k == "try":
        with D.try_compute:
            interp(c[1], m, objs, log)
        return
    if k == "await":
        with D.Awaiting(objs[c[1]]):
            interp(c[2], m, objs, log)
        return
    h = c[1]

    def fn(priority, identifier, *reps):
        log.append("%d:%s" % (h, "warning" if priority is R.warning else ("critical" if priority is R.critical else "error")))
    with R.handle_reports(fn):
        interp(c[2], m, objs, log)


def module_state(m):
    """(try depth, awaiting stack length, handler stack length), or None when the names can no longer be found"""
    D, R = m["deferred"], m["reports"]
    try:
        return (internals.try_depth(D), len(internals.awaiting_stack(D)), len(internals.handlers_stack(R)))
    except internals.TieBroken:
        return None


POOL_VALID = [".once\nmov #2, r0\n", ".once\n.end\n", "mov #1, r0\nbr .\n", "a = 5\n.word a, b\nb = a + 2\n", ".ascii /hi/\n.even\nx: .word x\n", ".link 2000\nstart: jmp start\n.blkb 10\n",
              ".repeat 3 { inc r0 }\n", "l1: sob r1, l1\n.word 'a, \"bc\n"]
POOL_INVALID = ["mov r0\n", ".word undefined_sym\n", ".byte 400\n", "br .+1000\n", "frob\n", ".ascii \"abc\n", "x = \n", ".word 5/0\n", "a: a: nop\n",
                ".link 1000\n.link 2000\n", "rts #5\n", ".word (1+\n", ".blkb -1\n", ".error boom\n", "a = b\nb = c + 1\n.word a\n",
                # definitions that depend on themselves (reported with the positions of the symbols on the cycle)
                "nop\nc1 = c2 + 1\nc2 = c1 * 2\n.word c1\n", "loop = loop\n", "nop\nnop\nq = r + 1\nr = s\ns = q\n", ".blkb n\nn = e - .\ne:\n",
                ".link b\nb: nop\n", "dup: nop\nnop\ndup: nop\n", "x:: nop\n.extern x\nx:: nop\n"]
PROBES = ["start: mov #start, r0\n.word late, 'x\nlate = . - start\n.ascii /probe/\n", ".word nosuch\n.byte 300\n", "l: br l\n.even\n.blkw 3\n",
          # per-assembly counters (how often a file was compiled, scope and file numbering) must start afresh
          ".once\nx: .word x, 5\n1$: br 1$\n", "a: .word 1$\n1$: .word a\nb: .word 1$\n1$: nop\n",
          # every kind of report that collects positions while it is built
          "nop\nnop\nnop\np1 = p2\np2 = p1 + 2\n.word p1\n", "self = self + 1\n", "d2: nop\nd2: nop\n", ".blkb m\nm = f - .\nf:\n",
          # several statements of unknown size, each with its own fault, all behind one reference: which of them is looked at
          # first must not depend on anything outside the program (names the engine gives its own objects, for one)
          "st: .word en\n.blkb gap\n.blkb size\nsize = count\ncount = size\nen:\n",
          "st: .word en\n.blkb size\n.blkb gap\n.blkw 5 / zz\nsize = count\ncount = size\nzz = 0\nen:\n",
          "a: .word e1, e2\n.blkb u1\ne1:\n.blkb u2\n.blkb c1\nc1 = c2\nc2 = c1\ne2:\n",
          ".word z\n.repeat q1 { nop }\n.repeat q2 { nop }\n.blkb q3\nq1 = q2\nq2 = q1\nz:\n"]


# directives written without their dot (accepted with a 'meta-typo' warning), and the same words used as ordinary names:
# what one assembly learns about a spelling must not be known to the next
POOL_VALID += ["word 1, 2\nbyte 3\neven\n", "title Boot block\nword 5\n", "even\nblkb 2\nascii /ok/\n"]
PROBES += ["word = 7\nword, 5\n", "byte: nop\n.word byte\neven = 2\n.word even\n", "word 1\nword 2\nbyte 3\n", "title Boot block v2\n.word 1\n"]

# a family in which the number of objects the engine creates before the two faulty statements varies (so do the
# names and ordinals it gives them); the reports must not
PROBES += ["entry: mov #table, r1\n" + "mov #L, r2\n" * k + "halt\ntable: .word L\n.blkb gap\n.blkb size\nL: .word 0\nsize = count * 2\ncount = size / 2\n" for k in range(0, 12)]
PROBES += ["entry: mov #table, r1\n" + "mov #L, r2\n" * k + "table: .word L\n.blkb size\n.blkb gap\n.blkw gap2\nL: .word 0\nsize = count + 1\ncount = size - 1\n" for k in (0, 3, 7)]


def run_one(src):
    r = impl.asm1(src, timeout=10)
    return (r.outcome, r.base, r.code, tuple((d[0], d[1], tuple((p[1], p[2]) for p in d[2])) for d in r.diags))


def run(ctx):
    # the reference results of the probes: each in freshly imported modules (nothing assembled before)
    fresh = {}
    for p in PROBES:
        impl.load(fresh=True)
        fresh[p] = run_one(p)
    m = impl.load(fresh=True)
    rng = ctx.rng("c18")
    ctx.rule = ("(a) random computations over try_compute / Awaiting / handle_reports / emit_report / raise / catch (depth <= 6) run with "
                "the real context managers and compared with the Lean State model (exception in flight, final module state, delivered "
                "reports); (b) histories of up to 50 assemblies drawn from valid and invalid programs, then a probe, compared with the "
                "probe in a fresh state, module variables read after every step; (c) the same batch in fresh processes under several "
                "PYTHONHASHSEED values; (d) AST audit of every write to the module state. distinct = distinct computations / histories")
    D, R = m["deferred"], m["reports"]
    have_internals = module_state(m) is not None
    if not have_internals:
        # the module-level state the State model speaks about cannot be read any more: that tie is broken; the
        # histories and hash-seed runs below (which need no internals) are the search for a failing input
        try:
            internals.try_depth(D), internals.awaiting_stack(D), internals.handlers_stack(R)
        except internals.TieBroken as tb:
            ctx.disagree("tie to the module-level state of deferred.py / reports.py", {"missing": str(tb)}, "depth, awaiting stack, handler stack", "not found")
    if have_internals and module_state(m) != (0, 0, 0):
        ctx.violation("module state is not initial at start", {}, expected=(0, 0, 0), observed=module_state(m))
    # ------------------------------------------------------------------ (a)
    class Obj:
        def __init__(self):
            self.is_awaiting = False
    comps = [gen_comp(rng, rng.randint(1, 6), False) for _ in range(8000 if ctx.thorough else 2000)] if have_internals else []
    answers = ctx.driver.ask(["state " + " ".join(wire(c)) for c in comps])
    names = {D.NotReadyError: "notReady", D.DeferredCycle: "cycle", R.RecoverableError: "recoverable", R.UnrecoverableError: "unrecoverable",
             _Other1: "other1", _Other2: "other2"}
    for c, a in zip(comps, answers):
        objs = [Obj() for _ in range(4)]
        log = []
        try:
            interp(c, m, objs, log)
            exc = "none"
        except Exception as ex:  # pylint: disable=broad-except
            exc = names.get(type(ex), "unhandledReport" if type(ex) is Exception else type(ex).__name__)
        st = module_state(m)
        flags = [o.is_awaiting for o in objs]
        got = "exc=%s depth=%d awaiting=%s handlers=%d log=%s" % (exc, st[0], "-" if st[1] == 0 else str(st[1]), st[2], ",".join(log) or "-")
        ctx.case(" ".join(wire(c)), nontrivial=len(wire(c)) > 2)
        ctx.count("bracket-computations")
        ctx.sample({"computation": " ".join(wire(c)), "model": a, "impl": got})
        if got != a:
            ctx.disagree("bracket semantics", " ".join(wire(c)), a, got)
        if st != (0, 0, 0) or any(flags):
            ctx.violation("a bracketed computation left module state behind", {"computation": " ".join(wire(c))},
                          expected="depth 0, empty stacks, no is_awaiting flag", observed={"state": st, "flags": flags})
            # repair for the following cases
            internals.set_try_depth(D, 0)
            del internals.awaiting_stack(D)[:]
            del internals.handlers_stack(R)[:]
    # ------------------------------------------------------------------ (b)
    n_hist = 400 if ctx.thorough else 40
    for _ in range(n_hist):
        hist = [rng.choice(POOL_VALID + POOL_INVALID) for _ in range(rng.randint(1, 50))]
        bad_state = None
        for src in hist:
            run_one(src)
            if have_internals and module_state(m) != (0, 0, 0) and bad_state is None:
                bad_state = (src, module_state(m))
        probe = rng.choice(PROBES)
        got = run_one(probe)
        ctx.case(("history", tuple(hist), probe))
        ctx.count("histories")
        ctx.count("history-steps", len(hist))
        if bad_state:
            ctx.violation("module state not restored after an assembly", {"program": bad_state[0]}, expected=(0, 0, 0), observed=bad_state[1])
        if got != fresh[probe]:
            ctx.violation("the result of a probe depends on what the process assembled before", {"history": hist, "probe": probe},
                          expected=repr(fresh[probe])[:300], observed=repr(got)[:300])
    # ------------------------------------------------------------------ (b2) histories over files on disk: the same included
    # files (same path, same text) are met again and again, some with tokens that report or evaluate only once per parse
    # (8/9 in an octal number, a character literal under the output charset, a '.repeat' error flag), under several charsets
    d = impl.scratch_dir()
    try:
        disk = {
            "ok.mac": "tab: .word 1, 2\nlen = . - tab\n",
            "bad8.mac": "rows = 19\n.word rows\n",
            "chr.mac": ".word 'Ж\n.ascii \"Жук\"\n.even\n",
            "rep.mac": ".repeat 2 { lab9: nop }\n",
            "warn.mac": "clr @r1\n.word 'a'\n",
            "once.mac": ".once\nk1 = 5\n.word k1\n",
            "deep.mac": ".include \"ok.mac\"\n.include \"chr.mac\"\n",
        }
        for fn, t in disk.items():
            with open(os.path.join(d, fn), "w", encoding="utf-8") as f:
                f.write(t)
        mains = []
        for inc in ["ok.mac", "bad8.mac", "chr.mac", "rep.mac", "warn.mac", "once.mac", "deep.mac"]:
            mains.append("nop\n.include \"%s\"\nhalt\n" % inc)
            mains.append(".include \"%s\"\n.include \"%s\"\n" % (inc, "once.mac"))
        charsets = ["bk", "koi8-r", "cp1251", "utf-8"]

        def run_disk(mt, cs):
            r = impl.assemble([(os.path.join(d, "main.mac"), mt)], charset=cs, timeout=10)
            return (r.outcome, r.base, r.code, tuple(sorted((dg[0], dg[1], tuple((os.path.basename(p[0] or ""), p[1], p[2]) for p in dg[2])) for dg in r.diags)))
        jobs_d = [(mt, cs) for mt in mains for cs in charsets]
        fresh_d = {}
        for job in (jobs_d if ctx.thorough else rng.sample(jobs_d, 16)):
            impl.load(fresh=True)
            fresh_d[job] = run_disk(*job)
        for _ in range(120 if ctx.thorough else 25):
            impl.load(fresh=True)
            hist = [rng.choice(jobs_d) for _ in range(rng.randint(1, 12))]
            for job in hist:
                run_disk(*job)
            probe = rng.choice(sorted(fresh_d))
            got = run_disk(*probe)
            ctx.case(("disk-history", tuple(hist), probe))
            ctx.count("histories over files on disk")
            if got != fresh_d[probe]:
                ctx.violation("the result of assembling files depends on what the process assembled before (same files, same texts)",
                              {"files": disk, "history": hist, "probe": probe}, expected=repr(fresh_d[probe])[:400], observed=repr(got)[:400])
    finally:
        impl.drop_scratch(d)
    m = impl.load(fresh=True)
    # ------------------------------------------------------------------ (c)
    batch = POOL_VALID + POOL_INVALID + PROBES
    # programs with many names, several of them defective and never used by code (whatever walks the symbol table, the
    # exports or the files must do so in an order the hash seed does not choose)
    defects = ["%s = %s / zero%d", "%s = %s + 1 + %s", "%s = nowhere%d + %s", "%s = 1 << (0 - %s) + %d", "%s = %s %% zero%d"]
    for k in range(60 if ctx.thorough else 24):
        names = ["%s%d" % (rng.choice(["sym", "val", "q", "Count", "x.", "zz$"]), rng.randrange(1000)) for _ in range(rng.randint(4, 14))]
        names = list(dict.fromkeys(names))
        lines = ["zero%d = 0" % k]
        for nm in names:
            c = rng.random()
            if c < 0.3:
                t = rng.choice(defects)
                if t.count("%s") == 3:
                    lines.append(t % (nm, nm, nm))
                elif "%s /" in t or "%s %%" in t:
                    lines.append(t % (nm, rng.choice(names), k))
                elif "nowhere" in t:
                    lines.append(t % (nm, k, rng.choice(names)))
                else:
                    lines.append(t % (nm, rng.choice(names), k))
            elif c < 0.5:
                lines.append("%s == %d" % (nm, rng.randrange(100)))
            elif c < 0.7:
                lines.append("%s: .word %s" % (nm, rng.choice(names)))
            else:
                lines.append("%s = %d" % (nm, rng.randrange(100)))
        if rng.random() < 0.5:
            lines.append(".extern " + ", ".join(rng.sample(names, min(len(names), 3))))
        rng.shuffle(lines)
        batch.append("\n".join(lines) + "\n")
    script = ("import sys, json, hashlib\nsys.path.insert(0, %r)\nfrom harness import impl\nsrcs = json.loads(sys.stdin.read())\nout = []\n"
              "for s in srcs:\n    r = impl.asm1(s)\n    out.append([r.outcome, r.base, r.code.hex() if r.code is not None else None, sorted((d[0], d[1], d[2][0][1], d[2][0][2]) for d in r.diags)])\n"
              "print(hashlib.sha256(json.dumps(out).encode()).hexdigest())\n" % os.path.dirname(os.path.dirname(os.path.abspath(__file__))))
    digests = {}
    for seed in range(32 if ctx.thorough else 6):
        env = dict(os.environ, PYTHONHASHSEED=str(seed), PDPY11_VERIF="1", PYTHONDONTWRITEBYTECODE="1", VERIF_REPO=REPO)
        p = subprocess.run([PY, "-c", script], input=json.dumps(batch).encode(), stdout=subprocess.PIPE, stderr=subprocess.PIPE, env=env, timeout=300)
        digests[seed] = p.stdout.decode().strip() or ("ERR " + p.stderr.decode()[-200:])
        ctx.case(("hashseed", seed))
        ctx.count("hash-seeds")
    if len(set(digests.values())) != 1:
        ctx.violation("results differ between PYTHONHASHSEED values", {"programs": batch}, expected="one digest", observed=digests)
    # ------------------------------------------------------------------ (c2) a probe as the very first assembly of a fresh
    # interpreter against the same probe after other assemblies in another fresh interpreter (interpreter-wide settings and
    # one-time initialisation cannot be reset by re-importing the package, only a new process is fresh)
    import re as _re
    first_probes = [".word 1 << 20000.\n", "big = 1 << 15000.\n.word big\n", ".byte 7 * (1 << 16000.)\n", "x = %s\n.word x\n" % ("7" * 4400),
                    ".word 19\n", ".byte\n", "clr @r1\n", "mov #UNDEF, r0\n", ".ascii \"a€b\"\n", ".rad50 /a!b/\n", "br .+1000\n"] + PROBES[:4] + PROBES[-4:]
    env2 = {k: v for k, v in os.environ.items() if k != "PDPY11_VERIF"}
    env2.update(PYTHONPATH=REPO, PYTHONDONTWRITEBYTECODE="1", PYTHONHASHSEED="0")

    def summary(exit_code, out_text):
        rows = sorted((int(m.group(1)), int(m.group(2)), m.group(3)) for m in _re.finditer(r"^[^\n:]*:(\d+):(\d+): (Error|Warning): ", out_text, _re.M))
        return [exit_code, rows, "internal compiler error" in out_text]
    d2 = impl.scratch_dir()
    try:
        pool_hist = POOL_VALID + POOL_INVALID
        for pr in (first_probes if ctx.thorough else first_probes[:3] + first_probes[-4:] + rng.sample(first_probes[3:-4], 3)):
            with open(os.path.join(d2, "probe.mac"), "w", encoding="utf-8") as f:
                f.write(pr)
            # (1) the real command line in a new interpreter: nothing was assembled, nothing was imported before
            p2 = subprocess.run([PY, "-m", "pdpy11", "probe.mac", "--report-format=bare", "-o", "probe.out"], cwd=d2, env=env2,
                                stdout=subprocess.PIPE, stderr=subprocess.PIPE, timeout=120)
            alone = summary(p2.returncode, p2.stdout.decode("utf-8", "replace") + p2.stderr.decode("utf-8", "replace"))
            if os.path.exists(os.path.join(d2, "probe.out")):
                os.remove(os.path.join(d2, "probe.out"))
            # (2) the same command line in this process, after a history of other assemblies
            hist2 = [rng.choice(pool_hist) for _ in range(rng.randint(1, 6))]
            for h in hist2:
                run_one(h)
            res2 = impl.run_cli(["probe.mac", "--report-format=bare", "-o", "probe.out"], cwd=d2)
            after = summary(res2.exit, res2.stdout.decode("utf-8", "replace") + res2.stderr)
            if os.path.exists(os.path.join(d2, "probe.out")):
                os.remove(os.path.join(d2, "probe.out"))
            ctx.case(("first-in-process", pr[:60], tuple(hist2)))
            ctx.count("probes run first in a new interpreter and after a history in this one")
            if alone != after:
                ctx.violation("the result of an assembly depends on whether it is the first one of the process", {"probe": pr[:300], "history": hist2},
                              expected=repr(after)[:300], observed=repr(alone)[:300])
            elif alone[2]:
                ctx.violation("the first assembly of a fresh process ended in an internal error", {"probe": pr[:300]}, expected="a result or diagnostics", observed=repr(alone)[:300])
    finally:
        impl.drop_scratch(d2)
    # ------------------------------------------------------------------ (d)
    audit(ctx)


WATCHED_ATTRS = {"depth", "awaiting_stack", "handlers_stack", "is_awaiting", "is_error_condition", "next_instance_id"}
ALLOWED = {("deferred.py", "TryCompute"), ("deferred.py", "Awaiting"), ("deferred.py", "BaseDeferred"), ("deferred.py", "Deferred"),
           ("reports.py", "handle_reports"), ("reports.py", "emit_report"), ("deferred.py", "<module>"), ("reports.py", "<module>")}


def audit(ctx):
    """every store / mutating call on the watched module-level attributes must sit inside the
    bracket classes (or the module top level that initialises them)"""
    offenders = []
    pkg = os.path.join(REPO, "pdpy11")
    for fn in sorted(os.listdir(pkg)):
        if not fn.endswith(".py"):
            continue
        with open(os.path.join(pkg, fn), encoding="utf-8") as f:
            tree = ast.parse(f.read())
        for top in tree.body:
            owner = top.name if isinstance(top, (ast.ClassDef, ast.FunctionDef)) else "<module>"
            for node in ast.walk(top):
                tgt = None
                if isinstance(node, (ast.Assign, ast.AugAssign, ast.AnnAssign)):
                    targets = node.targets if isinstance(node, ast.Assign) else [node.target]
                    for t in targets:
                        if isinstance(t, ast.Attribute) and t.attr in WATCHED_ATTRS:
                            tgt = t.attr
                elif isinstance(node, ast.Call) and isinstance(node.func, ast.Attribute) and node.func.attr in ("append", "pop", "remove", "clear", "insert", "extend"):
                    v = node.func.value
                    if isinstance(v, ast.Attribute) and v.attr in WATCHED_ATTRS:
                        tgt = v.attr
                if tgt and (fn, owner) not in ALLOWED:
                    offenders.append("%s:%d %s writes %s" % (fn, node.lineno, owner, tgt))
    ctx.case("audit")
    ctx.extra["state_write_audit"] = {"offenders": offenders}
    if offenders:
        ctx.disagree("module state written outside the bracket classes (the State model no longer covers every writer)", offenders, "none", offenders)


def search(ctx, broken):
    if not ctx.thorough:
        ctx.thorough = True
        run(ctx)


def replay(ctx, path):
    with open(path, encoding="utf-8") as f:
        rep = json.load(f)
    print(json.dumps(rep.get("violation") or rep, indent=1)[:3000])
    return 0
