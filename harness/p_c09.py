"""C09 relocation law: the same generated source linked at three bases; only absolute
address words may move, each by exactly the difference of the bases."""
import json
import os

from . import impl, asmrun
from .gen import ProgramGen, render


def words(code):
    return [code[i] | (code[i + 1] << 8) for i in range(0, len(code) - 1, 2)]


def run(ctx):
    impl.load()
    rng = ctx.rng("c09")
    ctx.rule = ("generated programs of the relocation fragment (address +- number, differences of addresses, numbers) in 1-3 files, 40% with an "
                "included file that refers to the including file's exported labels, "
                "each linked at three bases that are multiples of 16, one of them close to the top of the address space so that "
                "addresses wrap through 0o177777; a sub-stream without absolute references must be byte-identical. distinct = distinct "
                "program texts; non-trivial = at least one word of the image moves, or the program is in the position-independent stream")
    n = 1200 if ctx.thorough else 200
    reqs, jobs = [], []
    for it in range(n):
        pic = it % 3 == 0
        feat = {"linear": True, "pic": pic, "export": 0.1, "skip": not pic}
        nfiles = rng.choice([1, 1, 2, 3])
        texts = []
        with_inc = rng.random() < 0.4
        inc_text = None
        pool0 = []
        for i in list(range(nfiles)) + (["inc"] if with_inc else []):
            if i == "inc":
                # an included file that refers to the including file's exported labels (and nothing else outside)
                g = ProgramGen(rng, tag="_i", features=feat, n_stmts=rng.randint(4, 14), extern_pool=pool0)
            else:
                g = ProgramGen(rng, tag="" if i == 0 else "_%d" % i, features=dict(feat, export=1.0) if (with_inc and i == 0) else feat, n_stmts=rng.randint(6, 30))
            items = g.generate()
            if i == 0:
                pool0 = list(g.planned_labels)
            if pic:
                labels = set(g.planned_labels) | (set(pool0) if i == "inc" else set())

                def coef(e):
                    if e[0] == "sym":
                        return 1 if e[1] in labels else 0
                    if e[0] == "dot":
                        return 1
                    if e[0] == "bin":
                        a, b = coef(e[2]), coef(e[3])
                        if e[1] == "+":
                            return a + b
                        if e[1] == "-":
                            return a - b
                        return 99 if (a or b) else 0
                    if e[0] == "un":
                        return -coef(e[2]) if e[1] == "-" else coef(e[2])
                    return 0
                for item in items + [b for it2 in items if it2["kind"] == "repeat" for b in it2["body"]]:
                    if item["kind"] == "dir" and item["name"] in (".word", "implicit", ".dword"):
                        item["args"] = [a if coef(a) == 0 else ("lit", rng.randrange(0, 500)) for a in item["args"]]
            if i == "inc":
                inc_text = render(items, rng)
            else:
                texts.append(render(items, rng))
        d = None
        if with_inc:
            d = impl.scratch_dir()
            with open(os.path.join(d, "inc.mac"), "w", encoding="utf-8") as f:
                f.write(inc_text)
            lines = texts[0].split("\n")
            depth, slots = 0, [0]
            for j, ln in enumerate(lines):
                depth += ln.count("{") - ln.count("}")
                # only where the address is even before and after the insertion anyway (the inserted block forces an even
                # address; between two odd-sized strings it would move every following instruction to an odd one)
                if depth == 0 and (ln.strip() == ".even" or j + 1 == len(lines) or lines[j + 1].strip() == ".even"):
                    slots.append(j + 1)
            lines.insert(rng.choice(slots), ".even\n.include \"inc.mac\"\n.even")
            texts[0] = "\n".join(lines)
            ctx.count("programs with an included file")
        root = d or "/w"
        b1 = rng.randrange(0, 0o1700) * 16
        probe = impl.assemble([(root + "/f%d.mac" % i, (".link %o\n" % b1 if i == 0 else "") + t) for i, t in enumerate(texts)])
        length = len(probe.code) if probe.outcome == "ok" else 0
        # an absolute address word must fit 16 bits: unless the program is position-independent it is
        # placed so that it ends just below the top of the address space; position-independent code
        # is placed across the top (its addresses wrap through 0o177777)
        top = 0o177700 - 16 * rng.randrange(0, 3) if pic else ((65536 - length - 48) // 16 - rng.randrange(0, 2)) * 16
        bases = [b1, rng.randrange(0, 0o7000) * 16, max(top, 0)]
        results = []
        for b in bases:
            files = [(root + "/f%d.mac" % i, (".link %o\n" % b if i == 0 else "") + t) for i, t in enumerate(texts)]
            r = impl.assemble(files)
            mfiles = [("/w/f%d.mac" % i, t) for i, (_p, t) in enumerate(files)] + ([("/w/inc.mac", inc_text)] if with_inc else [])
            results.append((b, mfiles, r))
            reqs.append(asmrun.asm_request(mfiles, len(files)))
            jobs.append((mfiles, r))
        if d:
            impl.drop_scratch(d)
        inp = {"files": [(p, t) for p, t in results[0][1]], "bases": bases}
        ctx.count("pic-stream" if pic else "general-stream")
        if any(r.outcome in ("crash", "hang") for _, _, r in results):
            ctx.violation("a generated program ended in a crash or hang", inp, expected="a result", observed=[r.exc for _, _, r in results])
            continue
        outs = {r.outcome for _, _, r in results}
        if outs != {"ok"}:
            # e.g. a branch out of reach: then it must fail at every base alike
            ctx.case(json.dumps(texts), nontrivial=False)
            if len(outs) > 1:
                ctx.violation("success or failure depends on the link base", inp, expected="one outcome", observed=[(b, r.outcome, r.error_ids()) for b, _, r in results])
            continue
        (b1, _, r1), (b2, _, r2), (b3, _, r3) = results
        if not (len(r1.code) == len(r2.code) == len(r3.code)) or r1.base != b1 or r2.base != b2 or r3.base != b3:
            ctx.violation("image length or reported base depends on the base", inp, expected="equal lengths, base as linked", observed=[(r.base, len(r.code)) for _, _, r in results])
            continue
        w1, w2, w3 = words(r1.code), words(r2.code), words(r3.code)
        moved = 0
        bad = None
        for i, (a, b, c) in enumerate(zip(w1, w2, w3)):
            d12, d13 = (b - a) % 65536, (c - a) % 65536
            ok = False
            for k in (0, 1, -1):
                if d12 == (k * (b2 - b1)) % 65536 and d13 == (k * (b3 - b1)) % 65536:
                    ok = True
                    if k != 0:
                        moved += 1
                    break
            if not ok and bad is None:
                bad = (i, a, b, c)
        if len(r1.code) % 2 and not (r1.code[-1] == r2.code[-1] == r3.code[-1]):
            bad = bad or ("last byte", r1.code[-1], r2.code[-1], r3.code[-1])
        ctx.case(json.dumps(texts), nontrivial=moved > 0 or pic)
        ctx.count("moved-words", moved)
        ctx.sample({"bases": bases, "image_len": len(r1.code), "words_that_move": moved, "pic": pic, "first_file": texts[0][:200]})
        if bad is not None:
            ctx.violation("a word changed by something other than the difference of the bases", inp,
                          expected="unchanged, or +-(b2 - b1) mod 2^16", observed={"word_index": bad[0], "values": bad[1:]})
        if pic and not (r1.code == r2.code == r3.code):
            ctx.violation("code that refers to its own labels only through branches and relative operands is not position-independent", inp,
                          expected="identical images", observed={"moved_words": moved})
    for (files, r), a in zip(jobs, ctx.driver.ask(reqs)):
        m = asmrun.parse_answer(a)
        if m["outcome"] == "unsupported":
            continue
        if m["outcome"] == "ok":
            if r.outcome != "ok" or r.base != m["base"] or r.code != m["code"]:
                ctx.disagree("whole-program model at this base", {"files": files}, {"outcome": m["outcome"], "base": m["base"]}, r.summary())
        elif m["outcome"] == "failed":
            if r.outcome != "failed":
                ctx.disagree("whole-program model at this base", {"files": files}, {"outcome": m["outcome"], "diags": m["diags"][:5]}, r.summary())
        else:
            ctx.disagree("whole-program model at this base", {"files": files}, {"outcome": m["outcome"], "note": m.get("note")}, r.summary())


    from . import worlds, polyrun
    worlds.stream_relocate(ctx, ctx.rng("c09-worlds"), 1200 if ctx.thorough else 250, impl)
    polyrun.poly_stream(ctx, ctx.rng("c09-poly"), 1500 if ctx.thorough else 300)


def search(ctx, broken):
    if not ctx.thorough:
        ctx.thorough = True
        run(ctx)


def replay(ctx, path):
    with open(path, encoding="utf-8") as f:
        rep = json.load(f)
    print(json.dumps(rep.get("violation") or rep, indent=1, ensure_ascii=False)[:4000])
    return 0
