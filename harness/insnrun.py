"""Instruction-level cases: rendering of value-level operands to source text (with
random spellings), wire format for the model driver, and a batched runner that
assembles them with the real code and compares with the model's `insn` verb."""
import bisect

from . import impl
from .common import parse_kv, parse_nl

# operand = (kind, ...) mirroring Model.Insn.Operand:
#  ('R', reg) ('D', reg) ('L', reg) ('I', reg) ('J', reg) ('E', reg) ('F', reg)
#  ('X', x, reg) ('Y', x, reg) ('Z', reg) ('#', v) ('A', v) ('V', v) ('W', v) ('C', n)
# reg = ('n', 0..7) | ('p', int)
EXT_KINDS = {"X", "Y", "Z", "#", "A", "V", "W"}


def wire_reg(reg):
    return "%s%d" % reg


def wire_operand(op):
    k = op[0]
    if k in "RDLIJEFZ":
        return "%s:%s" % (k, wire_reg(op[1]))
    if k in "XY":
        return "%s:%d:%s" % (k, op[1], wire_reg(op[2]))
    if k in "#AVW":
        return "%s:%d" % (k, op[1])
    if k == "C":
        return "C:%d" % op[1]
    raise ValueError(op)


def num(v, rng, allow_bare_octal=True, chars=True):
    """a numeric literal denoting v, in a random spelling"""
    neg = v < 0
    a = -v if neg else v
    forms = ["%d." % a, "0x%x" % a, "0o%o" % a, "^D%d" % a, "^O%o" % a, "^X%x" % a, "0b%s" % bin(a)[2:], "^B%s" % bin(a)[2:]]
    if allow_bare_octal:
        forms += ["%o" % a] * 4
    # character literals: 'c is the code of c, "cd is c in the low byte and d in the high byte (as in MACRO-11)
    lo, hi = a & 0xFF, a >> 8
    # (not for negative values: '-' before a character literal is a prefix operator, which may not follow an infix one)
    if not neg and chars and a < 0x80 and chr(a).isalnum():
        forms += ["'" + chr(a)] * 3
    elif not neg and chars and a < 0x8000 and chr(lo).isalnum() and chr(hi).isalnum() and lo < 0x80:
        forms += ['"' + chr(lo) + chr(hi)] * 6
    s = rng.choice(forms)
    if s[0] in "'\"":
        return s
    if rng.random() < 0.3:
        s = s.upper() if not s.endswith(".") else s
    return ("-" + s) if neg else s


def render_reg(reg, rng):
    kind, v = reg
    if kind == "n":
        names = ["r%d" % v, "R%d" % v]
        if v == 6:
            names += ["sp", "SP", "sp"]
        if v == 7:
            names += ["pc", "PC", "pc"]
        return rng.choice(names)
    return "%" + num(v, rng)


def render_operand(op, rng, as_value=None):
    """source text of an operand; expressions are literals (callers wanting symbols
    render 'V'/'W' themselves through as_value)"""
    k = op[0]
    val = as_value if as_value is not None else (lambda v: num(v, rng))
    if k == "R":
        return render_reg(op[1], rng)
    if k == "D":
        return "(" + render_reg(op[1], rng) + ")"
    if k == "L":
        return "@" + render_reg(op[1], rng)
    if k == "I":
        return "(" + render_reg(op[1], rng) + ")+"
    if k == "J":
        return "@(" + render_reg(op[1], rng) + ")+"
    if k == "E":
        return "-(" + render_reg(op[1], rng) + ")"
    if k == "F":
        return "@-(" + render_reg(op[1], rng) + ")"
    if k == "X":
        return val(op[1]) + "(" + render_reg(op[2], rng) + ")"
    if k == "Y":
        return "@" + val(op[1]) + "(" + render_reg(op[2], rng) + ")"
    if k == "Z":
        return "@(" + render_reg(op[1], rng) + ")"
    if k == "#":
        return "#" + val(op[1])
    if k == "A":
        return "@#" + val(op[1])
    if k == "V":
        return val(op[1])
    if k == "W":
        return "@" + val(op[1])
    if k == "C":
        return rng.choice(["ac%d", "AC%d", "Ac%d"]) % op[1]
    raise ValueError(op)


def case_size(stub_classes, ops):
    n = 2
    for cls, op in zip(stub_classes, ops):
        if cls in ("registerMode", "fp11rm") and op[0] in EXT_KINDS:
            n += 2
    return n


class InsnCase:
    """one instruction case.  `build(emit) -> (ops, src)` lets operands depend on the address the
    instruction ends up at (targets relative to it); fixed cases pass ops/src directly."""
    __slots__ = ("name", "ops", "src", "emit", "tag", "model", "impl", "size", "build", "info")

    def __init__(self, name, ops=None, src=None, tag=None, build=None, info=None):
        self.name = name
        self.ops = ops
        self.src = src
        self.tag = tag
        self.build = build
        self.info = info
        self.emit = None
        self.model = None
        self.impl = None
        self.size = None

    def place(self, emit, stub_classes_of):
        self.emit = emit
        if self.build is not None:
            self.ops, self.src = self.build(emit)
        self.size = case_size(stub_classes_of(self.name), self.ops)


def model_request(case):
    return "insn %s %d %s" % (case.name.lower(), case.emit, " ".join(wire_operand(o) for o in case.ops))


def parse_model(ans):
    t = ans.split()
    d = parse_kv(" ".join(t[1:]))
    return {"kind": t[0], "words": parse_nl(d["w"]) if "w" in d else None,
            "errs": sorted(set(x for x in d.get("e", "-").split(",") if x != "-")),
            "warns": sorted(set(x for x in d.get("wn", "-").split(",") if x != "-")), "raw": ans}


def _line_starts(lines, offset):
    starts = []
    pos = offset
    for ln in lines:
        starts.append(pos)
        pos += len(ln) + 1
    return starts


def run_program(prelude, lines, base, postlude="", timeout=60):
    """assemble `.link base` + prelude + lines + postlude; attribute diagnostics to lines.
    `prelude` may be a function of the lines (so that only the symbols they mention are defined)."""
    if callable(prelude):
        prelude = prelude(lines)
    head = ".link %d.\n" % base + prelude
    text = head + "\n".join(lines) + "\n" + postlude
    starts = _line_starts(lines, len(head))
    r = impl.asm1(text, timeout=timeout)
    per = [{"errs": set(), "warns": set()} for _ in lines]
    stray = []
    for sev, ident, locs in r.diags:
        p = locs[0][1] if locs and locs[0][1] is not None else -1
        i = bisect.bisect_right(starts, p) - 1
        if 0 <= i < len(lines) and p < starts[i] + len(lines[i]) + 1:
            per[i]["warns" if sev == "warning" else "errs"].add(ident)
        else:
            stray.append((sev, ident))
    return r, per, stray


def _klass(m):
    if m["kind"] == "ok" and not m["errs"]:
        return "good"
    if m["kind"] == "ok":
        return "soft"
    return "hard"


def _ask(ctx, cases):
    answers = ctx.driver.ask([model_request(c) for c in cases])
    for c, a in zip(cases, answers):
        c.model = parse_model(a)


def run_cases(ctx, cases, stub_classes_of, base=0o1000, prelude="", postlude="", batch=400, compare_warnings=True, on_result=None):
    """fills case.model / case.impl, records disagreements with the model, calls
    on_result(case) (the property oracle).  Cases the model accepts are assembled in
    batches (one program, sequential addresses); cases with non-aborting errors likewise
    (the program must fail, errors attributed by line); the rest one program each."""
    # phase 1: provisional placement to learn each case's class
    for c in cases:
        c.place(base, stub_classes_of)
    _ask(ctx, cases)
    groups = {"good": [], "soft": [], "hard": []}
    for c in cases:
        groups[_klass(c.model)].append(c)
    single = list(groups["hard"])
    for kind in ("good", "soft"):
        g = groups[kind]
        for k in range(0, len(g), batch):
            b = g[k:k + batch]
            addr = base
            for c in b:
                c.place(addr, stub_classes_of)
                addr += c.size
            _ask(ctx, b)
            stable = [c for c in b if _klass(c.model) == kind]
            if len(stable) != len(b):
                single += b
                continue
            r, per, stray = run_program(prelude, [c.src for c in b], base, postlude)
            total = sum(c.size for c in b)
            if kind == "good" and r.outcome == "ok" and len(r.code) == total and not stray:
                off = 0
                for c, p in zip(b, per):
                    ws = [r.code[off + 2 * j] | (r.code[off + 2 * j + 1] << 8) for j in range(c.size // 2)]
                    off += c.size
                    c.impl = {"outcome": "ok", "words": ws, "errs": [], "warns": sorted(p["warns"]), "exc": None}
            elif kind == "soft" and r.outcome == "failed" and not stray and all(p["errs"] for p in per):
                for c, p in zip(b, per):
                    c.impl = {"outcome": "failed", "words": None, "errs": sorted(p["errs"]), "warns": sorted(p["warns"]), "exc": None}
            else:
                single += b
    for c in single:
        # one program per case at a fixed address
        c.place(base, stub_classes_of)
    if single:
        _ask(ctx, single)
    for c in single:
        r, per, stray = run_program(prelude, [c.src], c.emit, postlude, timeout=20)
        ws = None
        if r.outcome == "ok":
            ws = [r.code[2 * j] | (r.code[2 * j + 1] << 8) for j in range(len(r.code) // 2)]
        c.impl = {"outcome": r.outcome, "words": ws, "errs": sorted(per[0]["errs"] | {i for s, i in stray if s != "warning"}),
                  "warns": sorted(per[0]["warns"]), "exc": r.exc}
    for c in cases:
        compare(ctx, c, compare_warnings)
        if on_result is not None:
            on_result(c)
    ctx.count("insn-cases-batched", len(cases) - len(single))
    ctx.count("insn-cases-single", len(single))


def compare(ctx, c, compare_warnings=True):
    m, i = c.model, c.impl
    ok = True
    if m["kind"] == "ok" and not m["errs"]:
        ok = i["outcome"] == "ok" and i["words"] == m["words"]
    elif m["kind"] in ("ok", "abort"):
        ok = i["outcome"] == "failed" and i["errs"] == m["errs"]
    elif m["kind"] == "crash":
        ok = i["outcome"] == "crash"
    else:
        ok = False
    if ok and compare_warnings and i["outcome"] != "crash":
        ok = i["warns"] == m["warns"]
    if not ok:
        ctx.disagree("instruction encoding", {"source": c.src, "emit": c.emit, "request": model_request(c)}, m["raw"], i)


_STUB_CLS = {
    "RegisterOperandStub": "register", "RegisterModeOperandStub": "registerMode", "FP11RMOperandStub": "fp11rm",
    "FP11AccumulatorOperandStub": "fp11acc", "OffsetOperandStub": "offset", "ImmediateOperandStub": "immediate",
}


def stub_classes_of(name):
    insn = impl.mod("insns").instructions[name]
    return [_STUB_CLS[type(s).__name__] for s in insn.operands]


def stubs_of(name):
    return impl.mod("insns").instructions[name].operands


def all_mnemonics():
    return [k for k, _ in impl.mod("insns").instructions.container.values()]
