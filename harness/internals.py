"""Access to private names of the implementation that the unit-level ties read (the awaiting stack, the
handler stack, a thunk's two memories, the compiler's prefix table).  A renamed attribute is found again when
the new name is unambiguous; otherwise TieBroken is raised, which a stream turns into a broken correspondence
(reported as such, never as an infrastructure error)."""


class TieBroken(Exception):
    pass


def _names(obj):
    out = set()
    objs = [obj] if isinstance(obj, type) else [obj, type(obj)]
    for o in objs:
        for c in (o.__mro__ if isinstance(o, type) else [o]):
            out.update(getattr(c, "__dict__", {}).keys())
            out.update(getattr(c, "__slots__", []) or [])
    return {k for k in out if not k.startswith("__")}


def find(obj, name, pred=None, words=()):
    """the attribute `name` of obj; if it is gone: the one attribute whose name contains one of `words` (or the
    squeezed old name) and whose value satisfies `pred`"""
    if hasattr(obj, name):
        return name
    want = name.replace("_", "").lower()
    cands = []
    for k in _names(obj):
        sq = k.replace("_", "").lower()
        if not (want in sq or any(w in sq for w in words)):
            continue
        if not hasattr(obj, k):
            continue
        if pred is not None:
            try:
                if not pred(getattr(obj, k)):
                    continue
            except Exception:  # pylint: disable=broad-except
                continue
        cands.append(k)
    if len(cands) == 1:
        return cands[0]
    raise TieBroken("%s.%s is gone and cannot be identified again (candidates: %s)" % (getattr(obj, "__name__", type(obj).__name__), name, sorted(cands)))


def get(obj, name, pred=None, words=()):
    return getattr(obj, find(obj, name, pred, words))


def awaiting_stack(D):
    return get(D.Awaiting, "awaiting_stack", lambda v: isinstance(v, list), ("stack",))


def handlers_stack(R):
    return get(R.handle_reports, "handlers_stack", lambda v: isinstance(v, list), ("stack", "handlers"))


def try_depth(D):
    return get(D.try_compute, "depth", lambda v: isinstance(v, int), ("depth", "level", "nesting"))


def set_try_depth(D, v):
    setattr(D.try_compute, find(D.try_compute, "depth", lambda x: isinstance(x, int), ("depth", "level", "nesting")), v)


def thunk_memory(D, t):
    """('v', value) | ('n',) gave up in the current epoch | ('-',)"""
    settled = get(t, "settled", lambda v: isinstance(v, bool), ("settled", "done", "resolved"))
    if settled:
        return ("v", get(t, "value", None, ("value", "result")))
    ep = get(t, "not_ready_epoch", lambda v: v is None or isinstance(v, int), ("epoch",))
    cur = get(D.Readiness, "epoch", lambda v: isinstance(v, int), ("epoch", "generation"))
    return ("n",) if ep == cur else ("-",)
