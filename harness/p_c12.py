"""C12 the link base: link expressions K + sum k_i (L_i - L_j) in many shapes with the
labels anywhere in 1-3 files, self-dependent expressions, second .link, default base,
leading '. =', forward/backward skips; against the whole-program Lean model and the
expectation the generator computes itself."""
import json

from . import impl, asmrun, polyrun
from .p_c02 import trace_invariant
from .gen import ProgramGen, render, Item
from .insnrun import num


def run(ctx):
    impl.load()
    rng = ctx.rng("c12")
    ctx.rule = ("programs of 1-3 files (labels at even offsets) with one '.link <expr>' placed anywhere in the first file, the expression "
                "K + sum k_i*(L_i - L_j) written directly, through intermediate symbols, with '>> 0', '<< k' and '/' of differences; "
                "self-dependent variants (odd number of addresses), a second '.link', no '.link', a leading '. =', and '. =' skips of "
                "-64..64 bytes. The expected base is computed from the label offsets of a reference assembly at a fixed base. "
                "Second stream: random scripts over deferred.LinearPolynomial itself (list/dict constructor with duplicate and zero "
                "coefficients, +, * by a known integer, unary -, promises settled with integers, other promises or polynomials, "
                "_substitute_known, wait()) compared step by step with Model.Poly and with plain integer arithmetic. "
                "distinct = distinct program texts; non-trivial = the link expression mentions at least one label")
    feat = {"linear": True, "skip": False, "export": 0.3, "repeat": True}
    n = 1200 if ctx.thorough else 250
    reqs, jobs = [], []
    for it in range(n):
        nfiles = rng.choice([1, 1, 2, 3])
        gens, itemsets = [], []
        for i in range(nfiles):
            g = ProgramGen(rng, tag="" if i == 0 else "_%d" % i, features=feat, n_stmts=rng.randint(5, 20))
            items = g.generate()
            # labels at even offsets, no alignment beyond .even
            # only statements of even size and none whose size depends on the address: a difference
            # of labels with '.even' (or any address-dependent directive) between them is genuinely
            # base-dependent and the implementation reports it as such
            fixed = []
            for item in items:
                if item["kind"] == "dir" and item["name"] in (".align", ".odd", ".even", ".byte", ".blkb"):
                    continue
                if item["kind"] in ("str", "skip"):
                    continue
                if item["kind"] == "repeat":
                    item["body"] = [b for b in item["body"] if b["kind"] != "str"]
                if item["kind"] == "label" and not item.get("local") and i > 0:
                    item["export"] = True      # labels of other files must be visible to the link expression
                fixed.append(item)
            gens.append(g)
            itemsets.append(fixed)
        labels = [l for g in gens for l in g.planned_labels]
        # reference assembly: learn the offsets
        ref_files = [("/w/f%d.mac" % i, (".link 40000\n" if i == 0 else "") + render(its, rng)) for i, its in enumerate(itemsets)]
        ref = impl.assemble(ref_files, want_symbols=True)
        if ref.outcome != "ok":
            continue
        offs = {}
        for name, v in ref.symbols.items():
            if name.startswith(".internal"):
                offs[name[9:].partition(".")[2].lower()] = v - 0o40000
        kind = rng.choice(["plain", "plain", "plain", "viasym", "shift0", "shl", "div", "self", "self2", "second", "none", "leading-dot", "outofrange"])
        second_elsewhere = None
        K = rng.randrange(0, 0o1400) * 2
        pairs = [(rng.choice(labels), rng.choice(labels), rng.choice([1, 1, 2, -1])) for _ in range(rng.randint(1, 3))] if labels else []
        diff_value = sum(k * (offs[a.lower()] - offs[b.lower()]) for a, b, k in pairs)

        def diff_text():
            parts = []
            for a, b, k in pairs:
                t = "(%s - %s)" % (a, b)
                if k == 2:
                    # also distributed, with the address on the left of '*' and the subtrahend first
                    t = rng.choice(["2 * " + t, t + " * 2", t + " + " + t, "%s*2 - %s*2" % (a, b), "(0 - %s*2 + %s*2)" % (b, a), "2*%s - 2*%s" % (a, b)])
                elif k == -1:
                    t = "(%s - %s)" % (b, a)
                parts.append(t)
            return " + ".join(parts)
        extra_first = []
        expect_err = None
        expected = None
        if kind == "plain":
            expr = "%s + %s" % (num(K, rng), diff_text())
            expected = K + diff_value
        elif kind == "viasym":
            extra_first.append("lnk$d = " + diff_text())
            expr = "lnk$d + %s" % num(K, rng)
            expected = K + diff_value
        elif kind == "shift0":
            expr = "<%s + %s> >> 0" % (num(K, rng), diff_text())
            expected = K + diff_value
        elif kind == "shl":
            expr = "%s + <%s << 1>" % (num(K, rng), diff_text())
            expected = K + 2 * diff_value
        elif kind == "div":
            expr = "%s + <%s> / 2" % (num(K, rng), diff_text())
            expected = K + diff_value // 2
        elif kind == "self":
            expr = "%s + %s" % (num(K, rng), labels[0] if labels else ".")
            expect_err = "recursive-definition"
        elif kind == "self2":
            expr = "%s + %s + %s - %s" % (num(K, rng), labels[0] if labels else ".", labels[-1] if labels else ".", "2") if rng.random() < 0.5 else "<%s + %s> / 2" % (num(K, rng), labels[0] if labels else ".")
            expect_err = "recursive-definition"
        elif kind == "second":
            expr = num(K, rng)
            # another value, the same value spelled differently, or the very same text (a project whose files all begin alike)
            second = rng.choice([num(K + 2, rng), num(K + 2, rng), num(K, rng), expr, expr])
            if rng.random() < 0.4 and len(itemsets) > 1:
                second_elsewhere = ".link " + second
            else:
                extra_first.append(".link " + second)
            expected = K
            expect_err = "address-conflict"
        elif kind == "none":
            expr = None
            expected = 0o1000
        elif kind == "leading-dot":
            expr = None
            expected = K
        else:
            expr = "%s + %s" % (num(70000 + K, rng), diff_text())
            expect_err = "value-out-of-bounds"
        if expected is not None and expected % 2:
            continue        # an odd base changes what '.even' emits: outside this stream
        if expected is not None and not (0 <= expected < 60000) and expect_err is None:
            continue
        texts = []
        for i, its in enumerate(itemsets):
            lines = render(its, rng).split("\n")
            if i == 0:
                if kind == "leading-dot":
                    lines.insert(0, ". = %s" % num(K, rng))
                elif expr is not None:
                    # the directive anywhere among the top-level lines (not inside a repeat body)
                    depth = 0
                    slots = [0]
                    for j, ln in enumerate(lines):
                        depth += ln.count("{") - ln.count("}")
                        if depth == 0:
                            slots.append(j + 1)
                    pos = rng.choice(slots)
                    lines.insert(pos, ".link " + expr)
                for e in extra_first:
                    lines.append(e)
            elif i == 1 and second_elsewhere:
                lines.insert(rng.choice([0, len(lines)]), second_elsewhere)
            texts.append("\n".join(lines))
        files = [("/w/f%d.mac" % i, t) for i, t in enumerate(texts)]
        r = impl.assemble(files, want_symbols=True)
        inp = {"files": files, "kind": kind, "K": K, "pairs": pairs}
        ctx.case(json.dumps(texts), nontrivial=bool(pairs) and kind not in ("none", "leading-dot", "second"))
        ctx.count("kind-" + kind)
        ctx.sample({"kind": kind, "link": expr, "expected_base": expected, "impl": (r.outcome, r.base, r.error_ids())})
        if r.outcome in ("crash", "hang"):
            ctx.violation("a link expression ended in " + r.outcome, inp, expected="a base or an error", observed=r.exc)
            continue
        if expect_err is not None:
            if r.outcome == "ok" or expect_err not in r.error_ids():
                ctx.violation("a self-dependent / conflicting / oversized link base was not reported", inp, expected=expect_err, observed=r.summary())
        else:
            if r.outcome != "ok" or r.base != expected:
                ctx.violation("the load address is not the arithmetic value of the link expression", inp, expected=expected, observed=r.summary())
            else:
                # every statement (of every file) lies at base + the bytes before it: the offsets the
                # expectation was computed from are those of the image
                trace_invariant(ctx, r, dict(inp, main_paths=[p for p, _ in files]), dict(files))
                # every label keeps its offset: the image is the reference image relocated
                for name, v in r.symbols.items():
                    if name.startswith(".internal"):
                        nm = name[9:].partition(".")[2].lower()
                        if nm in offs and nm != "lnk$d" and v - expected != offs[nm] and nm.lower() in [l.lower() for l in labels]:
                            ctx.violation("a label is not at base + offset", dict(inp, label=nm), expected=expected + offs[nm], observed=v)
        reqs.append(asmrun.asm_request(files, len(files)))
        jobs.append((inp, r))
    # ---- '. =' skips of every size
    for d in range(-64, 65):
        for form in ("rel", "abs"):
            tgt = (". + %s" % num(d, rng) if d >= 0 else ". - %s" % num(-d, rng)) if form == "rel" else num(0o2000 + 6 + d, rng)
            src = ".link 2000\nnop\n.word 1, 2\n. = %s\nend: .byte 7\n" % tgt
            files = [("/w/f0.mac", src)]
            r = impl.assemble(files)
            inp = {"files": files, "skip": d}
            ctx.case(("skip", d, form))
            ctx.count("skips")
            if d >= 0:
                want = bytes([0xa0, 0, 1, 0, 2, 0]) + bytes(d) + b"\x07"
                if r.outcome != "ok" or r.code != want:
                    ctx.violation("a forward '. =' did not zero-fill the gap", inp, expected=want.hex(), observed=r.summary())
            else:
                if r.outcome == "ok" or "value-out-of-bounds" not in r.error_ids():
                    ctx.violation("a backward '. =' was not refused", inp, expected="value-out-of-bounds", observed=r.summary())
            reqs.append(asmrun.asm_request(files, 1))
            jobs.append((inp, r))
    # ---- bases at the ends of the range: exactly 0 (by '.link 0', a leading '. = 0', an expression that cancels to 0),
    # 2, the last even address; the base reported, the base in the bin header and the label values must all be that number
    ffm = impl.mod("formats").file_formats
    for text, want_base in [(".link 0\nst: nop\nmsg: .word st, msg\n", 0), (". = 0\nst: nop\nmsg: .word st, msg\n", 0),
                            (".link 2 + st - msg\nst: nop\nmsg: .word st, msg\n", 0), (".link msg - st - 2\nst: nop\nmsg: .word st, msg\n", 0),
                            (".link 2\nst: nop\nmsg: .word st, msg\n", 2), (".link 177772\nst: nop\nmsg: .word st, msg\n", 0o177772),
                            (".link z0\nst: nop\nmsg: .word st, msg\nz0 = 0\n", 0), ("st: nop\nmsg: .word st, msg\n", 0o1000)]:
        files = [("/w/f0.mac", text)]
        r = impl.assemble(files)
        inp = {"files": files}
        ctx.case(("edge-base", text))
        ctx.count("bases at the ends of the range")
        want_code = bytes([0xa0, 0]) + (want_base & 0xFFFF).to_bytes(2, "little") + ((want_base + 2) & 0xFFFF).to_bytes(2, "little")
        if r.outcome != "ok" or r.base != want_base or r.code != want_code:
            ctx.violation("the load address is not the value the source states (a base at the end of the range)", inp,
                          expected={"base": want_base, "code": want_code.hex()}, observed=r.summary())
        elif ffm["bin"](r.base, r.code)[:2] != (want_base & 0xFFFF).to_bytes(2, "little"):
            ctx.violation("the bin header does not carry the load address", inp, expected=want_base, observed=ffm["bin"](r.base, r.code)[:4].hex())
        reqs.append(asmrun.asm_request(files, 1))
        jobs.append((inp, r))
    # ---- the same skips when nothing is known yet where the '. =' stands: the amount, the target or the link base are defined
    # further down, the link expression mentions labels behind the skip, and more statements follow the skip
    for it in range(1200 if ctx.thorough else 300):
        d = rng.randint(-20, 64) if rng.random() < 0.8 else rng.choice([0, 1, 2, 255, 256, 1000])
        linkv = rng.choice(["lit", "late", "expr"])     # without a link statement the first ". =" is the link statement
        amount = rng.choice(["lit", "late", "early"])
        form = rng.choice(["rel", "rel", "abs"]) if linkv in ("lit", "late") else "rel"
        tail_n = rng.choice([1, 3, 5]) if linkv == "expr" else rng.randint(1, 4)
        tail_lines = ["t%d: .byte %d." % (i, 7 + i) for i in range(tail_n)]
        tail_bytes = bytes(7 + i for i in range(tail_n))
        base = {"lit": 0o2000, "late": 0o2000, "none": 0o1000, "expr": 0o2000 + (tail_n - 1)}[linkv]
        top, bottom = [], []
        if linkv == "lit":
            top.append(".link 2000")
        elif linkv == "late":
            top.append(".link START")
            bottom.append("START = 2000")
        elif linkv == "expr":
            top.append(".link 2000 + t%d - t0" % (tail_n - 1))
        if form == "rel":
            mag = "GAP" if amount != "lit" else num(abs(d), rng)
            tgt = ". %s %s" % ("+" if d >= 0 else "-", mag)
            gap_def = "GAP = %s" % num(abs(d), rng)
            if d < 0 and rng.random() < 0.5:
                # a negative amount added: '. = . + PAD' with PAD below zero (a difference of two sizes)
                if amount == "lit":
                    tgt = ". + (0 - %s)" % num(abs(d), rng)
                else:
                    tgt = ". + GAP"
                    gap_def = "GAP = %s - %s" % (num(8, rng), num(8 + abs(d), rng))
            if amount == "late":
                bottom.append(gap_def)
            elif amount == "early":
                top.insert(0, gap_def)
        else:
            tv = base + 6 + d
            if amount == "lit":
                tgt = num(tv, rng)
            else:
                tgt = "TGT"
                (bottom if amount == "late" else top).insert(0, "TGT = %s" % num(tv, rng))
        rng.shuffle(bottom)
        src = "\n".join(top + ["nop", ".word 1, 2", ". = " + tgt] + tail_lines + bottom) + "\n"
        files = [("/w/f0.mac", src)]
        r = impl.assemble(files)
        inp = {"files": files, "skip": d, "link": linkv, "amount": amount, "form": form}
        ctx.case(("skip-late", src))
        ctx.count("skips with late knowledge")
        ctx.count("skips: link %s, amount %s" % (linkv, amount))
        if d >= 0:
            want = bytes([0xa0, 0, 1, 0, 2, 0]) + bytes(d) + tail_bytes
            if r.outcome != "ok" or r.code != want or r.base != base:
                ctx.violation("a forward '. =' whose amount, target or base is known only later did not zero-fill the gap at the stated base", inp,
                              expected={"base": base, "code": want.hex()}, observed=r.summary())
        else:
            if r.outcome == "ok" or "value-out-of-bounds" not in r.error_ids():
                ctx.violation("a backward '. =' was not refused", inp, expected="value-out-of-bounds", observed=r.summary())
        if linkv != "expr":
            # (the whole-program model has no size variables besides the link base: a link expression across a skip of
            # unknown length is outside it, DESIGN section 9)
            reqs.append(asmrun.asm_request(files, 1))
            jobs.append((inp, r))
    for (inp, r), a in zip(jobs, ctx.driver.ask(reqs)):
        m = asmrun.parse_answer(a)
        if m["outcome"] == "unsupported":
            continue
        bad = None
        if m["outcome"] == "ok":
            if r.outcome != "ok" or r.base != m["base"] or r.code != m["code"]:
                bad = "ok"
        elif m["outcome"] == "failed":
            mi = sorted({x.split(":")[1] for x in m["diags"] if not x.startswith("warning")})
            if r.outcome != "failed" or ("aborted" not in m.get("note", "") and "link" not in m.get("note", "") and mi != r.error_ids()):
                bad = "failed %s" % mi
        else:
            bad = m["outcome"]
        if bad:
            ctx.disagree("whole-program model (link base)", inp, {"outcome": m["outcome"], "base": m["base"], "diags": m["diags"][:5], "note": m.get("note")}, r.summary())


    # the symbolic arithmetic itself (deferred.LinearPolynomial) against Model.Poly and against integer arithmetic
    polyrun.poly_stream(ctx, ctx.rng("c12-poly"), 3000 if ctx.thorough else 600)


def search(ctx, broken):
    if not ctx.thorough:
        ctx.thorough = True
        run(ctx)


def replay(ctx, path):
    with open(path, encoding="utf-8") as f:
        rep = json.load(f)
    print(json.dumps(rep.get("violation") or rep, indent=1, ensure_ascii=False)[:4000])
    return 0
