"""C02 addresses = where the bytes land: the hook trace invariant on generated programs
and on the practice corpus, the announced sizes against the Lean model (`asize`), and
the whole-program Lean model (`asm`) on the same programs."""
import json
import os

from . import impl, asmrun, internals
from .gen import ProgramGen, render, Item

PRACTICE = os.path.join(impl.REPO, "tests", "practice")


def wait(x):
    return impl.mod("deferred").wait(x)


def trace_invariant(ctx, r, inp, files_text):
    """model-free: for every traced statement the bytes found in the image at the address it was
    given are the bytes it produced; announced size = actual size; image length = sum of the
    top-level sizes; every label's value is the address of the next emitting statement"""
    D = impl.mod("deferred")
    T = impl.mod("types")
    base, code = r.base, r.code
    trace = r.trace or []
    top_total = 0
    entries = []
    for tok, addr, chunk, state in trace:
        a = wait(addr)
        if chunk is None:
            b = b""
            announced = 0
        else:
            b = bytes(wait(chunk))
            if isinstance(chunk, D.BaseDeferred):
                announced = wait(chunk.length())
            else:
                announced = len(chunk)
        entries.append((tok, a, b, announced, state))
        ctx.count("traced-statements")
        where = {"file": os.path.basename(tok.ctx_start.filename), "pos": tok.ctx_start.pos, "text": tok.text()[:40]}
        if announced != len(b):
            ctx.violation("a statement announced a size different from the bytes it produced", dict(inp, statement=where),
                          expected=len(b), observed=announced)
        off = a - base
        if not (0 <= off and off + len(b) <= len(code)) or code[off:off + len(b)] != b:
            ctx.violation("the bytes at the address a statement was given are not the bytes it produced", dict(inp, statement=where),
                          expected=b.hex()[:40], observed={"address": a, "base": base, "image_at": code[max(off, 0):max(off, 0) + len(b)].hex()[:40]})
    # image length: top-level statements are those compiled in context "file"
    mains = inp.get("main_paths")
    for tok, a, b, announced, state in entries:
        if state["context"] == "file" and (mains is None or state["filename"] in mains):
            top_total += len(b)
    if top_total != len(code):
        ctx.violation("the image length is not the sum of the statement sizes", inp, expected=top_total, observed=len(code))
    # labels: value = address of the next emitting statement of the same file (if any)
    comp = r.compiler
    for name, (tok, value) in comp.symbols.items():
        if not isinstance(tok, T.Label):
            continue
        v = wait(value)
        fn, pos = tok.ctx_start.filename, tok.ctx_start.pos
        following = [(t.ctx_start.pos, a) for t, a, b, an, st in entries if t.ctx_start.filename == fn and t.ctx_start.pos > pos and st["context"] == "file"]
        if following:
            nxt = min(following)
            # only when no include sits between (an include's statements live in another file)
            between_include = any(t.ctx_start.filename == fn and pos < t.ctx_start.pos < nxt[0] for t, a, b, an, st in entries) or False
            if not between_include and v != nxt[1]:
                inc_between = [t for t, a, b, an, st in entries if t.ctx_start.filename != fn]
                if not inc_between:
                    ctx.violation("a label's value is not the address of the statement that follows it", dict(inp, label=tok.name),
                                  expected=nxt[1], observed=v)
        off = v - base
        if not (0 <= off <= len(code)):
            ctx.violation("a label lies outside the image", dict(inp, label=tok.name), expected="base <= value <= base + len", observed=v)


def gen_case(rng, d, feat):
    """-> files [(path, text)], nmain, bins"""
    nfiles = rng.choice([1, 1, 2, 3])
    files, bins = [], []
    # without a leading '.link' the implementation re-explores every pending address-dependent
    # directive (known finding F-C08-7, exponential): such programs are kept tiny
    want_link = rng.random() < 0.85
    if not want_link:
        nfiles = 1
    for i in range(nfiles):
        g = ProgramGen(rng, tag="" if i == 0 else "_%d" % i, features=feat, n_stmts=None if want_link else rng.randint(2, 7))
        items = g.generate()
        files_inc = None
        # an included file and an inserted binary now and then (as top-level statements)
        if want_link and rng.random() < 0.3:
            ig = ProgramGen(rng, tag="_i%d" % i, n_stmts=rng.randint(2, 10), features=feat)
            itext = render(ig.generate(), rng)
            files_inc = (os.path.join(d, "inc%d.mac" % i), itext)
            items.insert(rng.randrange(len(items)), Item(kind="raw", text=".even\n.include \"inc%d.mac\"\n.even" % i))
        if rng.random() < 0.3:
            blob = bytes(rng.randrange(256) for _ in range(rng.randrange(0, 40)))
            bins.append((os.path.join(d, "blob%d.bin" % i), blob))
            items.insert(rng.randrange(len(items)), Item(kind="raw", text="insert_file \"blob%d.bin\"\n.even" % i))
        text = render(items, rng)
        if i == 0 and want_link:
            b = rng.choice([0o1000, 0o2000, 0o40000, 0, 0o177000, rng.randrange(0, 0o170000)])
            b -= b % 2
            text = (".link %o\n" % b) + text
        files.append((os.path.join(d, "f%d.mac" % i), text))
        if files_inc:
            files.append(files_inc)
    mains = [f for f in files if os.path.basename(f[0]).startswith("f")]
    incs = [f for f in files if not os.path.basename(f[0]).startswith("f")]
    return mains + incs, len(mains), bins


def run(ctx):
    impl.load()
    rng = ctx.rng("c02")
    ctx.rule = ("generated programs over instructions, data (also '.byte' / '.word' / '.dword' without operands), strings, reserved blocks (also with sizes known only after later "
                "definitions), alignment, location-counter skips, repeats (half of them with bodies whose size depends on their address: odd-sized data next to '.even'), inserted binaries, included files, 1-3 linked files, random "
                "even link bases; plus the 21 practice programs. For each: hook-trace invariant, announced sizes, whole-program model. "
                "distinct = distinct program texts; non-trivial = at least 5 traced statements")
    feat = {"forward_sizes": True, "export": 0.15, "repeat_odd": True, "bare_data": True, "odd_words": True}
    n = 1500 if ctx.thorough else 250
    reqs, jobs = [], []
    for _ in range(n):
        d = impl.scratch_dir()
        try:
            files, nmain, bins = gen_case(rng, d, feat)
            for p, b in bins:
                with open(p, "wb") as f:
                    f.write(b)
            for p, t in files[nmain:]:
                with open(p, "w", encoding="utf-8") as f:
                    f.write(t)
            r = impl.assemble(files[:nmain], want_symbols=True)
            inp = {"files": [(os.path.basename(p), t) for p, t in files], "nmain": nmain, "bins": [(os.path.basename(p), b.hex()) for p, b in bins],
                   "main_paths": [p for p, _ in files[:nmain]]}
            ctx.case(json.dumps(inp["files"]), nontrivial=bool(r.trace) and len(r.trace) >= 5)
            ctx.count("outcome-" + str(r.outcome))
            ctx.count("files-%d" % nmain)
            if r.outcome in ("crash", "hang"):
                ctx.violation("a generated program ended in " + r.outcome, inp, expected="a result or a reported error", observed=r.exc)
                continue
            if r.outcome == "ok":
                trace_invariant(ctx, r, inp, dict(files))
                ctx.sample({"files": inp["files"][:1], "base": r.base, "image_len": len(r.code), "traced": len(r.trace or [])})
            # canonical paths for the model
            mfiles = [("/w/" + os.path.basename(p), t) for p, t in files]
            mbins = [("/w/" + os.path.basename(p), b) for p, b in bins]
            reqs.append(asmrun.asm_request(mfiles, nmain, mbins))
            jobs.append((inp, files, r))
        finally:
            impl.drop_scratch(d)
    # ---- placement worlds: labels of 1-3 linked files and nested includes at addresses known by construction
    from . import worlds
    worlds.stream_layout(ctx, ctx.rng("c02-worlds"), 1500 if ctx.thorough else 300, impl)

    # ---- corpus: shapes the generator does not reach (run model-free: the hook-trace invariant)
    corpus = [
        # the include path is only known after a later definition (F-C02-1)
        ([("m.mac", ".link 2000\nnop\n.include <x>/nc.mac/\nafter: .word after\nx = 151\n"), ("inc.mac", ".word 7, 6\n")], 1),
        ([("m.mac", ".link 2000\n.blkb n\n.even\n. = . + 6\nl: .word l, .\nn = 5\n")], 1),
        ([("m.mac", ".link 2000\n.repeat cnt { .word . \n .ascii /abc/ \n .even }\nl: .word l\ncnt = 3\n")], 1),
        ([("m.mac", ".link 2000\ninsert_file <f>/lob.bin/\n.even\nl: .word l\nf = 142\n")], 1),
    ]
    for cfiles, cn in corpus:
        d = impl.scratch_dir()
        try:
            files = [(os.path.join(d, p), t) for p, t in cfiles]
            for p, t in files[cn:]:
                with open(p, "w", encoding="utf-8") as f:
                    f.write(t)
            with open(os.path.join(d, "blob.bin"), "wb") as f:
                f.write(bytes(range(7)))
            r = impl.assemble(files[:cn], want_symbols=True)
            inp = {"files": cfiles, "nmain": cn, "main_paths": [p for p, _ in files[:cn]]}
            ctx.case(("corpus", json.dumps(cfiles)))
            ctx.count("corpus")
            if r.outcome != "ok":
                ctx.violation("a corpus program does not assemble", inp, expected="ok", observed=r.summary())
            else:
                trace_invariant(ctx, r, inp, dict(files))
        finally:
            impl.drop_scratch(d)

    # ---- shapes that are refused today (a word list left on an odd address): were one accepted, its addresses must still be
    # where its bytes land - with the address of the list known (a '.link' above) or not (no '.link', a size known later
    # before it, an included file)
    srng = ctx.rng("c02-refused")
    for _ in range(300 if ctx.thorough else 60):
        d = impl.scratch_dir()
        try:
            lst = srng.choice(["10, 20, 30", "k", "1", "tab, flag", "177777, 0"])
            body = ["msg: .asci%s \"%s\"" % (srng.choice("iz"), "OK"[:srng.randint(1, 2)])]
            if srng.random() < 0.5:
                body.insert(0, "nop")
            body += [".byte 1"] if srng.random() < 0.3 else []
            body += ["tab: " + lst, "flag: .byte 377", ".even", "ptrs: .word msg, tab, flag, ptrs", "k = 5"]
            where = srng.choice(["link", "nolink", "late", "include", "include"])
            if where == "include":
                with open(os.path.join(d, "tbl.mac"), "w", encoding="utf-8") as f:
                    f.write("\n".join(body[:-2]) + "\n")
                text = ".link 1000\nstart: mov #tab, r0\nhalt\n.include \"tbl.mac\"\n.even\nptrs: .word msg, tab, flag, ptrs, start\nk = 5\n"
            elif where == "late":
                text = ".link 2000\n.blkb n\n" + "\n".join(body) + "\nn = %d\n" % srng.randint(0, 5)
            else:
                text = (".link %o\n" % srng.choice([0o1000, 0o40000]) if where == "link" else "") + "\n".join(body) + "\n"
            files = [(os.path.join(d, "m.mac"), text)]
            r = impl.assemble(files, want_symbols=True)
            inp = {"files": [("m.mac", text)], "nmain": 1, "main_paths": [files[0][0]]}
            ctx.case(("refused-shape", text), nontrivial=False)
            ctx.count("word list on an odd address (%s): %s" % (where, "refused" if r.outcome == "failed" else r.outcome))
            if r.outcome == "ok":
                trace_invariant(ctx, r, inp, dict(files))
            elif r.outcome != "failed":
                ctx.violation("a small program ended in " + r.outcome, inp, expected="a result or a reported error", observed=r.exc)
        finally:
            impl.drop_scratch(d)

    answers = ctx.driver.ask(reqs)
    unsupported = 0
    for (inp, files, r), a in zip(jobs, answers):
        m = asmrun.parse_answer(a)
        if m["outcome"] == "unsupported":
            unsupported += 1
            continue
        problems = []
        if m["outcome"] == "ok":
            if r.outcome != "ok":
                problems.append("outcome %s vs model ok (%s)" % (r.outcome, r.error_ids()))
            else:
                if r.base != m["base"]:
                    problems.append("base %s vs model %s" % (r.base, m["base"]))
                if r.code != m["code"]:
                    problems.append("image differs")
                # per-statement layout of the top-level sequence
        elif m["outcome"] == "failed":
            if r.outcome != "failed":
                problems.append("outcome %s vs model failed %s" % (r.outcome, m["diags"][:4]))
            else:
                mi = sorted({x.split(":")[1] for x in m["diags"] if not x.startswith("warning")})
                ii = r.error_ids()
                if "odd-address" in mi and "odd-address" in ii:
                    # a refused word list on an odd address leaves the labels behind it odd in the code, which goes on
                    # and also refuses the branches to them; the model stops counting at the refused list
                    ii = [x for x in ii if x != "odd-branch"]
                    mi = [x for x in mi if x != "odd-branch"]
                    ctx.count("refused programs with a word list on an odd address (error kinds compared without 'odd-branch')")
                if "aborted" not in m.get("note", "") and mi != ii:
                    problems.append("error kinds: model %s impl %s" % (mi, ii))
        else:
            problems.append("model outcome " + m["outcome"] + " " + m.get("note", ""))
        if problems:
            ctx.disagree("whole-program model", inp, {"outcome": m["outcome"], "base": m["base"], "code": m["code"].hex()[:80], "diags": m["diags"][:6], "note": m.get("note")},
                         {"problems": problems, "impl": r.summary()})
    ctx.extra["model_unsupported"] = unsupported

    # ---- announced sizes of every sized directive for 0..8 operands (Gen.Meta is regenerated; the model's
    # announcedSize reads it) against the size lambdas called directly
    mi = impl.mod("metacommand_impl")
    names = sorted(mi.metacommands)
    reqs = ["asize %s %d" % (nm, k) for nm in names for k in range(0, 9)]
    answers = ctx.driver.ask(reqs)
    for (nm, k), a in zip([(nm, k) for nm in names for k in range(0, 9)], answers):
        cmd = mi.metacommands[nm]
        try:
            size_attr = internals.get(cmd, "size", None, ("size",))
        except internals.TieBroken as tb:
            ctx.disagree("tie to metacommand_impl.Metacommand (the announced size)", {"missing": str(tb)}, "an attribute holding the announced size", "not found")
            break
        if callable(size_attr):
            want = str(size_attr(None, *([None] * k)))
        elif size_attr is None:
            want = "none"
        else:
            want = str(size_attr)
        ctx.case(("asize", nm, k), nontrivial=False)
        if a != want:
            ctx.disagree("announced size", (nm, k), a, want)

    # ---- the practice corpus
    if os.path.isdir(PRACTICE):
        for name in sorted(os.listdir(PRACTICE)):
            src = os.path.join(PRACTICE, name, "code.mac")
            if not os.path.exists(src):
                continue
            with open(src, encoding="utf-8") as f:
                text = f.read()
            r = impl.assemble([(src, text)], want_symbols=True, timeout=120)
            ctx.case(("practice", name))
            ctx.count("practice-programs")
            inp = {"practice": name, "main_paths": [src]}
            if r.outcome != "ok":
                ctx.violation("a practice program does not assemble", inp, expected="ok", observed=r.summary())
                continue
            trace_invariant(ctx, r, inp, {src: text})
            out = os.path.join(PRACTICE, name, "out.bin")
            if os.path.exists(out):
                with open(out, "rb") as f:
                    want = f.read()
                got = impl.mod("formats").file_formats["bin"](r.base, r.code)
                if got != want:
                    ctx.violation("a practice program no longer assembles to its reference image", inp, expected="out.bin", observed="different bytes")


def search(ctx, broken):
    if not ctx.thorough:
        ctx.thorough = True
        run(ctx)


def replay(ctx, path):
    with open(path, encoding="utf-8") as f:
        rep = json.load(f)
    v = rep.get("violation") or rep
    print(json.dumps(v, indent=1, ensure_ascii=False)[:4000])
    return 0
