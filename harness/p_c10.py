"""C10 spelling does not matter: a program and random compositions of the rewrite rules of the
property assemble to the same image (warnings aside).

Two respellers, both driven by the seed:
  structured   the items of a generated program (harness.gen) rendered again with other number
               radices, bracket kinds, symbol case, '.word' against the implicit word list;
  textual      token-level rules on source text, applied to generated and to practice programs:
               case of mnemonics / directives / registers / symbols / radix prefixes / hex digits,
               rN <-> %N, sp/pc <-> r6/r7, mnemonic synonyms (the pairs of Spec.Isa.synonyms),
               '(rN)' <-> '@rN', the radix of octal and decimal literals, runs of blanks, blank lines,
               comments.  Lines with string-like operands are left alone (only blank lines and
               comments around them change).
The variants also go through the whole-program Lean model (whose parser must then read every
spelling the way the Python parser does)."""
import json
import os
import re

from . import impl, asmrun
from .gen import ProgramGen, item_text, Item

PRACTICE = os.path.join(impl.REPO, "tests", "practice")
ISA = os.path.join(os.path.dirname(os.path.abspath(__file__)), "..", "lean", "Pdpy11", "Spec", "Isa.lean")

STRINGY = re.compile(r"""['"]|\.asci|\.rad50|\.include|\.raw_include|insert_file|make_|\.title|\.error|\.ident|\.sbttl|\^r|\^/|\^c|\^f|\.list|\.nlist|\.page|\.extern|\.once|\.end\b""", re.I)
REGS = {"r0": 0, "r1": 1, "r2": 2, "r3": 3, "r4": 4, "r5": 5, "r6": 6, "r7": 7, "sp": 6, "pc": 7}
TOKEN = re.compile(r"[A-Za-z0-9_$.]+")


def load_synonyms():
    try:
        text = open(ISA, encoding="utf-8").read()
    except OSError:
        return {}
    m = re.search(r"def synonyms[^\[]*\[(.*?)\]\n", text, re.S)
    pairs = re.findall(r'\("(\w+)", "(\w+)"\)', m.group(1)) if m else []
    classes = {}
    for a, b in pairs:
        classes.setdefault(b, {b}).add(a)
    out = {}
    for names in classes.values():
        for n in names:
            out[n] = sorted(names)
    return out


def flip_case(tok, rng):
    k = rng.random()
    if k < 0.4:
        return tok.upper()
    if k < 0.6:
        return tok.lower()
    if k < 0.8:
        return "".join(c.upper() if rng.random() < 0.5 else c.lower() for c in tok)
    return tok


def respell_number(tok, rng, line_start=False):
    """tok: a literal of digits only (octal or, with 8/9, decimal), or digits followed by '.'.
    At the start of a line (an implicit word list) a '^' prefix would be read as the infix
    operator continuing the previous line's expression: only digit-initial forms there."""
    if tok.endswith("."):
        v = int(tok[:-1], 10)
    elif re.fullmatch(r"[0-7]+", tok):
        v = int(tok, 8)
    else:
        return tok
    form = rng.choice(["oct", "oct0", "dec", "0x", "0o", "0b", "same"] + ([] if line_start else ["^O", "^D", "^X", "^B"]))
    if form == "same":
        return tok
    if form == "oct":
        return "%o" % v
    if form == "oct0":
        return "0" * rng.randint(1, 3) + "%o" % v
    if form == "dec":
        return "%d." % v
    if form == "^O":
        return rng.choice(["^O", "^o"]) + "%o" % v
    if form == "^D":
        return rng.choice(["^D", "^d"]) + "%d" % v
    if form == "^X":
        return rng.choice(["^X", "^x"]) + flip_case("%x" % v, rng)
    if form == "^B":
        return rng.choice(["^B", "^b"]) + bin(v)[2:]
    if form == "0x":
        return rng.choice(["0x", "0X"]) + flip_case("%x" % v, rng)
    if form == "0o":
        return rng.choice(["0o", "0O"]) + "%o" % v
    return rng.choice(["0b", "0B"]) + bin(v)[2:]


class Respeller:
    def __init__(self, rng, mnemonics, synonyms, rules=None):
        self.rng = rng
        self.mn = mnemonics          # lower-case names of instructions and directives
        self.syn = synonyms
        self.rules = rules or {"case", "regs", "synonyms", "deferred", "radix", "blanks", "comments", "blank-lines"}
        self.used = set()
        self.local_names = set()

    def on(self, rule, p=0.5):
        if rule in self.rules and self.rng.random() < p:
            return True
        return False

    def code(self, code):
        """respell the code part of a plain line"""
        rng = self.rng
        # '(rN)' <-> '@rN' (not an index, not auto-increment/decrement, not already deferred)
        if self.on("deferred"):
            def paren_to_at(m):
                if rng.random() < 0.5:
                    self.used.add("(rN)->@rN")
                    return "@" + m.group(1)
                return m.group(0)
            code2 = re.sub(r"(?<![\w)>$.@\-+*/&|^!%~:\\])\(\s*(r[0-7]|sp|pc|%[0-7])\s*\)(?!\s*\+)", paren_to_at, code, flags=re.I)

            def at_to_paren(m):
                if rng.random() < 0.5:
                    self.used.add("@rN->(rN)")
                    return "(" + m.group(1) + ")"
                return m.group(0)
            code2 = re.sub(r"(?<![\w@])@(r[0-7]|sp|pc)\b(?![\w$.(])", at_to_paren, code2, flags=re.I)
            code = code2
        # find the mnemonic: first token after the labels
        m = re.match(r"^(\s*(?:[A-Za-z0-9_$.]+\s*::?\s*)*)([A-Za-z_.$][A-Za-z0-9_$.]*)?", code)
        mn_span = None
        if m and m.group(2) and m.group(2).lower() in self.mn:
            mn_span = m.span(2)
        out = []
        pos = 0
        for t in TOKEN.finditer(code):
            s, e = t.span()
            tok = t.group(0)
            out.append(code[pos:s])
            pos = e
            prev = code[s - 1] if s > 0 else ""
            nxt = code[e] if e < len(code) else ""
            low = tok.lower()
            if prev == "^":
                # '^O17' '^Xff' '^B101' '^D9': prefix letter and hex digits in either case
                out.append(flip_case(tok, rng) if self.on("case") and low[0] in "oxbd" else tok)
                if out[-1] != tok:
                    self.used.add("case of radix prefix")
                continue
            if (s, e) == mn_span:
                new = tok
                if low in self.syn and self.on("synonyms", 0.7):
                    new = rng.choice(self.syn[low])
                    if new != low:
                        self.used.add("synonym")
                if self.on("case"):
                    new = flip_case(new, rng)
                    self.used.add("case of mnemonic")
                out.append(new)
                continue
            if low in REGS and prev != "%" and nxt != ":" and not re.match(r"\s*=", code[e:]):
                new = tok
                if self.on("regs"):
                    n = REGS[low]
                    form = rng.choice(["r", "%", "alias"])
                    if form == "r":
                        new = "r%d" % n
                    elif form == "%":
                        new = "%" + "%d" % n
                    else:
                        new = {6: "sp", 7: "pc"}.get(n, "r%d" % n)
                    self.used.add("register spelling")
                if self.on("case") and not new.startswith("%"):
                    new = flip_case(new, rng)
                out.append(new)
                continue
            if re.fullmatch(r"[0-9]+\.?", tok) and nxt not in (":", "$") and prev not in ("$", ".") and tok not in self.local_names:
                if self.on("radix"):
                    new = respell_number(tok, rng, line_start=not code[:s].strip())
                    if new != tok:
                        self.used.add("radix")
                    out.append(new)
                else:
                    out.append(tok)
                continue
            if re.fullmatch(r"0[xXoObB][0-9A-Fa-f]+", tok):
                out.append(flip_case(tok, rng) if self.on("case") else tok)
                continue
            if re.search(r"[A-Za-z]", tok) and self.on("case"):
                out.append(flip_case(tok, rng))
                self.used.add("case of symbol")
                continue
            out.append(tok)
        out.append(code[pos:])
        code = "".join(out)
        if self.on("blanks", 0.7):
            code = re.sub(r"[ \t]+", lambda _m: rng.choice([" ", "  ", "\t", " \t ", "    "]), code)
            code = re.sub(r",(?=\S)", lambda _m: rng.choice([",", ", ", " ,\t"]), code)
            if code.strip():
                code = rng.choice(["", " ", "\t", "    "]) + code.lstrip(" \t")
            code = code.rstrip(" \t") + rng.choice(["", " ", "\t"])
            self.used.add("blanks")
        return code

    def text(self, text):
        rng = self.rng
        out = []
        # a bare number that is also the name of a numeric local label refers to that label when it
        # is in scope: such tokens are names, not numbers, and keep their spelling
        self.local_names = set(re.findall(r"(?:^|[\s:])([0-9]+):", text))
        prev_open = False
        for line in text.split("\n"):
            if STRINGY.search(line):
                out.append(line)
                prev_open = True        # be conservative around such lines
                continue
            if ";" in line:
                code, comment = line.split(";", 1)
                comment = ";" + comment
            else:
                code, comment = line, ""
            stripped = code.strip()
            starts_stmt = bool(re.match(r"^\s*(?:[A-Za-z0-9_$.]+\s*::?\s*)*(?:[A-Za-z_.$][A-Za-z0-9_$.]*)?", code)) and bool(stripped) and (
                re.match(r"^[A-Za-z0-9_$.]+\s*::?", stripped) is not None or stripped.split()[0].lower().rstrip(",") in self.mn)
            if starts_stmt and not prev_open and self.on("blank-lines", 0.15):
                out.append(rng.choice(["", "   ", "; inserted comment", "\t; ☃ ещё"]))
                self.used.add("blank/comment lines")
            if stripped:
                code = self.code(code)
            if self.on("comments", 0.3):
                if comment:
                    comment = rng.choice(["; other words", ";", comment + " !"])
                elif stripped:
                    comment = rng.choice([" ; c", "\t;; note: r0, (r1) @r2 1000 .word", ";x"])
                self.used.add("comments")
            out.append(code + comment)
            last = stripped[-1:] if stripped else ""
            prev_open = last in (",", "+", "-", "*", "/", "&", "|", "<", "(", "=", "\\") if stripped else prev_open
        return "\n".join(out)


def sig(r):
    return (r.outcome, r.base, r.code, tuple(r.error_ids()))


def mnemonic_set():
    names = set(k.lower() for k in impl.mod("insns").instructions.container)
    mi = impl.mod("metacommand_impl")
    for k in mi.metacommands:
        names.add(k.lower())
    names |= {n[1:] for n in names if n.startswith(".")}
    return names


def stream_generated(ctx, rng, n, mn, syn):
    reqs, jobs = [], []
    for it in range(n):
        g = ProgramGen(rng, features={"forward_sizes": True, "export": 0.1}, n_stmts=rng.randint(5, 30))
        items = g.generate()
        # numeric local labels get a '$': a bare number equal to such a name would be a reference to it
        for i in items:
            if i["kind"] == "label" and i.get("local") and i["name"].isdigit():
                i["name"] += "$"
            if i["kind"] == "insn":
                i["ops"] = [(o[0], ("sym", o[1][1] + "$") + tuple(o[1][2:])) if o[0] == "target" and o[1][0] == "sym" and o[1][1].isdigit() else o for o in i["ops"]]
        head = ".link %o\n" % rng.choice([0o1000, 0o2000, 0o40000])
        # the last statement of the file varies (what follows it - blanks, no newline, blank lines - is spelling)
        last_stmt = rng.choice([None, None, "mov (r1)+, (r2)+", "clr @(r3)+", "tst -(sp)", "add #2, (r4)+", ".word 5", ".byte 1", "fin_l:", "fin_x = 5", ".even", ".ascii /a/",
                                "cmp (sp)+, (sp)+", "1, 2, 3", "jmp @(r5)+"])
        if last_stmt:
            items = items + [Item(kind="raw", text=".even\n" + last_stmt)]
        base_text = head + "\n".join(item_text(i, rng, {"plain": True, "bracket": "()"}) for i in items) + "\n"
        r0 = impl.assemble([("/w/s.mac", base_text)])
        ctx.case(base_text, nontrivial=True)
        ctx.count("generated programs")
        ctx.count("generated: outcome " + r0.outcome)
        if r0.outcome in ("crash", "hang"):
            ctx.violation("a generated program ended in " + r0.outcome, {"files": [("/w/s.mac", base_text)]}, expected="result", observed=r0.exc)
            continue
        for v in range(4):
            style = {"case": rng.choice([None, "upper", "rand"]), "bracket": rng.choice([None, "()", "<>", "^/"])}
            its = []
            for i in items:
                if i["kind"] == "dir" and i["name"] in (".word", "implicit") and rng.random() < 0.5:
                    i = dict(i, name="implicit" if i["name"] == ".word" else ".word")
                    ctx.count("rule: .word <-> implicit word list")
                its.append(i)
            text = head + "\n".join(item_text(i, rng, style) for i in its) + "\n"
            rs = Respeller(rng, mn, syn)
            if v >= 1:
                text = rs.text(text)
            # how the file ends is spelling too
            ending = rng.choice(["\n", "\n", "", " ", "\t  ", " \t", "\n\n", " \n", "\n  ", "\n\t\n", " ; end", "\n; the end"])
            text = text.rstrip("\n") + ending
            ctx.count("rule: file ending " + repr(ending))
            for u in rs.used:
                ctx.count("rule: " + u)
            ctx.count("rule: radix/brackets/symbol case (structured)")
            r = impl.assemble([("/w/s.mac", text)])
            ctx.count("variants")
            if sig(r) != sig(r0):
                ctx.violation("a respelled program assembles differently", {"original": base_text, "respelled": text, "files": [("/w/s.mac", text)]},
                              expected=r0.summary(), observed=r.summary())
                break
            if v == 3:
                reqs.append(asmrun.asm_request([("/w/s.mac", text)], 1))
                jobs.append((text, r))
    for (text, r), a in zip(jobs, ctx.driver.ask(reqs)):
        m = asmrun.parse_answer(a)
        if m["outcome"] == "unsupported":
            ctx.count("model: unsupported")
            continue
        bad = None
        if m["outcome"] == "ok":
            if r.outcome != "ok" or r.base != m["base"] or r.code != m["code"]:
                bad = "image/base"
        elif m["outcome"] == "failed":
            mi = sorted({x.split(":")[1] for x in m["diags"] if not x.startswith("warning")})
            if r.outcome != "failed" or ("aborted" not in m.get("note", "") and mi != r.error_ids()):
                bad = "errors %s" % mi
        else:
            bad = "model " + m["outcome"]
        if bad:
            ctx.disagree("whole-program model on a respelled program: " + bad, {"files": [("/w/s.mac", text)]},
                         {"outcome": m["outcome"], "base": m["base"], "code": m["code"].hex()[:80], "diags": m["diags"][:6], "note": m.get("note")}, r.summary())


def stream_practice(ctx, rng, k, mn, syn):
    if not os.path.isdir(PRACTICE):
        return
    for name in sorted(os.listdir(PRACTICE)):
        src = os.path.join(PRACTICE, name, "code.mac")
        if not os.path.exists(src):
            continue
        with open(src, encoding="utf-8") as f:
            text = f.read()
        r0 = impl.assemble([(src, text)], timeout=120)
        if r0.outcome != "ok":
            ctx.count("practice: does not assemble as is")
            continue
        ctx.count("practice programs")
        for v in range(k):
            rs = Respeller(rng, mn, syn)
            vt = rs.text(text)
            r = impl.assemble([(src, vt)], timeout=120)
            ctx.case(("practice", name, v, hash(vt)))
            ctx.count("practice variants")
            for u in rs.used:
                ctx.count("rule: " + u)
            if sig(r) != sig(r0):
                # find the first differing line pair for the report
                diff = [(i + 1, a, b) for i, (a, b) in enumerate(zip(text.split("\n"), [l for l in vt.split("\n")])) if a != b][:5]
                ctx.violation("practice program %s: a respelled copy assembles differently" % name,
                              {"practice": name, "respelled": vt if len(vt) < 6000 else vt[:6000] + "...", "first_changed_lines": diff},
                              expected={"outcome": r0.outcome, "image_len": len(r0.code)}, observed={"outcome": r.outcome, "errors": r.summary()["errors"], "exc": r.exc,
                                                                                                   "image_len": len(r.code or b"")})
                break


def stream_rules(ctx, rng, mn, syn):
    """every rule alone on a fixed statement list (so a rule that silently never fires is seen in the counts)"""
    prog = [".link 1000", "start: mov r0, (r1)", "       mov #177716, @#100", "       clr @r2", "loop:  add (r3)+, -(sp)", "       bhis loop",
            "       jsr pc, sub", "       mov 12(r5), x", "       .word 12., 17, x - start", "       .blkb 10", "       .even", "x:     .word 0",
            "sub:   rts pc", "       sob r1, loop", "       emt 351", "       return"]
    base = "\n".join(prog) + "\n"
    r0 = impl.assemble([("/w/r.mac", base)])
    for rule in ["case", "regs", "synonyms", "deferred", "radix", "blanks", "comments", "blank-lines"]:
        for v in range(12):
            rs = Respeller(rng, mn, syn, rules={rule})
            t = rs.text(base)
            r = impl.assemble([("/w/r.mac", t)])
            ctx.case(("rule", rule, v, t))
            ctx.count("single-rule variants")
            for u in rs.used:
                ctx.count("rule: " + u)
            if sig(r) != sig(r0) or r0.outcome != "ok":
                ctx.violation("rule '%s' alone changes the result" % rule, {"original": base, "respelled": t, "files": [("/w/r.mac", t)]},
                              expected=r0.summary(), observed=r.summary())
                break


DIRECTIVE_LINES = [
    ".byte 1, 2", ".word 3", ".dword 5", ".blkb 3", ".blkw 2", ".even", ".odd", ".align 4", '.ascii "ab"', '.asciz "ab"', ".rad50 /abc/",
    ".repeat 2 { nop }", ".repeat 2\n{\n inc r1\n}", ".extern tail", ".list", ".nlist", ".title x", ".page", ".once", "make_raw \"x.raw\"",
    "make_bin", ".globl tail", ".ident /v1/", ".sbttl abc", ".enabl lc", ".dsabl gbl", ".radix 8", ".psect a", ".asect", ".csect",
    ".iif ne 1, nop", ".if ne 1\nnop\n.endc", ".macro m\nnop\n.endm", ".error", ".print", ".word ^o17, ^D9, ^xfF, ^b101", ".word 0Xf, 0O7, 0B1",
    "mov #^Rabc, r0", ".word ^c1, ^C1", ".ascii <12><15>",
]
END_TAILS = ["", "\n", "\n*** end of file ***\n", "\n\x1a", "\n  'unterminated", "\n) ) )\n", "\nthis is ( not code", "\n\"\n", "\n.word 1,\n"]


def stream_directives(ctx, rng, n):
    """the letter case of every directive name (and of the radix letters it may contain), one directive at a time;
    '.end' with text after it that is not a program"""
    lines = list(DIRECTIVE_LINES)
    for it in range(n):
        if it < 2 * len(lines):
            body = lines[it % len(lines)]
        else:
            body = rng.choice(lines)
        pre = "".join(rng.choice(["nop\n", "inc r2\n", ".word 5\n", "l%d: clr r0\n" % it]) for _ in range(rng.randint(0, 3)))
        tail = "tail: .word 7\n"
        use_end = rng.random() < 0.45
        end = (rng.choice([".end", ".end", "end", ".end tail"]) + rng.choice(END_TAILS)) if use_end else ""
        base = pre + body + "\n" + tail + end
        r0 = impl.assemble([("/w/d.mac", base)])
        ctx.case(("directive", base))
        ctx.count("directive programs")
        ctx.count("directive programs ending in .end + text", bool(use_end))
        if r0.outcome in ("crash", "hang"):
            ctx.violation("a directive program ended in " + r0.outcome, {"files": [("/w/d.mac", base)]}, expected="result", observed=r0.exc)
            continue
        for v in range(3):
            def recase(m):
                w = m.group(0)
                return w.upper() if v == 0 else (w.title() if v == 1 else "".join(c.upper() if rng.random() < 0.5 else c.lower() for c in w))
            # directive names and keyword-like words only; quoted text and label names stay
            def one(line):
                if re.match(r"\s*(\.ascii|\.asciz|\.rad50|make_raw|\.ident|\.title|\.sbttl)\b", line, re.I):
                    return re.sub(r"^\s*[.\w]+", recase, line, count=1)
                return re.sub(r"(?<![\w$])(\.[a-z_][a-z0-9_]*|end|make_bin|\^[odxbrc]|0[xob](?=[0-9a-f]))", recase, line, flags=re.I)
            body_lines = (pre + body + "\n" + tail).split("\n")
            text = "\n".join(one(l) for l in body_lines)
            if use_end:
                e_first, _, e_rest = end.partition("\n")
                text += one(e_first) + ("\n" + e_rest if _ else "")
            r = impl.assemble([("/w/d.mac", text)])
            ctx.count("directive variants")
            if sig(r) != sig(r0):
                ctx.violation("the letter case of a directive changes the result", {"original": base, "respelled": text, "files": [("/w/d.mac", text)]},
                              expected=r0.summary(), observed=r.summary())
                break


def run(ctx):
    impl.load()
    rng = ctx.rng("c10")
    mn = mnemonic_set()
    syn = load_synonyms()
    ctx.rule = ("generated programs (harness.gen) x 4 variants: structured re-rendering (number radix, bracket kind, symbol case, '.word' <-> "
                "implicit list) followed by the textual rules (case of mnemonics/directives/registers/symbols/radix prefixes/hex digits, "
                "rN <-> %N <-> sp/pc, the 33 synonym pairs of Spec.Isa, '(rN)' <-> '@rN', radix of numeric literals, blanks, blank lines, "
                "comments); every directive alone in upper / title / random case, 45% ending in '.end' followed by text that is not a program; a fixed program x each rule alone x 12; the 21 practice programs x k textual variants (lines with string-like "
                "operands untouched). Equal outcome, base, image and error kinds required (warnings aside). distinct = distinct base "
                "programs and variants")
    th = ctx.thorough
    stream_rules(ctx, rng, mn, syn)
    stream_generated(ctx, rng, 600 if th else 120, mn, syn)
    stream_practice(ctx, rng, 6 if th else 2, mn, syn)
    stream_directives(ctx, ctx.rng("c10-dir"), 1200 if th else 300)


def search(ctx, broken):
    if not ctx.thorough:
        ctx.thorough = True
        run(ctx)


def replay(ctx, path):
    with open(path, encoding="utf-8") as f:
        rep = json.load(f)
    v = rep.get("violation") or {}
    print(json.dumps(v or rep, indent=1, ensure_ascii=False)[:8000])
    inp = v.get("input") or {}
    if "original" in inp:
        impl.load()
        print("replayed original:", impl.assemble([("/w/s.mac", inp["original"])]).summary())
        print("replayed respelled:", impl.assemble([("/w/s.mac", inp["respelled"])]).summary())
    return 0
