-- root of the library: everything `lake build` must check
import Pdpy11.Driver
import Pdpy11.Props.C15
import Pdpy11.Props.C14
import Pdpy11.Props.C04
import Pdpy11.Props.C06
import Pdpy11.Props.C01
import Pdpy11.Props.C13
import Pdpy11.Props.C19
import Pdpy11.Props.C05
import Pdpy11.Props.C17
import Pdpy11.Props.C18
import Pdpy11.Props.C07
import Pdpy11.Props.C02
import Pdpy11.Props.C09
import Pdpy11.Props.C12
import Pdpy11.Props.C11
import Pdpy11.Props.C03
