-- This module serves as the root of the `Pdpy11` library.
-- Import modules here that should be built as part of the library.
import Pdpy11.Basic
