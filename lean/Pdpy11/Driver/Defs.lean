import Pdpy11.Driver.Proto
import Pdpy11.Model.Defs
namespace Pdpy11.Driver
open Pdpy11.Model Pdpy11.Model.Defs

/-- expression in reverse Polish notation, items separated by `,`:
`l<int>` literal, `r<name>` reference, `b<fn>` infix operator, `u<fn>` unary operator -/
def parseRpn (s : String) : Option E :=
  let rec go : List String → List E → Option E
    | [], [e] => some e
    | [], _ => none
    | tok :: rest, st =>
      let body := (tok.drop 1).toString
      match tok.toList.head?, st with
      | some 'l', _ => match body.toInt? with
        | some v => go rest (.lit v :: st)
        | none => none
      | some 'r', _ => go rest (.ref body :: st)
      | some 'b', r :: l :: st' => go rest (.bin body l r :: st')
      | some 'u', e :: st' => go rest (.un body e :: st')
      | _, _ => none
  go (s.splitOn ",") []

def showR : Option R → String
  | none => "cycle"
  | some r => s!"v:{r.val}:" ++ (if r.errs.isEmpty then "-" else "+".intercalate r.errs)

/-- `defs d:<name>:<rpn> … u:<rpn> …` → `dup` or one result per use -/
def handleDefs (args : List String) : String :=
  let step (acc : Option (List (String × E) × List E)) (tok : String) : Option (List (String × E) × List E) := do
    let (ds, us) ← acc
    match tok.splitOn ":" with
    | ["d", n, x] => let e ← parseRpn x; pure (ds ++ [(n, e)], us)
    | ["u", x] => let e ← parseRpn x; pure (ds, us ++ [e])
    | _ => none
  match args.foldl step (some ([], [])) with
  | none => "bad-op"
  | some (ds, us) =>
    -- `fuel_enough`: size e + (R+1)(S+1) suffices when ranks are bounded by R (here: the number of
    -- definitions) and body sizes by S; running out of it means a cycle
    let maxUse := (us.map E.size).foldl max 0
    let maxBody := (ds.map (fun d => d.2.size)).foldl max 0
    let fuel := maxUse + (ds.length + 1) * (maxBody + 1)
    match image ds us fuel with
    | none => "dup"
    | some rs => " ".intercalate (rs.map showR)

end Pdpy11.Driver
