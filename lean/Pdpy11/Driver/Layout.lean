import Pdpy11.Driver.Proto
import Pdpy11.Model.Layout
namespace Pdpy11.Driver
open Pdpy11.Model.Layout

/-- tokens: `b:1,2` `w:k` `e` `k:n` `r:n [ … ]` `i:t [ … ]` `x` `o:t`; returns the statements up to the
matching `]` (or the end) and the remaining tokens -/
def parseS : Nat → List String → Option (List S × List String)
  | 0, _ => none
  | _ + 1, [] => some ([], [])
  | _ + 1, "]" :: rest => some ([], rest)
  | f + 1, tok :: rest =>
    let one (s : S) (rest : List String) : Option (List S × List String) := do
      let (more, r) ← parseS f rest
      pure (s :: more, r)
    match tok.splitOn ":" with
    | ["e"] => one .even rest
    | ["x"] => one .end_ rest
    | ["b", l] => match parseNatList l with
      | some bs => one (.bytes bs) rest
      | none => none
    | ["w", k] => match k.toNat? with
      | some k => one (.dotWord k) rest
      | none => none
    | ["k", n] => match n.toNat? with
      | some n => one (.blk n) rest
      | none => none
    | ["o", t] => match t.toNat? with
      | some t => one (.once t) rest
      | none => none
    | ["r", n] => match n.toNat?, rest with
      | some n, "[" :: rest' => do
        let (body, r) ← parseS f rest'
        one (.rep n body) r
      | _, _ => none
    | ["i", t] => match t.toNat?, rest with
      | some t, "[" :: rest' => do
        let (body, r) ← parseS f rest'
        one (.incl t body) r
      | _, _ => none
    | _ => none

/-- the token lists between `f` separators -/
def splitFiles : List String → List String → List (List String)
  | [], cur => [cur.reverse]
  | "f" :: rest, cur => cur.reverse :: splitFiles rest []
  | t :: rest, cur => splitFiles rest (t :: cur)

/-- `layout <addr> f <tokens> f <tokens> …` → the linked image -/
def handleLayout (args : List String) : String :=
  match args with
  | a :: "f" :: toks =>
    match a.toNat? with
    | none => "bad-op"
    | some addr =>
      let files := splitFiles toks []
      match files.mapM (fun ts => (parseS (ts.length + 2) ts).bind (fun r => if r.2.isEmpty then some r.1 else none)) with
      | none => "bad-op"
      | some fs => showNatList (linkFiles (fs.map semList) addr)
  | _ => "bad-op"

end Pdpy11.Driver
