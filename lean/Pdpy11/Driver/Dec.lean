import Pdpy11.Driver.Proto
import Pdpy11.Spec.Isa
namespace Pdpy11.Driver
open Pdpy11.Spec.Isa

def showDOp : DOp → String
  | .reg r => s!"reg:{r}"
  | .mode m r => s!"mode:{m}:{r}"
  | .idx m r x => s!"idx:{m}:{r}:{x}"
  | .imm v => s!"imm:{v}"
  | .abs v => s!"abs:{v}"
  | .rel x => s!"rel:{x}"
  | .relDef x => s!"reldef:{x}"
  | .num v => s!"num:{v}"
  | .disp w => s!"disp:{w}"
  | .ac n => s!"ac:{n}"

/-- `dec <words>` → `<canonical name> <consumed> <operand>*` -/
def handleDec (args : List String) : String :=
  match args with
  | [a] => match parseNatList a with
    | some ws => match decode ws with
      | some (name, ops, n) => " ".intercalate ([name, toString n] ++ ops.map showDOp)
      | none => "undecodable"
    | none => "bad-op"
  | _ => "bad-op"

/-- `canon <mnemonic>` → canonical name and the implied operands of convenience forms -/
def handleCanon (args : List String) : String :=
  match args with
  | [n] => " ".intercalate ([canonName n] ++ (expandOps n [DOp.num 424242]).map showDOp)
  | _ => "bad-op"

end Pdpy11.Driver
