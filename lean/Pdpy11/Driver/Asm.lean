import Pdpy11.Driver.Proto
import Pdpy11.Driver.Directive
import Pdpy11.Model.Asm
namespace Pdpy11.Driver
open Pdpy11.Model Pdpy11.Model.Asm

def strOf (cps : List Nat) : String := String.ofList (cps.map Char.ofNat)

/-- `asm <charset> <nmain> t:<path>:<text> … b:<path>:<bytes> …` (paths, texts as code points) -/
def handleAsm (args : List String) : String :=
  match args with
  | cs :: nmain :: specs =>
    match parseCharset cs, nmain.toNat? with
    | some cs, some n =>
      let parsed := specs.mapM (fun (tok : String) =>
        match tok.splitOn ":" with
        | ["t", p, t] => (fun a b => (true, strOf a, b)) <$> parseNatList p <*> parseNatList t
        | ["b", p, t] => (fun a b => (false, strOf a, b)) <$> parseNatList p <*> parseNatList t
        | _ => none)
      match parsed with
      | none => "bad-op"
      | some files =>
        let texts := (files.filter (·.1)).map (fun f => (f.2.1, strOf f.2.2))
        let bins := (files.filter (!·.1)).map (fun f => (f.2.1, f.2.2))
        let mains := (texts.take n).map (·.1)
        let r := assemble ⟨texts, bins⟩ cs mains
        let fileIdx (f : String) : String := match (texts.map (·.1)).idxOf? f with | some i => toString i | none => "?"
        let ds := r.diags.map (fun d => s!"{d.sev}:{d.id}:{fileIdx d.file}:{d.s}:{d.e}")
        let ds := (ds.toArray.qsort (· < ·)).toList
        let dsU := ds.foldl (fun (acc : List String) x => if acc.getLast? == some x then acc else acc ++ [x]) []
        let syms := r.symbols.map (fun (f, n, v) => s!"{fileIdx f}/{showCpsDot n}/{v}")
        let lay := r.layout.map (fun (a, s, l) => s!"{a}/{s}/{l}")
        let em := r.emitted.map (fun e => s!"{e.format}/{showCpsDot e.path}/{showNatDot e.tapeName}")
        s!"{r.outcome} base={r.base} code={showNatList r.code} diags={if dsU.isEmpty then "-" else ";".intercalate dsU} syms={if syms.isEmpty then "-" else ";".intercalate syms} layout={if lay.isEmpty then "-" else ";".intercalate lay} emitted={if em.isEmpty then "-" else ";".intercalate em} note={r.note.replace " " "_"} keys={if r.keys.isEmpty then "-" else ";".intercalate (r.keys.map showCpsDot)}"
    | _, _ => "bad-op"
  | _ => "bad-op"
where
  showCpsDot (s : String) : String := if s.isEmpty then "-" else ".".intercalate (s.toList.map (fun c => toString c.toNat))
  showNatDot (l : List Nat) : String := if l.isEmpty then "-" else ".".intercalate (l.map toString)

end Pdpy11.Driver
