import Pdpy11.Driver.Proto
import Pdpy11.Model.Listing
namespace Pdpy11.Driver
open Pdpy11.Model Pdpy11.Model.Listing

/-- symbol token `file/name/value` with code-point lists -/
def parseSym (tok : String) : Option Sym :=
  match tok.splitOn "/" with
  | [f, n, v] => Sym.mk <$> parseNatList f <*> parseNatList n <*> v.toInt?
  | _ => none

def handleLst (args : List String) : String :=
  match args.mapM parseSym with
  | some syms => showNatList (listing syms)
  | none => "bad-op"

def handleLstPath (args : List String) : String :=
  match args with
  | [p, f] => match parseNatList p, parseNatList f with
    | some p, some f => showNatList (lstPath p f)
    | _, _ => "bad-op"
  | _ => "bad-op"

end Pdpy11.Driver
