import Pdpy11.Driver.Proto
import Pdpy11.Model.Insn
namespace Pdpy11.Driver
open Pdpy11.Model Pdpy11.Model.Insn

def parseRegRef (s : String) : Option RegRef :=
  if s.startsWith "n" then (RegRef.named <$> (s.drop 1).toString.toNat?)
  else if s.startsWith "p" then (RegRef.pct <$> (s.drop 1).toString.toInt?)
  else none

/-- operand wire format: `R:<reg>` `D:<reg>` `L:<reg>` (legacy @rN) `I:` `J:` `E:` `F:` `X:<x>:<reg>`
    `Y:<x>:<reg>` `Z:<reg>` `#:<v>` `A:<v>` `V:<v>` `W:<v>` `C:<n>`, reg = `n3` | `p-1` -/
def parseOperand (tok : String) : Option Operand :=
  match tok.splitOn ":" with
  | ["R", r] => Operand.reg <$> parseRegRef r
  | ["D", r] => (Operand.regDef · false) <$> parseRegRef r
  | ["L", r] => (Operand.regDef · true) <$> parseRegRef r
  | ["I", r] => Operand.autoInc <$> parseRegRef r
  | ["J", r] => Operand.autoIncDef <$> parseRegRef r
  | ["E", r] => Operand.autoDec <$> parseRegRef r
  | ["F", r] => Operand.autoDecDef <$> parseRegRef r
  | ["X", x, r] => Operand.index <$> x.toInt? <*> parseRegRef r
  | ["Y", x, r] => Operand.indexDef <$> x.toInt? <*> parseRegRef r
  | ["Z", r] => Operand.indexDef0 <$> parseRegRef r
  | ["#", v] => Operand.imm <$> v.toInt?
  | ["A", v] => Operand.abs <$> v.toInt?
  | ["V", v] => Operand.expr <$> v.toInt?
  | ["W", v] => Operand.exprDef <$> v.toInt?
  | ["C", n] => Operand.acc <$> n.toNat?
  | _ => none

def showIds (l : List String) : String :=
  if l.isEmpty then "-" else ",".intercalate (l.toArray.qsort (· < ·)).toList

def showMRes (r : MRes (List Nat)) : String :=
  let tail := s!"e={showIds r.log.errs} wn={showIds r.log.warns}"
  match r.r with
  | .ok ws => s!"ok w={showNatList ws} {tail}"
  | .error .abort => s!"abort {tail}"
  | .error (.crash what) => s!"crash {tail} what={what.replace " " "_"}"

def handleInsn (args : List String) : String :=
  match args with
  | name :: emit :: ops =>
    match lookupInsn name, emit.toInt?, ops.mapM parseOperand with
    | some e, some a, some os => showMRes (compileInsn e os a).run
    | none, _, _ => "unknown-insn"
    | _, _, _ => "bad-op"
  | _ => "bad-op"

end Pdpy11.Driver
