import Pdpy11.Driver.Proto
import Pdpy11.Model.Shunt
import Pdpy11.Model.ShuntP
import Pdpy11.Gen.Operators
namespace Pdpy11.Driver
open Pdpy11.Model.Shunt

def infixOps : List (Nat × Pdpy11.Gen.OperatorG) :=
  (Pdpy11.Gen.operators.zipIdx.map (fun (o, i) => (i, o))).filter (fun p => p.2.kind == .infix)

def findInfix (ch : String) : Option Op :=
  (infixOps.find? (fun p => p.2.char == ch)).map (fun p => ⟨p.1, p.2.prec, p.2.leftAssoc⟩)

def renderNamed : Tree → String
  | .atom n => toString n
  | .node o l r => "(" ++ renderNamed l ++ " " ++ ((Pdpy11.Gen.operators[o.id]?).map (·.fname)).getD "?" ++ " " ++ renderNamed r ++ ")"

def parsePairs : List String → Option (List (Op × Nat))
  | [] => some []
  | ch :: n :: rest => do
    let o ← findInfix ch
    let v ← n.toNat?
    let more ← parsePairs rest
    pure ((o, v) :: more)
  | _ => none

/-- `shunt <atom> <op> <atom> <op> <atom> …` → the tree of the precedence loop, fully parenthesised -/
def handleShunt (args : List String) : String :=
  match args with
  | a :: rest =>
    match a.toNat?, parsePairs rest with
    | some n, some ps => renderNamed (shunt n ps)
    | _, _ => "bad-op"
  | [] => "bad-op"

def prefixOps : List (Nat × Pdpy11.Gen.OperatorG) :=
  (Pdpy11.Gen.operators.zipIdx.map (fun (o, i) => (i, o))).filter (fun p => p.2.kind == .prefix)

def findPrefix (ch : String) : Option Op :=
  (prefixOps.find? (fun p => p.2.char == ch)).map (fun p => ⟨p.1, p.2.prec, p.2.leftAssoc⟩)

def renderNamedP : Pdpy11.Model.ShuntP.PTree → String
  | .atom n => toString n
  | .pre o t => "(" ++ ((Pdpy11.Gen.operators[o.id]?).map (·.fname)).getD "?" ++ " " ++ renderNamedP t ++ ")"
  | .node o l r => "(" ++ renderNamedP l ++ " " ++ ((Pdpy11.Gen.operators[o.id]?).map (·.fname)).getD "?" ++ " " ++ renderNamedP r ++ ")"

/-- `shuntp <prefix> … | <atom> <op> <atom> …` → the tree of the loop with leading prefix operators -/
def handleShuntP (args : List String) : String :=
  let pres := args.takeWhile (· ≠ "|")
  match args.dropWhile (· ≠ "|") with
  | _ :: a :: rest =>
    match pres.mapM findPrefix, a.toNat?, parsePairs rest with
    | some ps, some n, some prs => renderNamedP (Pdpy11.Model.ShuntP.shuntP ps n prs)
    | _, _, _ => "bad-op"
  | _ => "bad-op"

end Pdpy11.Driver
