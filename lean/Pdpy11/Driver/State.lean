import Pdpy11.Driver.Proto
import Pdpy11.Model.State
namespace Pdpy11.Driver
open Pdpy11.Model.State

def parseExc (s : String) : Option Exc :=
  match s with
  | "notReady" => some .notReady | "cycle" => some .cycle | "recoverable" => some .recoverable
  | "unrecoverable" => some .unrecoverable | "unhandledReport" => some .unhandledReport
  | _ => if s.startsWith "other" then Exc.other <$> (s.drop 5).toString.toNat? else none

def showExc : Exc → String
  | .notReady => "notReady" | .cycle => "cycle" | .recoverable => "recoverable" | .unrecoverable => "unrecoverable"
  | .unhandledReport => "unhandledReport" | .other n => s!"other{n}"

def parseSev : String → Option Sev
  | "warning" => some .warning | "error" => some .error | "critical" => some .critical | _ => none

def showSev : Sev → String | .warning => "warning" | .error => "error" | .critical => "critical"

/-- prefix form: `ret` `raise:<e>` `seq` `catch:<e+e…>` `try` `await:<d>` `hand:<h>` `rep:<sev>` -/
partial def parseComp : List String → Option (Comp × List String)
  | [] => none
  | tok :: rest =>
    match tok.splitOn ":" with
    | ["ret"] => some (.ret, rest)
    | ["raise", e] => (fun x => (Comp.raise x, rest)) <$> parseExc e
    | ["rep", s] => (fun x => (Comp.report x, rest)) <$> parseSev s
    | ["seq"] => do
      let (a, r) ← parseComp rest
      let (b, r') ← parseComp r
      pure (.seq a b, r')
    | ["catch", es] => do
      let caught ← (es.splitOn "+").mapM parseExc
      let (a, r) ← parseComp rest
      pure (.catch a caught, r)
    | ["try"] => do let (a, r) ← parseComp rest; pure (.tryCompute a, r)
    | ["await", d] => do let n ← d.toNat?; let (a, r) ← parseComp rest; pure (.awaiting n a, r)
    | ["hand", h] => do let n ← h.toNat?; let (a, r) ← parseComp rest; pure (.handler n a, r)
    | _ => none

def handleState (args : List String) : String :=
  match parseComp args with
  | some (c, []) =>
    let (e, st, log) := run c St.init []
    let es := match e with | some x => showExc x | none => "none"
    let ls := if log.isEmpty then "-" else ",".intercalate (log.map (fun p => s!"{p.1}:{showSev p.2}"))
    s!"exc={es} depth={st.depth} awaiting={showNatList st.awaiting} handlers={st.handlers.length} log={ls}"
  | _ => "bad-op"

end Pdpy11.Driver
