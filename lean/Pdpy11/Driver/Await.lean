import Pdpy11.Driver.Thunk
import Pdpy11.Model.Await
namespace Pdpy11.Driver
open Pdpy11.Model.Thunk Pdpy11.Model.Await

/-! `await <number of promises> ; T <rpn> ; … ; W <rpn> ; S <i> <k> ; …` — as `thunk`, but the
    bodies may mention any thunk (cycles allowed) and a wait may answer `cycle`; fuel is what
    `Props.C08.Await.wait_ends` says is enough. -/

def awaitFuel (s : Store) (e : E) : Nat :=
  esize e + s.thunks.length * ((s.thunks.map (fun t => esize t.fn)).foldl max 0 + 1)

def awaitOp (acc : Store × Array String) (toks : List String) : Option (Store × Array String) :=
  let (s, out) := acc
  match toks with
  | "T" :: rpn => do
    let e ← parseThunkRpn rpn
    pure ({ s with thunks := s.thunks ++ [⟨e, none, none⟩] }, out)
  | "W" :: rpn => do
    let e ← parseThunkRpn rpn
    let (r, s') := evalAwMemo s [] (awaitFuel s e) e
    let plain := evalAw s [] (awaitFuel s e) e
    let rs := match r with
      | .value k => s!"value {k}"
      | .notReady => "not-ready"
      | .cycle => "cycle"
      | .fuel => "fuel"
    let ps := match plain with
      | .value k => s!"value {k}"
      | .notReady => "not-ready"
      | .cycle => "cycle"
      | .fuel => "fuel"
    pure (s', out.push (rs ++ " [" ++ showMem s' ++ "] plain=" ++ ps))
  | _ => none

def handleAwait (args : List String) : String :=
  let ops := (" ".intercalate args).splitOn ";" |>.map (fun s => (s.splitOn " ").filter (· ≠ ""))
  match ops.filter (· ≠ []) with
  | [np] :: rest =>
    match np.toNat? with
    | some n =>
      let s0 : Store := ⟨List.replicate n none, [], 0⟩
      let run := rest.foldlM (fun (acc : Store × Array String) toks =>
        match toks with
        | ["S", i, k] => (do
            let i ← i.toNat?
            let k ← k.toInt?
            let s := acc.1
            pure (if promVal s i = none then settle s i k else s, acc.2))
        | _ => awaitOp acc toks) (s0, #[])
      match run with
      | some (_, out) => " | ".intercalate out.toList
      | none => "bad-op"
    | none => "bad-op"
  | _ => "bad-op"

end Pdpy11.Driver
