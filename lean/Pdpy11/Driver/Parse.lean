import Pdpy11.Driver.Proto
import Pdpy11.Model.Parse
namespace Pdpy11.Driver
open Pdpy11.Model Pdpy11.Model.Syntax Pdpy11.Model.Parse

def showDiag (d : Diag) : String := s!"{d.sev}:{d.id}:{d.s}:{d.e}"

/-- `parse <code points>` → `ok|fatal <TAB> diags <TAB> statements` -/
def handleParse (args : List String) : String :=
  match args with
  | [a] => match parseNatList a with
    | some cps =>
      let r := parseText (String.ofList (cps.map Char.ofNat))
      let ds := if r.diags.isEmpty then "-" else ";".intercalate (r.diags.map showDiag)
      match r.body with
      | some stmts => s!"ok\t{ds}\t{" ".intercalate (stmts.map showStmt)}"
      | none => s!"fatal\t{ds}\t-"
    | none => "bad-op"
  | _ => "bad-op"

end Pdpy11.Driver
