import Pdpy11.Driver.Proto
import Pdpy11.Model.Poly
namespace Pdpy11.Driver
open Pdpy11.Model.Poly

/-! `poly <op> ; <op> ; …` — a script over polynomial registers (numbered in creation order)
and promises (numbered variables):

    V i            new register: the variable i
    L c v a v a …  new register: the constructor on a list of pairs (variable, coefficient), constant c
    A r s          new register: r + s
    K r k          new register: r + k   (k an integer)
    M r k          new register: r * k
    N r            new register: −r
    X i k          new register: promise i * k (or k * promise i)
    PA i j | PS i j | PK i k | KP k i | KS k i | RA r i
                   promise i + promise j, promise i − promise j, promise i + k, k + promise i, k − promise i, r + promise i
    S i int k | S i var j | S i poly r     promise i is settled
    Q r            `_substitute_known` in place; prints the register
    W r            prints the outcome of `wait()` on a copy of the register
    E r            prints `get_current_best_estimate`
  output: the printed items joined by ` | ` -/

structure PSt where
  regs : Array P := #[]
  known : Known := []
  out : Array String := #[]

def showP (p : P) : String :=
  " ".intercalate (p.coeffs.map (fun kv => s!"{kv.1}:{kv.2}")) ++ s!" + {p.const}"

def pInt (s : String) : Option Int := s.toInt?

def parsePairsP : List String → Option (List (Var × Int))
  | [] => some []
  | v :: a :: rest => do
    let v ← v.toNat?
    let a ← pInt a
    let more ← parsePairsP rest
    pure ((v, a) :: more)
  | _ => none

def polyOp (st : PSt) (toks : List String) : Option PSt :=
  match toks with
  | ["V", i] => do let i ← i.toNat?; pure { st with regs := st.regs.push (ofVar i) }
  | "L" :: c :: rest => do
    let c ← pInt c
    let ps ← parsePairsP rest
    pure { st with regs := st.regs.push (mk ps c) }
  | ["A", r, s] => do
    let p ← st.regs[(← r.toNat?)]?
    let q ← st.regs[(← s.toNat?)]?
    pure { st with regs := st.regs.push (add p q) }
  | ["K", r, k] => do
    let p ← st.regs[(← r.toNat?)]?
    pure { st with regs := st.regs.push (addConst p (← pInt k)) }
  | ["M", r, k] => do
    let p ← st.regs[(← r.toNat?)]?
    pure { st with regs := st.regs.push (mulConst p (← pInt k)) }
  | ["N", r] => do
    let p ← st.regs[(← r.toNat?)]?
    pure { st with regs := st.regs.push (neg p) }
  | ["X", i, k] => do pure { st with regs := st.regs.push (mulConst (ofVar (← i.toNat?)) (← pInt k)) }
  | ["PA", i, j] => do pure { st with regs := st.regs.push (addEst st.known (addEst st.known zero (← i.toNat?)) (← j.toNat?)) }
  | ["PS", i, j] => do pure { st with regs := st.regs.push (addEst st.known (mkDict [((← j.toNat?), -1)] 0) (← i.toNat?)) }
  | ["PK", i, k] => do pure { st with regs := st.regs.push (addConst (addEst st.known zero (← i.toNat?)) (← pInt k)) }
  | ["KP", k, i] => do pure { st with regs := st.regs.push (addEst st.known (addConst zero (← pInt k)) (← i.toNat?)) }
  | ["KS", k, i] => do pure { st with regs := st.regs.push (addConst (mkDict [((← i.toNat?), -1)] 0) (← pInt k)) }
  | ["RA", r, i] => do
    let p ← st.regs[(← r.toNat?)]?
    pure { st with regs := st.regs.push (addEst st.known p (← i.toNat?)) }
  | ["S", i, "int", k] => do pure { st with known := st.known ++ [((← i.toNat?), .int (← pInt k))] }
  | ["S", i, "var", j] => do pure { st with known := st.known ++ [((← i.toNat?), .var (← j.toNat?))] }
  | ["S", i, "poly", r] => do
    let p ← st.regs[(← r.toNat?)]?
    pure { st with known := st.known ++ [((← i.toNat?), .poly p)] }
  | ["Q", r] => do
    let i ← r.toNat?
    let p ← st.regs[i]?
    let p' := substKnown st.known p
    pure { st with regs := st.regs.set! i p', out := st.out.push (showP p') }
  | ["W", r] => do
    let p ← st.regs[(← r.toNat?)]?
    let o := match waitP st.known 64 p with
      | .value k => s!"value {k}"
      | .notReady => "not-ready"
      | .fuel => "fuel"
    pure { st with out := st.out.push o }
  | ["E", r] => do
    let p ← st.regs[(← r.toNat?)]?
    let o := match estimate p with
      | some k => s!"int {k}"
      | none => "poly " ++ showP p
    pure { st with out := st.out.push o }
  | _ => none

def handlePoly (args : List String) : String :=
  let ops := (" ".intercalate args).splitOn ";" |>.map (fun s => (s.splitOn " ").filter (· ≠ ""))
  let ops := ops.filter (· ≠ [])
  match ops.foldlM polyOp ({} : PSt) with
  | some st => " | ".intercalate st.out.toList
  | none => "bad-op"

end Pdpy11.Driver
