import Pdpy11.Driver.Proto
import Pdpy11.Model.Rad50
import Pdpy11.Spec.Rad50
namespace Pdpy11.Driver
open Pdpy11.Model Pdpy11.Model.Rad50

def parseChunk (tok : String) : Option Chunk := do
  let (k, v) ← splitTag tok
  if k = "s" then (Chunk.str <$> parseNatList v)
  else if k = "c" then (Chunk.code <$> v.toInt?)
  else none

def handleRad50 (args : List String) : String :=
  match args.mapM parseChunk with
  | none => "bad-op"
  | some cs =>
    let (ws, es) := directive Gen.rad50Table cs
    let ic := (es.filter (· == Err.invalidCharacter)).length
    let ob := (es.filter (· == Err.valueOutOfBounds)).length
    s!"w={showNatList ws} ic={ic} ob={ob}"

def handleCaretR (args : List String) : String :=
  match args with
  | [a] => match parseNatList a with
    | some s => match caretR Gen.rad50Table s with
      | some v => s!"v={v}"
      | none => "none"
    | none => "bad-op"
  | _ => "bad-op"

def handleR50Dec (args : List String) : String :=
  match args with
  | [a] => match parseNatList a with
    | some ws => s!"c={showNatList (Pdpy11.Spec.Rad50.decodeWords ws)}"
    | none => "bad-op"
  | _ => "bad-op"

end Pdpy11.Driver
