import Pdpy11.Driver.Proto
import Pdpy11.Model.Path
namespace Pdpy11.Driver
open Pdpy11.Model.Path

def cpsToString (l : List Nat) : String := String.ofList (l.map Char.ofNat)
def stringToCps (s : String) : List Nat := s.toList.map Char.toNat

/-- `respath <rel code points> <base code points>` → `resolve_relative_path(rel, base)`;
    `respath <path>` → `os.path.normpath(path)` -/
def handleResPath (args : List String) : String :=
  match args with
  | [r, b] => match parseNatList r, parseNatList b with
    | some r, some b => showNatList (stringToCps (resolve (cpsToString r) (cpsToString b)))
    | _, _ => "bad-op"
  | [p] => match parseNatList p with
    | some p => showNatList (stringToCps (normpath (cpsToString p)))
    | none => "bad-op"
  | _ => "bad-op"

end Pdpy11.Driver
