import Pdpy11.Driver.Proto
import Pdpy11.Model.Bk
namespace Pdpy11.Driver
open Pdpy11.Model Pdpy11.Model.Bk

def handleBkEnc (args : List String) : String :=
  match args with
  | [a] => match parseNatList a with
    | some s => match encode Gen.bkEncodingTable s with
      | .ok bs => s!"ok {showNatList bs}"
      | .error i j => s!"err {i} {j}"
    | none => "bad-op"
  | _ => "bad-op"

def handleBkDec (args : List String) : String :=
  match args with
  | [a] => match parseNatList a with
    | some bs => match decode Gen.bkDecodingTable bs with
      | some s => s!"ok {showNatList s}"
      | none => "none"
    | none => "bad-op"
  | _ => "bad-op"

end Pdpy11.Driver
