import Pdpy11.Driver.Proto
import Pdpy11.Driver.State
import Pdpy11.Model.Cli
namespace Pdpy11.Driver
open Pdpy11.Model.State Pdpy11.Model.Cli

def showWrite : Write → String
  | .emitted i => s!"emitted{i}"
  | .outfile => "outfile"
  | .listing => "listing"

/-- `cli <sev,sev,…|-> <nEmitted> <outfile 0/1> <implicit-bin 0/1> <lst 0/1>` -/
def handleCli (args : List String) : String :=
  match args with
  | [ev, n, o, i, l] =>
    let evs : Option (List Sev) := if ev = "-" then some [] else (ev.splitOn ",").mapM parseSev
    match evs, n.toNat? with
    | some evs, some n =>
      let (code, ws) := main ⟨o == "1", i == "1", l == "1"⟩ evs n
      s!"exit={code} writes={if ws.isEmpty then "-" else ",".intercalate (ws.map showWrite)}"
    | _, _ => "bad-op"
  | _ => "bad-op"

end Pdpy11.Driver
