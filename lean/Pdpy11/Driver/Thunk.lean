import Pdpy11.Driver.Proto
import Pdpy11.Model.Thunk
namespace Pdpy11.Driver
open Pdpy11.Model.Thunk

/-! `thunk <number of promises> ; T <rpn> ; … ; W <rpn> ; S <i> <k> ; …`
    rpn tokens: `l<k>` number, `p<i>` promise, `t<j>` thunk, `+`.
    every `W` prints the outcome and the memories of all thunks: `v<k>` remembered value,
    `n` gave up in the current epoch, `-` nothing (or a stale give-up) -/

def parseThunkRpn (toks : List String) : Option E :=
  let rec go : List String → List E → Option E
    | [], [e] => some e
    | [], _ => none
    | t :: rest, st =>
      if t == "+" then
        match st with
        | b :: a :: st' => go rest (.add a b :: st')
        | _ => none
      else if t.startsWith "l" then (t.drop 1).toString.toInt?.bind (fun k => go rest (.lit k :: st))
      else if t.startsWith "p" then (t.drop 1).toString.toNat?.bind (fun i => go rest (.prom i :: st))
      else if t.startsWith "t" then (t.drop 1).toString.toNat?.bind (fun j => go rest (.thunk j :: st))
      else none
  go toks []

def showMem (s : Store) : String :=
  " ".intercalate (s.thunks.map (fun t => match t.value with
    | some v => s!"v{v}"
    | none => if t.nrEpoch == some s.epoch then "n" else "-"))

def thunkOp (acc : Store × Array String) (toks : List String) : Option (Store × Array String) :=
  let (s, out) := acc
  match toks with
  | "T" :: rpn => do
    let e ← parseThunkRpn rpn
    pure ({ s with thunks := s.thunks ++ [⟨e, none, none⟩] }, out)
  | "W" :: rpn => do
    let e ← parseThunkRpn rpn
    let (r, s') := evalMemo s 200 e
    let rs := match r with
      | .value k => s!"value {k}"
      | .notReady => "not-ready"
      | .fuel => "fuel"
    pure (s', out.push (rs ++ " [" ++ showMem s' ++ "]"))
  | _ => none

def handleThunk (args : List String) : String :=
  let ops := (" ".intercalate args).splitOn ";" |>.map (fun s => (s.splitOn " ").filter (· ≠ ""))
  match ops.filter (· ≠ []) with
  | [np] :: rest =>
    match np.toNat? with
    | some n =>
      let s0 : Store := ⟨List.replicate n none, [], 0⟩
      let run := rest.foldlM (fun (acc : Store × Array String) toks =>
        match toks with
        | ["S", i, k] => (do
            let i ← i.toNat?
            let k ← k.toInt?
            let s := acc.1
            pure (if promVal s i = none then settle s i k else s, acc.2))
        | _ => thunkOp acc toks) (s0, #[])
      match run with
      | some (_, out) => " | ".intercalate out.toList
      | none => "bad-op"
    | none => "bad-op"
  | _ => "bad-op"

end Pdpy11.Driver
