import Pdpy11.Driver.Proto
import Pdpy11.Spec.Ea
namespace Pdpy11.Driver

def handleEa (args : List String) : String :=
  match args with
  | [kind, a, w] =>
    match a.toInt?, w.toNat? with
    | some a, some w =>
      if kind = "br" then toString (Pdpy11.Spec.eaBranch a w)
      else if kind = "sob" then toString (Pdpy11.Spec.eaSob a w)
      else if kind = "rel" then toString (Pdpy11.Spec.eaRel a w)
      else "bad-op"
    | _, _ => "bad-op"
  | _ => "bad-op"

end Pdpy11.Driver
