import Pdpy11.Driver.Proto
import Pdpy11.Model.Container
import Pdpy11.Spec.Tape
namespace Pdpy11.Driver
open Pdpy11.Model Pdpy11.Model.Container Pdpy11.Spec.Tape

/-- run-length list `v*n,v*n,…` (a bare `v` is one sample) -/
def parseRleList (s : String) : Option (List Nat) :=
  if s = "-" || s = "" then some [] else
  ((s.splitOn ",").mapM (fun (tok : String) =>
    match tok.splitOn "*" with
    | [v] => (fun x => [x]) <$> v.toNat?
    | [v, n] => (fun x k => List.replicate k x) <$> v.toNat? <*> n.toNat?
    | _ => none)).map List.flatten

def polyHash (l : List Nat) : Nat := l.foldl (fun h b => (h * 1000003 + b + 1) % 2305843009213693951) 0

/-- `wavhash <turbo> <base> <name bytes> <code bytes>` → length and hash of the model's WAV file -/
def handleWavHash (args : List String) : String :=
  match args with
  | [t, b, n, c] =>
    match b.toNat?, parseNatList n, parseRleList c with
    | some base, some name, some code =>
      match encodeAsWav (t == "1") base code name with
      | some f => s!"ok len={f.length} h={polyHash f} ck={checksum code}"
      | none => "crash"
    | _, _, _ => "bad-op"
  | _ => "bad-op"

/-- `bin <base> <code>` → the model's .bin file -/
def handleBin (args : List String) : String :=
  match args with
  | [b, c] =>
    match b.toNat?, parseRleList c with
    | some base, some code =>
      match bin base code with
      | some f => s!"ok len={f.length} h={polyHash f}"
      | none => "crash"
    | _, _ => "bad-op"
  | _ => "bad-op"

/-- `wavread <turbo> <file bytes as run-length list>` → what the independent readers recover -/
def handleWavRead (args : List String) : String :=
  match args with
  | [t, f] =>
    match parseRleList f with
    | some file =>
      match parseRiff file with
      | none => "not-riff"
      | some w =>
        match (if t == "1" then demodTurbo w.data else demodNormal w.data) with
        | none => s!"riff ch={w.channels} rate={w.rate} bits={w.bits} samples={w.data.length} demod=fail"
        | some tf => s!"riff ch={w.channels} rate={w.rate} bits={w.bits} samples={w.data.length} demod=ok base={tf.base} len={tf.length} name={showNatList tf.name} data={showNatList tf.data} ck={tf.checksum} eac={eac tf.data} pilot={tf.pilot}"
    | none => "bad-op"
  | _ => "bad-op"

/-- `tapename <explicit code points | none> <output path code points | none> <source file code points>`
    → code points of the tape name -/
def handleTapeName (args : List String) : String :=
  let dec (t : String) : Option (Option (List Char)) :=
    if t == "none" then some none else (parseNatList t).map (fun l => some (l.map Char.ofNat))
  match args with
  | [e, p, src] => match dec e, dec p, parseNatList src with
    | some e, some p, some src =>
      let wp := match p with
        | some q => q            -- (the path operand, resolved; only its file name matters)
        | none => Pdpy11.Model.Container.defaultWavPath (src.map Char.ofNat)
      showNatList ((Pdpy11.Model.Container.tapeName e wp).map Char.toNat)
    | _, _, _ => "bad-op"
  | _ => "bad-op"

end Pdpy11.Driver
