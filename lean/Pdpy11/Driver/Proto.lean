/-
Line protocol helpers of the model driver: one request per line,
`<verb> <token> …`; tokens are `key:payload` or bare payloads; lists of numbers
are comma separated, `-` is the empty list.  Malformed requests answer `bad-op`.
-/
namespace Pdpy11.Driver

def parseNatList (s : String) : Option (List Nat) :=
  if s = "-" || s = "" then some [] else (s.splitOn ",").mapM String.toNat?

def parseIntList (s : String) : Option (List Int) :=
  if s = "-" || s = "" then some [] else (s.splitOn ",").mapM String.toInt?

def showNatList (l : List Nat) : String :=
  if l.isEmpty then "-" else ",".intercalate (l.map toString)

def showIntList (l : List Int) : String :=
  if l.isEmpty then "-" else ",".intercalate (l.map toString)

/-- split `key:payload` -/
def splitTag (tok : String) : Option (String × String) :=
  match tok.splitOn ":" with
  | [k, v] => some (k, v)
  | _ => none

def showBool (b : Bool) : String := if b then "1" else "0"

end Pdpy11.Driver
