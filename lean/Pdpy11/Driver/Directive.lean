import Pdpy11.Driver.Proto
import Pdpy11.Driver.Insn
import Pdpy11.Model.Directive
namespace Pdpy11.Driver
open Pdpy11.Model Pdpy11.Model.Insn Pdpy11.Model.Directive

def parseCharset : String → Option Charset
  | "bk" => some .bk | "utf-8" => some .utf8 | "latin-1" => some .latin1
  | "koi8-r" => some .koi8r | "cp866" => some .cp866 | _ => none

/-- chunk list `s=65,66|a=5|s=-` -/
def parseChunks (s : String) : Option (List StrChunk) :=
  if s = "" then some [] else
  (s.splitOn "|").mapM (fun c =>
    match c.splitOn "=" with
    | ["s", v] => StrChunk.str <$> parseNatList v
    | ["a", v] => StrChunk.angle <$> v.toInt?
    | _ => none)

def parseArg (tok : String) : Option Arg :=
  match tok.splitOn ":" with
  | ["i", v] => Arg.int <$> v.toInt?
  | ["t", v] => Arg.str <$> parseChunks v
  | _ => none

def showBytesRes (r : MRes Bytes) : String :=
  let tail := s!"e={showIds r.log.errs} wn={showIds r.log.warns}"
  match r.r with
  | .ok bs => s!"ok b={showNatList bs} {tail}"
  | .error .abort => s!"abort {tail}"
  | .error (.crash what) => s!"crash {tail} what={what.replace " " "_"}"

/-- `dir <name> <charset> <emit> <arg>*` -/
def handleDir (args : List String) : String :=
  match args with
  | name :: cs :: emit :: rest =>
    match parseCharset cs, emit.toInt?, rest.mapM parseArg with
    | some cs, some a, some as => showBytesRes (directive name cs a as).run
    | _, _, _ => "bad-op"
  | _ => "bad-op"

/-- `wlist <emit> <int>*` -/
def handleWordList (args : List String) : String :=
  match args with
  | emit :: rest =>
    match emit.toInt?, rest.mapM String.toInt? with
    | some a, some vs => showBytesRes (wordList a vs).run
    | _, _ => "bad-op"
  | _ => "bad-op"

/-- `asize <name> <n>` → announced size or `none` -/
def handleAnnounced (args : List String) : String :=
  match args with
  | [name, n] =>
    match lookupMeta name, n.toNat? with
    | some m, some k => match announcedSize m k with
      | some s => toString s
      | none => "none"
    | _, _ => "bad-op"
  | _ => "bad-op"

end Pdpy11.Driver
