import Pdpy11.Driver.Proto
import Pdpy11.Driver.Insn
import Pdpy11.Driver.Directive
import Pdpy11.Model.Eval
import Pdpy11.Spec.Arith
namespace Pdpy11.Driver
open Pdpy11.Model Pdpy11.Model.Insn Pdpy11.Model.Eval Pdpy11.Model.Parse Pdpy11.Spec.Arith

def parseEnvSyms (s : String) : Option (List (String × Int)) :=
  if s = "-" || s = "" then some [] else
  (s.splitOn ",").mapM (fun (tok : String) =>
    match tok.splitOn ":" with
    | [n, v] => (fun x => (n, x)) <$> v.toInt?
    | _ => none)

/-- `expr <charset> <dot> <name:val,…> <expression text as code points>` -/
def handleExpr (args : List String) : String :=
  match args with
  | [cs, dot, env, txt] =>
    match parseCharset cs, dot.toInt?, parseEnvSyms env, parseNatList txt with
    | some cs, some dot, some syms, some cps =>
      let chars := cps.map Char.ofNat
      match expression (chars.length + 8) [] ⟨0, chars⟩ #[] with
      | (.ok e c, diags) =>
        if !(atEof c) then "trailing"
        else
          let r := (eval ⟨cs, dot, syms⟩ e).run
          let perrs := (diags.toList.filter (fun d => d.sev != "warning")).map (·.id)
          let tail := s!"e={showIds (perrs ++ r.log.errs)} wn={showIds r.log.warns}"
          match r.r with
          | .ok v => s!"ok v={v} {tail}"
          | .error .abort => s!"abort {tail}"
          | .error (.crash w) => s!"crash {tail} what={w.replace " " "_"}"
      | (.fail, _) => "parsefail"
      | (.fatal, _) => "fatal"
    | _, _, _, _ => "bad-op"
  | _ => "bad-op"

/-- prefix form: `L<int>` | `U<op> t` | `B<op> t t` -/
partial def parseTree : List String → Option (Tree × List String)
  | [] => none
  | tok :: rest =>
    if tok.startsWith "L" then (fun v => (Tree.lit v, rest)) <$> (tok.drop 1).toString.toInt?
    else if tok.startsWith "U" then do
      let (a, r) ← parseTree rest
      pure (Tree.un (tok.drop 1).toString a, r)
    else if tok.startsWith "B" then do
      let (a, r) ← parseTree rest
      let (b, r') ← parseTree r
      pure (Tree.bin (tok.drop 1).toString a b, r')
    else none

def handleTree (args : List String) : String :=
  match parseTree args with
  | some (t, []) => match evalTree t with
    | .ok v => s!"ok {v}"
    | .error w => s!"error {w.replace " " "_"}"
  | _ => "bad-op"

end Pdpy11.Driver
