import Pdpy11.Driver.Proto
import Pdpy11.Model.LineCol
import Pdpy11.Spec.Scan
namespace Pdpy11.Driver

/-- `linecol <pos> <code points>` → `<line> <col> <scan line> <scan col>` -/
def handleLineCol (args : List String) : String :=
  match args with
  | [p, c] => match p.toNat?, parseNatList c with
    | some pos, some code =>
      let a := Pdpy11.Model.LineCol.lineCol code pos
      let b := Pdpy11.Spec.Scan.scan code pos
      s!"{a.1} {a.2} {b.1} {b.2}"
    | _, _ => "bad-op"
  | _ => "bad-op"

end Pdpy11.Driver
