/-
Line/column of a position by a left-to-right scan of the text: start at line 1 column 1;
a newline starts the next line at column 1; a tab counts as four columns; every other
character as one.
-/
namespace Pdpy11.Spec.Scan

def step (st : Nat × Nat) (c : Nat) : Nat × Nat :=
  if c = 10 then (st.1 + 1, 1) else if c = 9 then (st.1, st.2 + 4) else (st.1, st.2 + 1)

def scan (code : List Nat) (pos : Nat) : Nat × Nat := (code.take pos).foldl step (1, 1)

end Pdpy11.Spec.Scan
