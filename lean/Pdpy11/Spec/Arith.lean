/-
Independent evaluator for expression trees in prefix form, by the textbook
definitions: unbounded integers, `/` and `%` floor toward minus infinity, shifts as
multiplication / floor division by powers of two, bitwise operators by the two's-complement
recursion on bits.  Used as the oracle of C05; frozen.
-/
namespace Pdpy11.Spec.Arith

inductive Tree
  | lit (v : Int)
  | un (op : String) (a : Tree)
  | bin (op : String) (a b : Tree)
deriving Repr

/-- floor(a / b) for b ≠ 0, by cases on the signs using natural-number division -/
def fdivSpec (a b : Int) : Int :=
  let q := (a.natAbs / b.natAbs : Nat)
  let exact := a.natAbs % b.natAbs = 0
  if (a ≥ 0) = (b > 0) then (q : Int)               -- same sign (or a = 0): truncation = floor
  else if exact then -(q : Int) else -(q : Int) - 1  -- opposite signs: round toward −∞

def fmodSpec (a b : Int) : Int := a - b * fdivSpec a b

/-- two's-complement bitwise combination of unbounded integers -/
def bitwiseSpec (f : Bool → Bool → Bool) : Nat → Int → Int → Int
  | 0, _, _ => 0
  | fuel + 1, a, b =>
    if (a = 0 ∨ a = -1) ∧ (b = 0 ∨ b = -1) then
      (if f (a = -1) (b = -1) then -1 else 0)
    else
      let bit : Int := if f (a % 2 = 1) (b % 2 = 1) then 1 else 0
      2 * bitwiseSpec f fuel (a / 2) (b / 2) + bit

def bitFuel (a b : Int) : Nat := a.natAbs + b.natAbs + 2

inductive Res
  | ok (v : Int)
  | error (what : String)
deriving Repr

def evalTree : Tree → Res
  | .lit v => .ok v
  | .un op a =>
    match evalTree a with
    | .error e => .error e
    | .ok x =>
      match op with
      | "+" => .ok x
      | "-" => .ok (-x)
      | "~" => .ok (-x - 1)
      | "^c" => .ok (-x - 1)
      | _ => .error "bad-op"
  | .bin op a b =>
    match evalTree a, evalTree b with
    | .error e, _ => .error e
    | _, .error e => .error e
    | .ok x, .ok y =>
      match op with
      | "+" => .ok (x + y)
      | "-" => .ok (x - y)
      | "*" => .ok (x * y)
      | "/" => if y = 0 then .error "division by zero" else .ok (fdivSpec x y)
      | "%" => if y = 0 then .error "division by zero" else .ok (fmodSpec x y)
      | "<<" => if y < 0 then .error "negative shift" else .ok (x * 2 ^ y.toNat)
      | ">>" => if y < 0 then .error "negative shift" else .ok (fdivSpec x (2 ^ y.toNat))
      | "_" => if y ≥ 0 then .ok (x * 2 ^ y.toNat) else .ok (fdivSpec x (2 ^ (-y).toNat))
      | "&" => .ok (bitwiseSpec (· && ·) (bitFuel x y) x y)
      | "|" => .ok (bitwiseSpec (· || ·) (bitFuel x y) x y)
      | "!" => .ok (bitwiseSpec (· || ·) (bitFuel x y) x y)
      | "^" => .ok (bitwiseSpec (fun p q => p != q) (bitFuel x y) x y)
      | _ => .error "bad-op"

end Pdpy11.Spec.Arith
