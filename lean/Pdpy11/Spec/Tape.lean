/-
Independent readers for the output containers: a RIFF/WAVE parser, the BK-0010 tape
checksum, and a demodulator of the BK-0010 tape signal (normal speed, as read by the
monitor: pilot tone, long marker pulse, a '1', then bits as (sync pulse, data pulse) with
the data pulse short for 0 and long for 1, least significant bit first) and of the
assembler's own "turbo" format (pilot, marker, then one pulse per bit whose high phase is
1 sample for 0 and 3 samples for 1).  Frozen.
-/
namespace Pdpy11.Spec.Tape

def rd16 (l : List Nat) : Nat := l.getD 0 0 + 256 * l.getD 1 0
def rd32 (l : List Nat) : Nat := l.getD 0 0 + 256 * l.getD 1 0 + 65536 * l.getD 2 0 + 16777216 * l.getD 3 0

structure Wav where
  channels : Nat
  rate : Nat
  bits : Nat
  data : List Nat
deriving Repr, DecidableEq

/-- canonical 44-byte PCM header followed by the data chunk -/
def parseRiff (f : List Nat) : Option Wav :=
  if f.take 4 = [82, 73, 70, 70] ∧ (f.drop 8).take 8 = [87, 65, 86, 69, 102, 109, 116, 32] ∧
     rd32 (f.drop 16) = 16 ∧ rd16 (f.drop 20) = 1 ∧ (f.drop 36).take 4 = [100, 97, 116, 97] ∧
     rd32 (f.drop 4) + 8 = f.length ∧ rd32 (f.drop 40) + 44 = f.length ∧
     rd32 (f.drop 28) = rd32 (f.drop 24) * rd16 (f.drop 22) * rd16 (f.drop 34) / 8 ∧
     rd16 (f.drop 32) = rd16 (f.drop 22) * rd16 (f.drop 34) / 8
  then some ⟨rd16 (f.drop 22), rd32 (f.drop 24), rd16 (f.drop 34), f.drop 44⟩
  else none

/-- one step of the 16-bit sum with end-around carry (ADD, ADC) -/
def eacStep (acc b : Nat) : Nat := if acc + b ≥ 65536 then acc + b - 65535 else acc + b

/-- the BK-0010 checksum of a block -/
def eac (data : List Nat) : Nat := data.foldl eacStep 0

/-! ### demodulation -/

/-- (high run, low run) pairs of an 8-bit unsigned PCM stream, threshold 128 -/
def pulsesFuel : Nat → List Nat → List (Nat × Nat)
  | 0, _ => []
  | _, [] => []
  | n + 1, l =>
    let h := l.takeWhile (· ≥ 128)
    let r := l.dropWhile (· ≥ 128)
    let lo := r.takeWhile (· < 128)
    let r' := r.dropWhile (· < 128)
    (h.length, lo.length) :: pulsesFuel n r'

def pulses (l : List Nat) : List (Nat × Nat) := pulsesFuel (l.length + 1) l

def bitsToBytes : List Bool → List Nat
  | b0 :: b1 :: b2 :: b3 :: b4 :: b5 :: b6 :: b7 :: rest =>
    ((if b0 then 1 else 0) + (if b1 then 2 else 0) + (if b2 then 4 else 0) + (if b3 then 8 else 0) +
     (if b4 then 16 else 0) + (if b5 then 32 else 0) + (if b6 then 64 else 0) + (if b7 then 128 else 0)) :: bitsToBytes rest
  | _ => []

/-- skip pilot pulses (high phase shorter than `markerMin`) up to and including the marker -/
def skipToMarker (markerMin : Nat) : List (Nat × Nat) → Option (Nat × List (Nat × Nat))
  | [] => none
  | p :: rest => if p.1 ≥ markerMin then some (0, rest) else (skipToMarker markerMin rest).map (fun r => (r.1 + 1, r.2))

/-- normal speed: `n` bits, each a sync pulse then a data pulse (high phase ≥ 3 samples = 1) -/
def readBitsNormal : Nat → List (Nat × Nat) → Option (List Bool × List (Nat × Nat))
  | 0, ps => some ([], ps)
  | n + 1, s :: d :: rest =>
    if s.1 ≤ 2 ∧ d.1 ≤ 6 then (readBitsNormal n rest).map (fun r => ((d.1 ≥ 3) :: r.1, r.2)) else none
  | _ + 1, _ => none

/-- turbo: `n` bits, one pulse each (high phase ≥ 2 samples = 1) -/
def readBitsTurbo : Nat → List (Nat × Nat) → Option (List Bool × List (Nat × Nat))
  | 0, ps => some ([], ps)
  | n + 1, d :: rest =>
    if d.1 ≤ 4 then (readBitsTurbo n rest).map (fun r => ((d.1 ≥ 2) :: r.1, r.2)) else none
  | _ + 1, [] => none

structure TapeFile where
  base : Nat
  length : Nat
  name : List Nat
  data : List Nat
  checksum : Nat
  pilot : Nat       -- number of pilot pulses before the first marker
deriving Repr, DecidableEq

/-- BK-0010 monitor reading: pilot (≥ 256 pulses), marker, '1', short pilot, marker, '1',
    20 header bytes, short pilot, marker, '1', data, 2 checksum bytes -/
def demodNormalP (ps : List (Nat × Nat)) : Option TapeFile := do
  let (n0, ps) ← skipToMarker 7 ps
  if n0 < 256 then none
  let (one1, ps) ← readOne ps
  let (_, ps) ← skipToMarker 7 ps
  let (one2, ps) ← readOne ps
  let (hb, ps) ← readBitsNormal 160 ps
  let hdr := bitsToBytes hb
  let (_, ps) ← skipToMarker 7 ps
  let (one3, ps) ← readOne ps
  let len := rd16 (hdr.drop 2)
  let (db, ps) ← readBitsNormal (8 * len + 16) ps
  let bytes := bitsToBytes db
  if one1 ∧ one2 ∧ one3 ∧ ps.all (fun p => p.1 ≤ 2) then
    some ⟨rd16 hdr, len, (hdr.drop 4).take 16, bytes.take len, rd16 (bytes.drop len), n0⟩
  else none
where
  readOne : List (Nat × Nat) → Option (Bool × List (Nat × Nat))
    | p :: rest => some (decide (3 ≤ p.1 ∧ p.1 ≤ 6), rest)
    | [] => none

def demodNormal (samples : List Nat) : Option TapeFile := demodNormalP (pulses samples)

/-- the turbo format: pilot (≥ 256 pulses), marker, 20 header bytes, data, 2 checksum bytes,
    one pulse per bit -/
def demodTurboP (ps : List (Nat × Nat)) : Option TapeFile := do
  let (n0, ps) ← skipToMarker 8 ps
  if n0 < 256 then none
  let (hb, ps) ← readBitsTurbo 160 ps
  let hdr := bitsToBytes hb
  let len := rd16 (hdr.drop 2)
  let (db, ps) ← readBitsTurbo (8 * len + 16) ps
  let bytes := bitsToBytes db
  if ps.length ≤ 4 then
    some ⟨rd16 hdr, len, (hdr.drop 4).take 16, bytes.take len, rd16 (bytes.drop len), n0⟩
  else none

def demodTurbo (samples : List Nat) : Option TapeFile := demodTurboP (pulses samples)

end Pdpy11.Spec.Tape
