/-
Independent specification of the PDP-11 instruction set accepted by the assembler:
for every canonical operation its base opcode and operand format, the synonym and
convenience mnemonics with the instruction they stand for, and a decoder.

Written from the DEC processor handbooks (base set, EIS, FIS, FP11, memory-management
and CIS opcodes were checked against the handbook tables) and, for the mnemonics that have
no DEC name (1801VM2 `start step rd urd rdpc rdps uwr wrpc wrps`, LSI-11 diagnostics
`medlsi u3000 med med74c`, FP11 maintenance `ldub mns mpp mrs stq0`), adopted from the
implementation at the pinned commit.  Frozen: this file is what "the PDP-11 encoding" means
for C01.
-/
namespace Pdpy11.Spec.Isa

/-- operand formats (operand order = assembler source order) -/
inductive Fmt
  | none      -- no operand
  | dd        -- one general operand, bits 5–0
  | ssdd      -- source bits 11–6, destination bits 5–0
  | rdd       -- register bits 8–6, destination bits 5–0            (JSR, XOR)
  | ssr       -- source bits 5–0, register bits 8–6                 (MUL DIV ASH ASHC)
  | r         -- register bits 2–0                                  (RTS, FIS)
  | n3 | n6 | n8   -- inline number in the low 3 / 6 / 8 bits       (SPL, MARK/XFC, EMT/TRAP)
  | br8       -- 8-bit signed word displacement
  | rbr6      -- register bits 8–6, 6-bit backward word count       (SOB)
  | fop       -- one FP operand (mode 0 = accumulator), bits 5–0
  | fsrcac    -- FP source bits 5–0, accumulator bits 7–6
  | acfdst    -- accumulator bits 7–6, FP destination bits 5–0
  | srcac     -- general source bits 5–0, accumulator bits 7–6
  | acdst     -- accumulator bits 7–6, general destination bits 5–0
deriving Repr, DecidableEq

structure Canon where
  name : String
  base : Nat
  fmt : Fmt
deriving Repr, DecidableEq

/-- canonical operations; no two of them share an encoding -/
def canon : List Canon := [
  ⟨"halt", 0o000000, .none⟩, ⟨"wait", 0o000001, .none⟩, ⟨"rti", 0o000002, .none⟩, ⟨"bpt", 0o000003, .none⟩,
  ⟨"iot", 0o000004, .none⟩, ⟨"reset", 0o000005, .none⟩, ⟨"rtt", 0o000006, .none⟩, ⟨"mfpt", 0o000007, .none⟩,
  ⟨"start", 0o000012, .none⟩, ⟨"step", 0o000016, .none⟩, ⟨"rd", 0o000020, .none⟩, ⟨"urd", 0o000021, .none⟩,
  ⟨"rdpc", 0o000022, .none⟩, ⟨"rdps", 0o000024, .none⟩, ⟨"uwr", 0o000031, .none⟩, ⟨"wrpc", 0o000032, .none⟩,
  ⟨"wrps", 0o000034, .none⟩, ⟨"jmp", 0o000100, .dd⟩, ⟨"rts", 0o000200, .r⟩, ⟨"medlsi", 0o000210, .r⟩,
  ⟨"u3000", 0o000220, .none⟩, ⟨"spl", 0o000230, .n3⟩, ⟨"nop", 0o000240, .none⟩, ⟨"clc", 0o000241, .none⟩,
  ⟨"clv", 0o000242, .none⟩, ⟨"clvc", 0o000243, .none⟩, ⟨"clz", 0o000244, .none⟩, ⟨"clzc", 0o000245, .none⟩,
  ⟨"clzv", 0o000246, .none⟩, ⟨"clzvc", 0o000247, .none⟩, ⟨"cln", 0o000250, .none⟩, ⟨"clnc", 0o000251, .none⟩,
  ⟨"clnv", 0o000252, .none⟩, ⟨"clnvc", 0o000253, .none⟩, ⟨"clnz", 0o000254, .none⟩, ⟨"clnzc", 0o000255, .none⟩,
  ⟨"clnzv", 0o000256, .none⟩, ⟨"clnzvc", 0o000257, .none⟩, ⟨"sec", 0o000261, .none⟩, ⟨"sev", 0o000262, .none⟩,
  ⟨"sevc", 0o000263, .none⟩, ⟨"sez", 0o000264, .none⟩, ⟨"sezc", 0o000265, .none⟩, ⟨"sezv", 0o000266, .none⟩,
  ⟨"sezvc", 0o000267, .none⟩, ⟨"sen", 0o000270, .none⟩, ⟨"senc", 0o000271, .none⟩, ⟨"senv", 0o000272, .none⟩,
  ⟨"senvc", 0o000273, .none⟩, ⟨"senz", 0o000274, .none⟩, ⟨"senzc", 0o000275, .none⟩, ⟨"senzv", 0o000276, .none⟩,
  ⟨"senzvc", 0o000277, .none⟩, ⟨"swab", 0o000300, .dd⟩, ⟨"br", 0o000400, .br8⟩, ⟨"bne", 0o001000, .br8⟩,
  ⟨"beq", 0o001400, .br8⟩, ⟨"bge", 0o002000, .br8⟩, ⟨"blt", 0o002400, .br8⟩, ⟨"bgt", 0o003000, .br8⟩,
  ⟨"ble", 0o003400, .br8⟩, ⟨"jsr", 0o004000, .rdd⟩, ⟨"clr", 0o005000, .dd⟩, ⟨"com", 0o005100, .dd⟩,
  ⟨"inc", 0o005200, .dd⟩, ⟨"dec", 0o005300, .dd⟩, ⟨"neg", 0o005400, .dd⟩, ⟨"adc", 0o005500, .dd⟩,
  ⟨"sbc", 0o005600, .dd⟩, ⟨"tst", 0o005700, .dd⟩, ⟨"ror", 0o006000, .dd⟩, ⟨"rol", 0o006100, .dd⟩,
  ⟨"asr", 0o006200, .dd⟩, ⟨"asl", 0o006300, .dd⟩, ⟨"mark", 0o006400, .n6⟩, ⟨"mfpi", 0o006500, .dd⟩,
  ⟨"mtpi", 0o006600, .dd⟩, ⟨"sxt", 0o006700, .dd⟩, ⟨"csm", 0o007000, .dd⟩, ⟨"tstset", 0o007200, .dd⟩,
  ⟨"wrtlck", 0o007300, .dd⟩, ⟨"mov", 0o010000, .ssdd⟩, ⟨"cmp", 0o020000, .ssdd⟩, ⟨"bit", 0o030000, .ssdd⟩,
  ⟨"bic", 0o040000, .ssdd⟩, ⟨"bis", 0o050000, .ssdd⟩, ⟨"add", 0o060000, .ssdd⟩, ⟨"mul", 0o070000, .ssr⟩,
  ⟨"div", 0o071000, .ssr⟩, ⟨"ash", 0o072000, .ssr⟩, ⟨"ashc", 0o073000, .ssr⟩, ⟨"xor", 0o074000, .rdd⟩,
  ⟨"fadd", 0o075000, .r⟩, ⟨"fsub", 0o075010, .r⟩, ⟨"fmul", 0o075020, .r⟩, ⟨"fdiv", 0o075030, .r⟩,
  ⟨"l2dr", 0o076020, .r⟩, ⟨"movc", 0o076030, .none⟩, ⟨"movrc", 0o076031, .none⟩, ⟨"movtc", 0o076032, .none⟩,
  ⟨"locc", 0o076040, .none⟩, ⟨"skpc", 0o076041, .none⟩, ⟨"scanc", 0o076042, .none⟩, ⟨"spanc", 0o076043, .none⟩,
  ⟨"cmpc", 0o076044, .none⟩, ⟨"matc", 0o076045, .none⟩, ⟨"addn", 0o076050, .none⟩, ⟨"subn", 0o076051, .none⟩,
  ⟨"cmpn", 0o076052, .none⟩, ⟨"cvtnl", 0o076053, .none⟩, ⟨"cvtpn", 0o076054, .none⟩, ⟨"cvtnp", 0o076055, .none⟩,
  ⟨"ashn", 0o076056, .none⟩, ⟨"cvtln", 0o076057, .none⟩, ⟨"l3dr", 0o076060, .r⟩, ⟨"addp", 0o076070, .none⟩,
  ⟨"subp", 0o076071, .none⟩, ⟨"cmpp", 0o076072, .none⟩, ⟨"cvtpl", 0o076073, .none⟩, ⟨"mulp", 0o076074, .none⟩,
  ⟨"divp", 0o076075, .none⟩, ⟨"ashp", 0o076076, .none⟩, ⟨"cvtlp", 0o076077, .none⟩, ⟨"movci", 0o076130, .none⟩,
  ⟨"movrci", 0o076131, .none⟩, ⟨"movtci", 0o076132, .none⟩, ⟨"locci", 0o076140, .none⟩, ⟨"skpci", 0o076141, .none⟩,
  ⟨"scanci", 0o076142, .none⟩, ⟨"spanci", 0o076143, .none⟩, ⟨"cmpci", 0o076144, .none⟩, ⟨"matci", 0o076145, .none⟩,
  ⟨"addni", 0o076150, .none⟩, ⟨"subni", 0o076151, .none⟩, ⟨"cmpni", 0o076152, .none⟩, ⟨"cvtnli", 0o076153, .none⟩,
  ⟨"cvtpni", 0o076154, .none⟩, ⟨"cvtnpi", 0o076155, .none⟩, ⟨"ashni", 0o076156, .none⟩, ⟨"cvtlni", 0o076157, .none⟩,
  ⟨"addpi", 0o076170, .none⟩, ⟨"subpi", 0o076171, .none⟩, ⟨"cmppi", 0o076172, .none⟩, ⟨"cvtpli", 0o076173, .none⟩,
  ⟨"mulpi", 0o076174, .none⟩, ⟨"divpi", 0o076175, .none⟩, ⟨"ashpi", 0o076176, .none⟩, ⟨"cvtlpi", 0o076177, .none⟩,
  ⟨"med", 0o076600, .none⟩, ⟨"med74c", 0o076601, .none⟩, ⟨"xfc", 0o076700, .n6⟩, ⟨"sob", 0o077000, .rbr6⟩,
  ⟨"bpl", 0o100000, .br8⟩, ⟨"bmi", 0o100400, .br8⟩, ⟨"bhi", 0o101000, .br8⟩, ⟨"blos", 0o101400, .br8⟩,
  ⟨"bvc", 0o102000, .br8⟩, ⟨"bvs", 0o102400, .br8⟩, ⟨"bcc", 0o103000, .br8⟩, ⟨"bcs", 0o103400, .br8⟩,
  ⟨"emt", 0o104000, .n8⟩, ⟨"trap", 0o104400, .n8⟩, ⟨"clrb", 0o105000, .dd⟩, ⟨"comb", 0o105100, .dd⟩,
  ⟨"incb", 0o105200, .dd⟩, ⟨"decb", 0o105300, .dd⟩, ⟨"negb", 0o105400, .dd⟩, ⟨"adcb", 0o105500, .dd⟩,
  ⟨"sbcb", 0o105600, .dd⟩, ⟨"tstb", 0o105700, .dd⟩, ⟨"rorb", 0o106000, .dd⟩, ⟨"rolb", 0o106100, .dd⟩,
  ⟨"asrb", 0o106200, .dd⟩, ⟨"aslb", 0o106300, .dd⟩, ⟨"mtps", 0o106400, .dd⟩, ⟨"mfpd", 0o106500, .dd⟩,
  ⟨"mtpd", 0o106600, .dd⟩, ⟨"mfps", 0o106700, .dd⟩, ⟨"movb", 0o110000, .ssdd⟩, ⟨"cmpb", 0o120000, .ssdd⟩,
  ⟨"bitb", 0o130000, .ssdd⟩, ⟨"bicb", 0o140000, .ssdd⟩, ⟨"bisb", 0o150000, .ssdd⟩, ⟨"sub", 0o160000, .ssdd⟩,
  ⟨"cfcc", 0o170000, .none⟩, ⟨"setf", 0o170001, .none⟩, ⟨"seti", 0o170002, .none⟩, ⟨"ldub", 0o170003, .none⟩,
  ⟨"mns", 0o170004, .none⟩, ⟨"mpp", 0o170005, .none⟩, ⟨"mrs", 0o170006, .none⟩, ⟨"stq0", 0o170007, .none⟩,
  ⟨"setd", 0o170011, .none⟩, ⟨"setl", 0o170012, .none⟩, ⟨"ldfps", 0o170100, .dd⟩, ⟨"stfps", 0o170200, .dd⟩,
  ⟨"stst", 0o170300, .dd⟩, ⟨"clrf", 0o170400, .fop⟩, ⟨"tstf", 0o170500, .fop⟩, ⟨"absf", 0o170600, .fop⟩,
  ⟨"negf", 0o170700, .fop⟩, ⟨"mulf", 0o171000, .fsrcac⟩, ⟨"modf", 0o171400, .fsrcac⟩, ⟨"addf", 0o172000, .fsrcac⟩,
  ⟨"ldf", 0o172400, .fsrcac⟩, ⟨"subf", 0o173000, .fsrcac⟩, ⟨"cmpf", 0o173400, .fsrcac⟩, ⟨"stf", 0o174000, .acfdst⟩,
  ⟨"divf", 0o174400, .fsrcac⟩, ⟨"stexp", 0o175000, .acdst⟩, ⟨"stcfi", 0o175400, .acdst⟩, ⟨"stcfd", 0o176000, .acfdst⟩,
  ⟨"ldexp", 0o176400, .srcac⟩, ⟨"ldcif", 0o177000, .srcac⟩, ⟨"ldcfd", 0o177400, .fsrcac⟩
]

/-- pure synonyms: same encoding space as the target -/
def synonyms : List (String × String) := [
  ("ccc", "clnzvc"), ("scc", "senzvc"), ("med6x", "med"), ("bhis", "bcc"), ("blo", "bcs"),
  ("msn", "mns"), ("ldsc", "mns"), ("sta0", "mpp"), ("stb0", "mrs"),
  ("clrd", "clrf"), ("tstd", "tstf"), ("absd", "absf"), ("negd", "negf"), ("muld", "mulf"), ("modd", "modf"),
  ("addd", "addf"), ("ldd", "ldf"), ("subd", "subf"), ("cmpd", "cmpf"), ("std", "stf"), ("divd", "divf"),
  ("stcfl", "stcfi"), ("stcdi", "stcfi"), ("stcdl", "stcfi"), ("stcdf", "stcfd"),
  ("ldcid", "ldcif"), ("ldclf", "ldcif"), ("ldcld", "ldcif"), ("ldcdf", "ldcfd"),
  ("return", "ret"), ("sys", "trap"), ("callr", "jmp"), ("hlt", "halt")]

/-- convenience mnemonics: an instruction with some operand fixed.
    `push x = mov x, -(sp)`, `pop x = mov (sp)+, x`, `ret = rts pc`, `call x = jsr pc, x` -/
inductive Conv | push | pop | ret | call
deriving Repr, DecidableEq

def conveniences : List (String × Conv) := [("push", .push), ("pop", .pop), ("ret", .ret), ("call", .call)]

/-! ### fields -/

inductive FKind | rm | reg | num | br | sob | frm | ac
deriving Repr, DecidableEq

structure Field where
  kind : FKind
  shift : Nat
  width : Nat
deriving Repr, DecidableEq

def fields : Fmt → List Field
  | .none => []
  | .dd => [⟨.rm, 0, 6⟩]
  | .ssdd => [⟨.rm, 6, 6⟩, ⟨.rm, 0, 6⟩]
  | .rdd => [⟨.reg, 6, 3⟩, ⟨.rm, 0, 6⟩]
  | .ssr => [⟨.rm, 0, 6⟩, ⟨.reg, 6, 3⟩]
  | .r => [⟨.reg, 0, 3⟩]
  | .n3 => [⟨.num, 0, 3⟩]
  | .n6 => [⟨.num, 0, 6⟩]
  | .n8 => [⟨.num, 0, 8⟩]
  | .br8 => [⟨.br, 0, 8⟩]
  | .rbr6 => [⟨.reg, 6, 3⟩, ⟨.sob, 0, 6⟩]
  | .fop => [⟨.frm, 0, 6⟩]
  | .fsrcac => [⟨.frm, 0, 6⟩, ⟨.ac, 6, 2⟩]
  | .acfdst => [⟨.ac, 6, 2⟩, ⟨.frm, 0, 6⟩]
  | .srcac => [⟨.rm, 0, 6⟩, ⟨.ac, 6, 2⟩]
  | .acdst => [⟨.ac, 6, 2⟩, ⟨.rm, 0, 6⟩]

def fieldOf (w : Nat) (f : Field) : Nat := w / 2 ^ f.shift % 2 ^ f.width

/-- the opcode word with all operand fields cleared -/
def clearFields (w : Nat) (fs : List Field) : Nat :=
  w - (fs.map (fun f => fieldOf w f * 2 ^ f.shift)).foldl (· + ·) 0

def matchesCanon (c : Canon) (w : Nat) : Bool := clearFields w (fields c.fmt) == c.base

/-! ### decoder -/

/-- a decoded operand -/
inductive DOp
  | reg (r : Nat)                       -- mode 0
  | mode (m r : Nat)                    -- modes 1–5 (register deferred … autodecrement deferred)
  | idx (m r x : Nat)                   -- modes 6, 7 with a general register: X(Rn), @X(Rn)
  | imm (v : Nat) | abs (v : Nat)       -- modes 27, 37
  | rel (x : Nat) | relDef (x : Nat)    -- modes 67, 77 (x = stored displacement)
  | num (v : Nat)                       -- inline number
  | disp (words : Int)                  -- branch displacement in words (SOB: minus the count)
  | ac (n : Nat)                        -- FP accumulator
deriving Repr, DecidableEq

/-- a 6-bit general operand field, consuming an extension word where the mode needs one -/
def decodeRM (fp : Bool) (f : Nat) (rest : List Nat) : Option (DOp × List Nat) :=
  let m := f / 8
  let r := f % 8
  if m = 0 then some (if fp then .ac r else .reg r, rest)
  else if r = 7 ∧ (m = 2 ∨ m = 3 ∨ m = 6 ∨ m = 7) then
    match rest with
    | x :: rest' => some ((if m = 2 then .imm x else if m = 3 then .abs x else if m = 6 then .rel x else .relDef x), rest')
    | [] => none
  else if m = 6 ∨ m = 7 then
    match rest with
    | x :: rest' => some (.idx m r x, rest')
    | [] => none
  else some (.mode m r, rest)

def decodeField (w : Nat) (f : Field) (rest : List Nat) : Option (DOp × List Nat) :=
  let v := fieldOf w f
  match f.kind with
  | .rm => decodeRM false v rest
  | .frm => decodeRM true v rest
  | .reg => some (.reg v, rest)
  | .num => some (.num v, rest)
  | .ac => some (.ac v, rest)
  | .br => some (.disp (if v < 128 then (v : Int) else (v : Int) - 256), rest)
  | .sob => some (.disp (-(v : Int)), rest)

def decodeFields (w : Nat) : List Field → List Nat → Option (List DOp × List Nat)
  | [], rest => some ([], rest)
  | f :: fs, rest =>
    match decodeField w f rest with
    | none => none
    | some (op, rest') =>
      match decodeFields w fs rest' with
      | none => none
      | some (ops, rest'') => some (op :: ops, rest'')

/-- decode one instruction at the head of a word list: canonical name, operands in
    source order, number of words consumed -/
def decode (ws : List Nat) : Option (String × List DOp × Nat) :=
  match ws with
  | [] => none
  | w :: rest =>
    match canon.find? (fun c => matchesCanon c w) with
    | none => none
    | some c =>
      match decodeFields w (fields c.fmt) rest with
      | none => none
      | some (ops, rest') => some (c.name, ops, ws.length - rest'.length)

/-- canonical name of a mnemonic -/
def canonName (name : String) : String :=
  match synonyms.find? (fun p => p.1 == name) with
  | some (_, t) => if t == "ret" then "rts" else t
  | none =>
    match conveniences.find? (fun p => p.1 == name) with
    | some (_, .push) => "mov" | some (_, .pop) => "mov" | some (_, .ret) => "rts" | some (_, .call) => "jsr"
    | none => name

/-- the convenience form a mnemonic denotes (directly or through a synonym), if any -/
def convOf (name : String) : Option Conv :=
  let target : String := match synonyms.find? (fun (p : String × String) => p.1 == name) with
    | some (_, t) => t
    | none => name
  (conveniences.find? (fun (p : String × Conv) => p.1 == target)).map (·.2)

/-- operands of the canonical instruction a mnemonic stands for -/
def expandOps (name : String) (ops : List DOp) : List DOp :=
  match convOf name with
  | some .push => ops ++ [DOp.mode 4 6]
  | some .pop => DOp.mode 2 6 :: ops
  | some .ret => [DOp.reg 7]
  | some .call => DOp.reg 7 :: ops
  | none => ops

end Pdpy11.Spec.Isa
