/-
Independent specification of RADIX-50 (DEC "MOD40"): the 40-character
alphabet and the standard unpacking algorithm.  Written from the DEC
documentation, not from the Python; frozen.
-/
namespace Pdpy11.Spec.Rad50

/-- space, A–Z, `$`, `.`, the code-29 character (`%` in this assembler family), 0–9 -/
def alphabet : List Nat :=
  [32,
   65, 66, 67, 68, 69, 70, 71, 72, 73, 74, 75, 76, 77, 78, 79, 80, 81, 82, 83, 84, 85, 86, 87, 88, 89, 90,
   36, 46, 37,
   48, 49, 50, 51, 52, 53, 54, 55, 56, 57]

/-- standard unpacking of one word into three codes -/
def unpack (w : Nat) : Nat × Nat × Nat := (w / 1600, w / 40 % 40, w % 40)

def unpackWords : List Nat → List Nat
  | [] => []
  | w :: ws => (unpack w).1 :: (unpack w).2.1 :: (unpack w).2.2 :: unpackWords ws

/-- code → character -/
def charOf (code : Nat) : Nat := alphabet.getD code 0

def decodeWords (ws : List Nat) : List Nat := (unpackWords ws).map charOf

end Pdpy11.Spec.Rad50
