/-
PDP-11 effective-address rules for branches, SOB and PC-relative operands, from
the processor handbook:

* branch: `PC ← PC + 2·sext(offset₈)` with `PC` already advanced past the branch word;
* SOB:    `PC ← PC − 2·offset₆`;
* mode 67 (relative): `EA = X + PC`, mode 77: `EA = (X + PC)`, where `PC` has been
  advanced past the word holding `X`; addresses are 16 bits wide.
-/
namespace Pdpy11.Spec

/-- sign extension of an 8-bit field -/
def sext8 (f : Nat) : Int := if f % 256 < 128 then (f % 256 : Nat) else (f % 256 : Nat) - 256

/-- target of a branch whose word `w` sits at address `a` -/
def eaBranch (a : Int) (w : Nat) : Int := a + 2 + 2 * sext8 (w % 256)

/-- target of `SOB` whose word `w` sits at address `a` -/
def eaSob (a : Int) (w : Nat) : Int := a + 2 - 2 * ((w % 64 : Nat) : Int)

/-- effective address of a PC-relative operand whose displacement word `x` sits at
    address `xa` (16-bit wrap-around) -/
def eaRel (xa : Int) (x : Nat) : Int := (xa + 2 + (x : Int)) % 65536

end Pdpy11.Spec
