import Pdpy11.Model.Directive
/-
Model of the structural part of the compiler: how `compile_block`, `.repeat`, linking of
several files, `.include`, `.end` and `.once` put the chunks of statements one after
another.  A statement is *any* function of the address it is emitted at (so every
instruction, operand form and expression, including `.`, is an instance); it returns its
bytes and whether it stops the enclosing block (`.end`, `.once` on a repeated include —
`CompilerStopIteration`, which `compile_block` catches).
-/
namespace Pdpy11.Model.Layout

/-- a compiled statement: address ↦ (bytes, stops the block) -/
abbrev Stmt := Nat → List Nat × Bool

/-- `Compiler.compile_block`: statements one after another, each at the address after the
previous one's bytes; a stop discards the rest of the block -/
def emitBlock : List Stmt → Nat → List Nat
  | [], _ => []
  | s :: rest, a =>
    let (b, stop) := s a
    if stop then b else b ++ emitBlock rest (a + b.length)

/-- `.repeat n { body }`: `compile_block(body)` n times at advancing addresses -/
def repeatEmit : Nat → List Stmt → Nat → List Nat
  | 0, _, _ => []
  | n + 1, body, a =>
    let b := emitBlock body a
    b ++ repeatEmit n body (a + b.length)

/-- `compile_and_link_files`: the files one after another -/
def linkFiles : List (List Stmt) → Nat → List Nat
  | [], _ => []
  | f :: rest, a =>
    let b := emitBlock f a
    b ++ linkFiles rest (a + b.length)

def endStmt : Stmt := fun _ => ([], true)

/-- `.once`: stops the file when it has been compiled before (`times_file_compiled > 1`, the
counter already includes the current compilation) -/
def onceStmt (timesCompiled : Nat) : Stmt := fun _ => ([], decide (timesCompiled > 1))

/-- a statement that is a nested block compiled in place (`.include`, one `.repeat`) -/
def blockStmt (body : List Stmt) : Stmt := fun a => (emitBlock body a, false)

def repeatStmt (n : Nat) (body : List Stmt) : Stmt := fun a => (repeatEmit n body a, false)

def NoStop (body : List Stmt) : Prop := ∀ s ∈ body, ∀ a, (s a).2 = false

/-! ### a concrete statement language for the correspondence check -/

inductive S where
  /-- fixed bytes (`.byte …`, `insert_file`, an instruction without address-dependent fields) -/
  | bytes (bs : List Nat)
  /-- `.word . + k` at an even address (the harness keeps it even) -/
  | dotWord (k : Nat)
  /-- `.even` -/
  | even
  /-- `.blkb n` -/
  | blk (n : Nat)
  /-- `br . + 2k` style: a word depending on nothing but emitted through the branch path -/
  | rep (n : Nat) (body : List S)
  | incl (timesCompiled : Nat) (body : List S)
  | end_
  | once (timesCompiled : Nat)
deriving Repr, Inhabited

mutual
def S.sem : S → Stmt
  | .bytes bs => fun _ => (bs, false)
  | .dotWord k => fun a => (Pdpy11.Model.le16 ((a + k) % 65536), false)
  | .even => fun a => (if a % 2 = 1 then [0] else [], false)
  | .blk n => fun _ => (List.replicate n 0, false)
  | .rep n body => repeatStmt n (semList body)
  | .incl _ body => blockStmt (semList body)
  | .end_ => endStmt
  | .once t => onceStmt t
def semList : List S → List Stmt
  | [] => []
  | s :: rest => s.sem :: semList rest
end

end Pdpy11.Model.Layout
