import Pdpy11.Model.Thunk
/-
Model of `deferred.Awaiting` — the stack of values that are being computed right now — on top
of the thunks and promises of `Model/Thunk.lean`:

  * `BaseDeferred.wait` enters `Awaiting(self)`: a value that is already on the stack
    (`is_awaiting`) raises `DeferredCycle`; otherwise it is pushed, `_wait` runs, it is popped;
  * `Deferred._wait` is as in `Model/Thunk.lean` (remembered value, remembered give-up of the
    current epoch, body); under `try_compute` a `DeferredCycle` passing through is remembered
    like a give-up (without that, a cycle of n definitions costs 2^n attempts).

`evalAw` is the engine with the stack and without memory (the meaning of a wait on a graph that
may be cyclic); `evalAwMemo` is the code.  Unlike `evalPlain`, `evalAw` needs no assumption on
the graph to end: see `Props/C08.lean`, namespace `Await`.  Total (fuel), core-only.
-/
namespace Pdpy11.Model.Await
open Pdpy11.Model.Thunk

inductive Res
  | value (k : Int)
  | notReady
  | cycle
  | fuel
deriving Repr, DecidableEq, Inhabited

/-- the engine with the awaiting stack, no memory -/
def evalAw (s : Store) : List Nat → Nat → E → Res
  | _, 0, _ => .fuel
  | _, _ + 1, .lit k => .value k
  | _, _ + 1, .prom i => match promVal s i with
    | some k => .value k
    | none => .notReady
  | st, f + 1, .thunk j =>
    if st.contains j then .cycle
    else match s.thunks[j]? with
      | none => .notReady
      | some t => evalAw s (j :: st) f t.fn
  | st, f + 1, .add a b => match evalAw s st f a with
    | .value x => (match evalAw s st f b with
      | .value y => .value (x + y)
      | r => r)
    | r => r

/-- the code: `BaseDeferred.wait` (stack) around `Deferred._wait` (two memories) under `try_compute` -/
def evalAwMemo (s : Store) : List Nat → Nat → E → Res × Store
  | _, 0, _ => (.fuel, s)
  | _, _ + 1, .lit k => (.value k, s)
  | _, _ + 1, .prom i => match promVal s i with
    | some k => (.value k, s)
    | none => (.notReady, s)
  | st, f + 1, .thunk j =>
    if st.contains j then (.cycle, s)
    else match s.thunks[j]? with
      | none => (.notReady, s)
      | some t =>
        match t.value with
        | some v => (.value v, s)
        | none =>
          if t.nrEpoch = some s.epoch then (.notReady, s)
          else
            match evalAwMemo s (j :: st) f t.fn with
            | (.value v, s1) => (.value v, setThunk s1 j { (s1.thunks[j]?).getD t with value := some v })
            | (.notReady, s1) => (.notReady, setThunk s1 j { (s1.thunks[j]?).getD t with nrEpoch := some s1.epoch })
            | (.cycle, s1) => (.cycle, setThunk s1 j { (s1.thunks[j]?).getD t with nrEpoch := some s1.epoch })
            | (r, s1) => (r, s1)
  | st, f + 1, .add a b => match evalAwMemo s st f a with
    | (.value x, s1) => (match evalAwMemo s1 st f b with
      | (.value y, s2) => (.value (x + y), s2)
      | r => r)
    | r => r

/-- the thunks a body mentions -/
def refs : E → List Nat
  | .lit _ => []
  | .prom _ => []
  | .thunk j => [j]
  | .add a b => refs a ++ refs b

def esize : E → Nat
  | .add a b => esize a + esize b + 1
  | _ => 1

end Pdpy11.Model.Await
