import Pdpy11.Model.Basic
import Pdpy11.Gen.BkTable
/-
Model of `bk_encoding.encode` / `decode` over the regenerated tables.
-/
namespace Pdpy11.Model.Bk
open Pdpy11.Model

/-- `DECODING_TABLE[b][0]` -/
def decodeByte (t : List (List Nat)) (b : Nat) : Option Nat := (t[b]?).bind List.head?

/-- `bytes.decode("bk")`; `none` = IndexError (byte outside the table) -/
def decode (t : List (List Nat)) (bs : Bytes) : Option Str := bs.mapM (decodeByte t)

/-- dictionary lookup in `ENCODING_TABLE` (dumped as an association list) -/
def lookup (e : List (Nat × Nat)) (c : Nat) : Option Nat :=
  match e with
  | [] => none
  | (k, v) :: r => if k = c then some v else lookup r c

/-- the dictionary `{char: i for i, chars in enumerate(DECODING_TABLE) for char in chars}`
    re-computed from the decoding table: the last entry containing the character wins -/
def buildEncoding (t : List (List Nat)) : List (Nat × Nat) :=
  let rec go (i : Nat) : List (List Nat) → List (Nat × Nat)
    | [] => []
    | chars :: r => go (i + 1) r ++ chars.reverse.map (fun c => (c, i))
  go 0 t

def encodable (e : List (Nat × Nat)) (c : Nat) : Bool := (lookup e c).isSome

/-- index of the first unencodable character -/
def firstBad (e : List (Nat × Nat)) : Str → Option Nat
  | [] => none
  | c :: r => if encodable e c then (firstBad e r).map (· + 1) else some 0

/-- one past the index of the last unencodable character -/
def lastBadEnd (e : List (Nat × Nat)) (s : Str) : Option Nat :=
  (firstBad e s.reverse).map (fun k => s.length - k)

inductive EncResult
  | ok (bs : Bytes)
  /-- `UnicodeEncodeError("bk", string, start, end, …)` -/
  | error (start stop : Nat)
deriving Repr, DecidableEq

/-- `str.encode("bk")` -/
def encode (e : List (Nat × Nat)) (s : Str) : EncResult :=
  match s.mapM (lookup e) with
  | some bs => .ok bs
  | none => .error ((firstBad e s).getD 0) ((lastBadEnd e s).getD s.length)

end Pdpy11.Model.Bk
