import Pdpy11.Model.Basic
import Pdpy11.Gen.Operators
/-
Model of the operator implementations of `operators.py` on already-evaluated integers
(Python's unbounded `int`).
-/
namespace Pdpy11.Model.Ops

/-! ### two's-complement bitwise operations on unbounded integers (Python `& | ^ ~`) -/

def ldiffN (m n : Nat) : Nat := Nat.bitwise (fun a b => a && !b) m n

def bnot : Int → Int
  | .ofNat m => .negSucc m
  | .negSucc m => .ofNat m

def band : Int → Int → Int
  | .ofNat m, .ofNat n => .ofNat (m &&& n)
  | .ofNat m, .negSucc n => .ofNat (ldiffN m n)
  | .negSucc m, .ofNat n => .ofNat (ldiffN n m)
  | .negSucc m, .negSucc n => .negSucc (m ||| n)

def bor : Int → Int → Int
  | .ofNat m, .ofNat n => .ofNat (m ||| n)
  | .ofNat m, .negSucc n => .negSucc (ldiffN n m)
  | .negSucc m, .ofNat n => .negSucc (ldiffN m n)
  | .negSucc m, .negSucc n => .negSucc (m &&& n)

def bxor : Int → Int → Int
  | .ofNat m, .ofNat n => .ofNat (m ^^^ n)
  | .ofNat m, .negSucc n => .negSucc (m ^^^ n)
  | .negSucc m, .ofNat n => .negSucc (m ^^^ n)
  | .negSucc m, .negSucc n => .ofNat (m ^^^ n)

/-! ### the operators, by the name of their Python function -/

/-- value and (at most one) reported error identifier -/
abbrev OpRes := Int × Option String

/-- `is_shift_count_sane`: counts beyond `MAX_SHIFT` bits in either direction are reported -/
def shiftSane (b : Int) : Bool := decide (-(Gen.maxShift : Int) ≤ b) && decide (b ≤ (Gen.maxShift : Int))

/-- infix operators on two known integers -/
def binop (fname : String) (a b : Int) : Option OpRes :=
  match fname with
  | "mul" => some (a * b, none)
  | "add" => some (a + b, none)
  | "sub" => some (a - b, none)
  | "div" => some (if b = 0 then (0, some "arithmetic-error") else (Int.fdiv a b, none))
  | "mod" => some (if b = 0 then (0, some "arithmetic-error") else (Int.fmod a b, none))
  | "lshift" => some (if !shiftSane b then (0, some "arithmetic-error")
      else if b ≥ 0 then (a * 2 ^ b.toNat, none) else (a >>> (-b).toNat, some "arithmetic-error"))
  | "rshift" => some (if !shiftSane b then (0, some "arithmetic-error")
      else if b = 0 then (a, none) else if b > 0 then (a >>> b.toNat, none) else (a * 2 ^ (-b).toNat, some "arithmetic-error"))
  | "lsh" => some (if !shiftSane b then (0, some "arithmetic-error")
      else if b ≥ 0 then (a * 2 ^ b.toNat, none) else (a >>> (-b).toNat, none))
  | "and_" => some (band a b, none)
  | "xor" => some (bxor a b, none)
  | "or_" => some (bor a b, none)
  | "or2" => some (bor a b, none)
  | "call" => some (b, some "unexpected-value")
  | _ => none

/-- prefix and postfix operators on a known integer -/
def unop (fname : String) (a : Int) : Option OpRes :=
  match fname with
  | "pos" => some (a, none)
  | "neg" => some (-a, none)
  | "inv" => some (bnot a, none)
  | "inv2" => some (bnot a, none)
  | "postadd" | "postsub" | "immediate" | "deferred" | "register" => some (a, some "unexpected-value")
  | _ => none

end Pdpy11.Model.Ops
