import Pdpy11.Model.Basic
import Pdpy11.Gen.Rad50
/-
Model of `radix50.pack_to_int`, the `.rad50` directive body
(`metacommands.rad50`) and the `^R` literal (`parser.radix50_literal`), at the
level of already-evaluated chunks.
-/
namespace Pdpy11.Model.Rad50
open Pdpy11.Model

/-- one chunk of a `.rad50` operand: a quoted string or `<n>` -/
inductive Chunk
  | str (s : Str)
  | code (n : Int)
deriving Repr, DecidableEq

inductive Err
  | invalidCharacter      -- character outside the alphabet
  | valueOutOfBounds      -- `<n>` with n ≥ 40, or negative
deriving Repr, DecidableEq

/-- index of a character in the table after case folding; `none` = not in the alphabet -/
def charCode (table : List Nat) (c : Nat) : Option Nat := idxOf table (upperPy c)

/-- the character codes of one chunk and the errors it reports
    (the implementation substitutes code 0 for every offending item) -/
def chunkCodes (table : List Nat) : Chunk → List Nat × List Err
  | .str s =>
    (s.map (fun c => (charCode table c).getD 0),
     s.filterMap (fun c => if (charCode table c).isNone then some Err.invalidCharacter else none))
  | .code n =>
    -- get_as_int(..., bitness=None, unsigned=True, default=0) then `val >= 40`
    if n < 0 then ([0], [Err.valueOutOfBounds])
    else if n ≥ 40 then ([0], [Err.valueOutOfBounds])
    else ([n.toNat], [])

/-- pad with zeros to a multiple of three (`while len(characters) % 3 != 0: append(0)`) -/
def pad3 (l : List Nat) : List Nat := l ++ List.replicate ((3 - l.length % 3) % 3) 0

def pack (a b c : Nat) : Nat := a * 1600 + b * 40 + c

/-- words of consecutive triples -/
def group3 : List Nat → List Nat
  | a :: b :: c :: rest => pack a b c :: group3 rest
  | _ => []

/-- the `.rad50` directive: emitted words and reported errors -/
def directive (table : List Nat) (chunks : List Chunk) : List Nat × List Err :=
  let rs := chunks.map (chunkCodes table)
  (group3 (pad3 (rs.flatMap (·.1))), rs.flatMap (·.2))

/-- bytes of the directive -/
def directiveBytes (table : List Nat) (chunks : List Chunk) : Bytes :=
  (directive table chunks).1.flatMap le16

/-- `radix50.pack_to_int` on an (upper-cased) string of at most 3 characters of the
    alphabet; `none` models the `ValueError`/`assert` of the implementation -/
def packToInt (table : List Nat) (s : Str) : Option Nat :=
  if s.length > 3 then none else
  match (s ++ List.replicate (3 - s.length) 32).mapM (idxOf table) with
  | some [a, b, c] => some (pack a b c)
  | _ => none

/-- the `^R` literal: the regex admits only alphabet characters (any case), at most
    three are kept, upper-cased, then `pack_to_int` (`none` = rejected: U+0130 / U+212A, which the case-insensitive regex lets through, are not in the table) -/
def caretR (table : List Nat) (s : Str) : Option Nat :=
  packToInt table ((s.take 3).map upperPy)

end Pdpy11.Model.Rad50
