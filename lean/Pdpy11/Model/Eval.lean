import Pdpy11.Model.Syntax
import Pdpy11.Model.Ops
import Pdpy11.Model.Directive
import Pdpy11.Model.Parse
/-
Evaluation of constant expressions (`resolve` of the token classes in `types.py` and
`operators.py`) when every symbol already has a known integer value.
-/
namespace Pdpy11.Model.Eval
open Pdpy11.Model Pdpy11.Model.Syntax Pdpy11.Model.Insn Pdpy11.Model.Directive

structure Env where
  charset : Charset
  dot : Int
  /-- lower-cased symbol name ↦ value -/
  syms : List (String × Int)

def lookupSym (env : Env) (name : String) : Option Int :=
  (env.syms.find? (fun p => p.1 == Parse.lowerS name)).map (·.2)

def registerNames : List String := Gen.symbolResolveRegisterNames

/-- `CharLiteral.resolve` -/
def charLiteralValue (cs : Charset) (s : List Nat) : M Int :=
  match encodeStr cs s with
  | none => do err "invalid-character"; pure 0
  | some bs => do
    if bs.length > 2 then err "too-long-string"
    let b := (bs.take 2) ++ List.replicate (2 - (bs.take 2).length) 0
    pure ((b.getD 0 0 + 256 * b.getD 1 0 : Nat) : Int)

/-- `token.resolve(state)` for constant expressions -/
def eval (env : Env) : Expr → M Int
  | .num _ _ v _ invalidBase8 => do
      if invalidBase8 then err "invalid-number"
      pure v
  | .sym _ name isLabel =>
      if registerNames.contains (Parse.lowerS name) && !isLabel then do err "unexpected-register"; abort
      else match lookupSym env name with
        | some v => pure v
        | none => do err "undefined-symbol"; pure 0
  | .dot _ => pure env.dot
  | .paren _ _ e => eval env e
  | .chr _ _ s => charLiteralValue env.charset s
  | .infix _ f l r => do
      let a ← eval env l
      let b ← eval env r
      match Ops.binop f a b with
      | some (v, none) => pure v
      | some (v, some e) => do err e; pure v
      | none => crash ("unknown operator " ++ f)
  | .pre _ f e => do
      let a ← eval env e
      match Ops.unop f a with
      | some (v, none) => pure v
      | some (v, some er) => do err er; pure v
      | none => crash ("unknown operator " ++ f)
  | .post _ f e => do
      let a ← eval env e
      match Ops.unop f a with
      | some (v, none) => pure v
      | some (v, some er) => do err er; pure v
      | none => crash ("unknown operator " ++ f)

end Pdpy11.Model.Eval
