import Pdpy11.Model.Insn
import Pdpy11.Model.Bk
import Pdpy11.Gen.Codecs
import Pdpy11.Gen.Meta
/-
Value-level model of the data directives of `metacommands.py` (operands already
evaluated), of `Metacommand.compile_insn`'s operand counting/cooking and of
`Compiler.compile_word_list`.
-/
namespace Pdpy11.Model.Directive
open Pdpy11.Model Pdpy11.Model.Insn

/-! ### output charsets -/

inductive Charset | bk | utf8 | latin1 | koi8r | cp866
deriving Repr, DecidableEq

def utf8Char (c : Nat) : Option Bytes :=
  if c < 0x80 then some [c]
  else if c < 0x800 then some [0xC0 + c / 64, 0x80 + c % 64]
  else if 0xD800 ≤ c ∧ c < 0xE000 then none
  else if c < 0x10000 then some [0xE0 + c / 4096, 0x80 + c / 64 % 64, 0x80 + c % 64]
  else if c < 0x110000 then some [0xF0 + c / 262144, 0x80 + c / 4096 % 64, 0x80 + c / 64 % 64, 0x80 + c % 64]
  else none

/-- a single-byte codec that is ASCII below 0x80 and given by a 128-entry table above -/
def tableChar (t : List Nat) (c : Nat) : Option Bytes :=
  if c < 0x80 then some [c] else (idxOf t c).map (fun i => [0x80 + i])

def encodeChar : Charset → Nat → Option Bytes
  | .bk, c => (Bk.lookup Gen.bkEncodingTable c).map (fun b => [b])
  | .utf8, c => utf8Char c
  | .latin1, c => if c < 256 then some [c] else none
  | .koi8r, c => tableChar Gen.koi8rTable c
  | .cp866, c => tableChar Gen.cp866Table c

/-- `str.encode(charset)`; `none` = `UnicodeEncodeError` -/
def encodeStr (cs : Charset) (s : Str) : Option Bytes := (s.mapM (encodeChar cs)).map List.flatten

/-! ### operands -/

inductive StrChunk
  | str (s : Str)       -- quoted string
  | angle (v : Int)     -- `<expr>`
deriving Repr, DecidableEq

inductive Arg
  | int (v : Int)
  | str (chunks : List StrChunk)
deriving Repr, DecidableEq

/-- `get_as_int(..., default=d)`: a reported error yields the default instead of aborting -/
def getAsIntDefault (bitness : Option Nat) (unsigned : Bool) (d : Nat) (v : Int) : M Nat :=
  match getAsInt bitness unsigned v with
  | .ok x => pure x.toNat
  | .error e => do err e; pure d

def zeros (n : Nat) : Bytes := List.replicate n 0

/-! ### directive bodies -/

def intArgs (name : String) (args : List Arg) : M (List Int) :=
  args.mapM (fun a => match a with
    | .int v => pure v
    | .str _ => do err "type-mismatch"; abort)

def oddPrefix (emit : Int) : M Bytes :=
  if emit % 2 = 1 then do err "odd-address"; pure [0] else pure []

/-- `.byte` -/
def byteDir (vals : List Int) : M Bytes := do
  let cooked ← mapM' (getAsIntM (some 8) false) vals
  if cooked.isEmpty then do warn "implicit-operand"; pure [0] else pure cooked

/-- `.word` -/
def wordDir (emit : Int) (vals : List Int) : M Bytes := do
  let cooked ← mapM' (getAsIntM (some 16) false) vals
  let pre ← oddPrefix emit
  if cooked.isEmpty then do warn "implicit-operand"; pure (pre ++ [0, 0])
  else pure (pre ++ cooked.flatMap le16)

/-- `encode_i32`: high word first, each word little-endian -/
def dword32 (v : Nat) : Bytes := le16 (v / 65536) ++ le16 (v % 65536)

/-- `.dword` -/
def dwordDir (emit : Int) (vals : List Int) : M Bytes := do
  let cooked ← mapM' (getAsIntM (some 32) false) vals
  let pre ← oddPrefix emit
  if cooked.isEmpty then do warn "implicit-operand"; pure (pre ++ [0, 0, 0, 0])
  else pure (pre ++ cooked.flatMap dword32)

/-- `Compiler.compile_word_list` (implicit `.word`) -/
def wordList (emit : Int) (vals : List Int) : M Bytes := do
  let cooked ← mapM' (getAsIntM (some 16) false) vals
  let pre ← oddPrefix emit
  pure (pre ++ cooked.flatMap le16)

/-- `ascii_impl` -/
def asciiImpl (cs : Charset) : List StrChunk → M Bytes
  | [] => pure []
  | .angle v :: rest => do
      let b ← getAsIntDefault (some 8) true 0 v
      let r ← asciiImpl cs rest
      pure (b :: r)
  | .str s :: rest => do
      let bs ← match encodeStr cs s with
        | some bs => pure bs
        | none => do err "invalid-character"; pure []
      let r ← asciiImpl cs rest
      pure (bs ++ r)

def blkb (n : Int) : M Bytes := do
  let c ← getAsIntM (some 16) true n
  pure (zeros c)

def blkw (n : Int) : M Bytes := do
  let c ← getAsIntM (some 16) true n
  pure (zeros (2 * c))

def even (emit : Int) : Bytes := if emit % 2 = 1 then [0] else []
def odd (emit : Int) : Bytes := if emit % 2 = 0 then [0] else []

def align (emit : Int) (n : Int) : M Bytes := do
  let c ← getAsIntM (some 16) true n
  if c = 0 then do err "value-out-of-bounds"; pure []
  else pure (zeros ((-emit) % (c : Int)).toNat)

/-- operand-count check of `Metacommand.compile_insn` against the regenerated table -/
def countOk (m : Gen.MetaG) (n : Nat) : Bool :=
  m.minOperands ≤ n && (match m.maxOperands with | none => true | some mx => n ≤ mx)

def lookupMeta (name : String) : Option Gen.MetaG :=
  Gen.metacommands.find? (fun m => m.names.contains name)

/-- one data directive at address `emit` -/
def directive (name : String) (cs : Charset) (emit : Int) (args : List Arg) : M Bytes :=
  match lookupMeta name with
  | none => crash "unknown directive"
  | some m =>
    if !countOk m args.length then do err "wrong-meta-operands"; abort
    else match m.name with
    | ".byte" => do byteDir (← intArgs name args)
    | ".word" => do wordDir emit (← intArgs name args)
    | ".dword" => do dwordDir emit (← intArgs name args)
    | ".ascii" => match args with
        | [.str chunks] => asciiImpl cs chunks
        | _ => crash "non-string operand of .ascii (outside the value-level model)"
    | ".asciz" => match args with
        | [.str chunks] => do let b ← asciiImpl cs chunks; pure (b ++ [0])
        | _ => crash "non-string operand of .asciz (outside the value-level model)"
    | ".blkb" => match args with
        | [.int n] => blkb n
        | _ => do err "type-mismatch"; abort
    | ".blkw" => match args with
        | [.int n] => blkw n
        | _ => do err "type-mismatch"; abort
    | ".even" => pure (even emit)
    | ".odd" => pure (odd emit)
    | ".align" => match args with
        | [.int n] => align emit n
        | _ => do err "type-mismatch"; abort
    | _ => crash "directive outside the value-level model"

/-- the size `compile_block` adds to the running address *before* the bytes exist
    (`SizedDeferred`): `none` = no announced size (the chunk's own length is used) -/
def announcedSize (m : Gen.MetaG) (nOperands : Nat) : Option Nat :=
  match m.size with
  | .none => none
  | .const n => some n
  | .perCount samples => samples[nOperands]?

end Pdpy11.Model.Directive
