/-
Model of the module-level state of `deferred.py` / `reports.py` and of the context
managers that bracket every use of it: `try_compute` (depth counter, swallows
`NotReadyError` and a `DeferredCycle` met by the speculative attempt), `Awaiting(d)` (stack + per-object flag, raises `DeferredCycle` on
re-entry), `handle_reports(h)` (handler stack, error latch, conversion of an error
condition into `UnrecoverableError`), and `emit_report`.
-/
namespace Pdpy11.Model.State

inductive Exc
  | notReady | cycle | recoverable | unrecoverable | unhandledReport | other (n : Nat)
deriving Repr, DecidableEq

inductive Sev | warning | error | critical
deriving Repr, DecidableEq

/-- a computation built from the bracket classes -/
inductive Comp
  | ret
  | raise (e : Exc)
  | seq (a b : Comp)
  /-- `try: a  except <caught>: pass` -/
  | catch (a : Comp) (caught : List Exc)
  /-- `with try_compute: a` -/
  | tryCompute (a : Comp)
  /-- `with Awaiting(d): a` -/
  | awaiting (d : Nat) (a : Comp)
  /-- `with handle_reports(h): a` -/
  | handler (h : Nat) (a : Comp)
  /-- `emit_report(sev, …)` -/
  | report (sev : Sev)
deriving Repr

structure St where
  /-- `try_compute.depth` -/
  depth : Nat
  /-- `Awaiting.awaiting_stack` (top first); `d.is_awaiting` ⇔ `d` is on the stack -/
  awaiting : List Nat
  /-- `handle_reports.handlers_stack` (top first) with each handler's `is_error_condition` -/
  handlers : List (Nat × Bool)
deriving Repr, DecidableEq

def St.init : St := ⟨0, [], []⟩

/-- outcome (exception in flight, if any) and state afterwards; the list collects the reports
    delivered to handlers as (handler id, severity) -/
def run : Comp → St → List (Nat × Sev) → (Option Exc × St × List (Nat × Sev))
  | .ret, st, log => (none, st, log)
  | .raise e, st, log => (some e, st, log)
  | .seq a b, st, log =>
    match run a st log with
    | (none, st', log') => run b st' log'
    | r => r
  | .catch a caught, st, log =>
    match run a st log with
    | (some e, st', log') => if caught.contains e then (none, st', log') else (some e, st', log')
    | r => r
  | .tryCompute a, st, log =>
    match run a { st with depth := st.depth + 1 } log with
    | (e, st', log') =>
      let st'' := { st' with depth := st'.depth - 1 }
      (if e = some .notReady || e = some .cycle then none else e, st'', log')
  | .awaiting d a, st, log =>
    if st.awaiting.contains d then (some .cycle, st, log)
    else
      match run a { st with awaiting := d :: st.awaiting } log with
      | (e, st', log') => (e, { st' with awaiting := st'.awaiting.tail }, log')
  | .handler h a, st, log =>
    match run a { st with handlers := (h, false) :: st.handlers } log with
    | (e, st', log') =>
      let flag := match st'.handlers.head? with | some (_, f) => f | none => false
      let st'' := { st' with handlers := st'.handlers.tail }
      -- `__exit__` of a plain-function handler: swallow = False
      let e' := if flag && (e = none || e = some .recoverable) then some Exc.unrecoverable else e
      (e', st'', log')
  | .report sev, st, log =>
    match st.handlers with
    | [] => (some .unhandledReport, st, log)
    | (h, flag) :: rest =>
      let flag' := flag || sev != .warning
      let st' := { st with handlers := (h, flag') :: rest }
      (if sev = .critical then some .unrecoverable else none, st', log ++ [(h, sev)])

/-- `not_ready()` -/
def notReadyComp (st : St) : Comp := if st.depth > 0 then .raise .notReady else .ret

end Pdpy11.Model.State
