/-
Model of `deferred.LinearPolynomial`: the symbolic integer the lazy engine computes with
while addresses are unknown (`coeffs`: an insertion-ordered dict variable -> coefficient,
`constant_term`).  Variables are the engine's other deferred objects (promises, labels);
here they are numbered.  Total, core-only.

  * `mk`        the constructor called with a list of pairs (duplicates merged by `+=`
                in first-occurrence order, zero coefficients dropped)
  * `mkDict`    the constructor called with a dict (zero coefficients dropped)
  * `add` `addConst` `mulConst` `neg`      `__add__` (polynomial / int), `__mul__`/`__rmul__`
                by a known int, `__neg__`
  * `estimate`  `get_current_best_estimate`
  * `substKnown` `_substitute_known` against a snapshot of what is settled
  * `waitP`     the value `wait()` arrives at, or "not ready"
-/
namespace Pdpy11.Model.Poly

abbrev Var := Nat

structure P where
  coeffs : List (Var × Int)
  const : Int
deriving Repr, DecidableEq, Inhabited

/-- `if key in d: d[key] += v else: d[key] = v` on an insertion-ordered dict -/
def bump : List (Var × Int) → Var → Int → List (Var × Int)
  | [], k, v => [(k, v)]
  | (k', v') :: r, k, v => if k' = k then (k', v' + v) :: r else (k', v') :: bump r k v

def build (pairs : List (Var × Int)) : List (Var × Int) :=
  pairs.foldl (fun d kv => bump d kv.1 kv.2) []

def dropZero (d : List (Var × Int)) : List (Var × Int) := d.filter (fun kv => kv.2 ≠ 0)

def mk (pairs : List (Var × Int)) (c : Int) : P := ⟨dropZero (build pairs), c⟩
def mkDict (d : List (Var × Int)) (c : Int) : P := ⟨dropZero d, c⟩

def ofVar (v : Var) : P := mkDict [(v, 1)] 0

def add (p q : P) : P := mk (p.coeffs ++ q.coeffs) (p.const + q.const)
def addConst (p : P) (k : Int) : P := mkDict p.coeffs (p.const + k)
def mulConst (p : P) (k : Int) : P := mkDict (p.coeffs.map (fun kv => (kv.1, kv.2 * k))) (p.const * k)
def neg (p : P) : P := mkDict (p.coeffs.map (fun kv => (kv.1, -kv.2))) (-p.const)

/-- `get_current_best_estimate`: a polynomial without variables is its constant -/
def estimate (p : P) : Option Int := if p.coeffs.isEmpty then some p.const else none

/-- what a variable is known to stand for right now: nothing (`none`), an integer, another
variable (a promise settled with some other deferred), or a polynomial -/
inductive Est
  | int (k : Int)
  | var (w : Var)
  | poly (q : P)
deriving Repr, DecidableEq, Inhabited

abbrev Known := List (Var × Est)

def look (σ : Known) (v : Var) : Option Est := (σ.find? (fun x => x.1 == v)).map (·.2)

/-- what `key.wait()` followed by `get_current_best_estimate()` yields in the loop of `_wait`:
one level further than `look` when the variable stands for another variable -/
def look2 (σ : Known) (v : Var) : Option Est :=
  match look σ v with
  | some (.var w) => (match look σ w with | none => some (.var w) | some e => some e)
  | r => r

/-- the loop of `_substitute_known` / `_wait`: pairs and constant collected so far; `r` says
what a variable currently stands for -/
def substStep (r : Var → Option Est) (acc : List (Var × Int) × Int) (kv : Var × Int) : List (Var × Int) × Int :=
  match r kv.1 with
  | none => (acc.1 ++ [(kv.1, kv.2)], acc.2)
  | some (.var w) => (acc.1 ++ [(w, kv.2)], acc.2)
  | some (.int k) => (acc.1, acc.2 + k * kv.2)
  | some (.poly q) => (acc.1 ++ q.coeffs.map (fun kv1 => (kv1.1, kv1.2 * kv.2)), acc.2 + q.const * kv.2)

def substWith (r : Var → Option Est) (p : P) : P :=
  let x := p.coeffs.foldl (substStep r) ([], p.const)
  mk x.1 x.2

/-- `LinearPolynomial.__add__` with another deferred object on the right (a promise): what it is
currently known to stand for is added -/
def addEst (σ : Known) (p : P) (i : Var) : P :=
  match look σ i with
  | none => add p (ofVar i)
  | some (.int k) => addConst p k
  | some (.var w) => add p (ofVar w)
  | some (.poly q) => add p q

def zero : P := mkDict [] 0

/-- `_substitute_known` -/
def substKnown (σ : Known) (p : P) : P := substWith (look σ) p

/-- the body of `_wait` up to the final sum: substitute, await every variable speculatively,
substitute again -/
def waitRound (σ : Known) (p : P) : P := substKnown σ (substWith (look2 σ) (substKnown σ p))

inductive Res
  | value (k : Int)
  | notReady
  | fuel
deriving Repr, DecidableEq, Inhabited

/-- `wait()`: rounds of `_wait` until a number is reached; a variable nothing is known about
makes the final sum give up ("not ready") -/
def waitP (σ : Known) : Nat → P → Res
  | 0, _ => .fuel
  | f + 1, p =>
    let p3 := waitRound σ p
    if p3.coeffs.isEmpty then .value p3.const
    else if p3.coeffs.any (fun kv => (look σ kv.1).isNone) then .notReady
    else waitP σ f (substKnown σ p3)

/-- the meaning of a polynomial under an assignment of the variables -/
def termSum (env : Var → Int) : List (Var × Int) → Int
  | [] => 0
  | (v, a) :: r => a * env v + termSum env r

def evalP (env : Var → Int) (p : P) : Int := termSum env p.coeffs + p.const

end Pdpy11.Model.Poly
