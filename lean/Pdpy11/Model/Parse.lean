import Pdpy11.Model.Syntax
import Pdpy11.Model.Rad50
import Pdpy11.Gen.Opcodes
import Pdpy11.Gen.Meta
import Pdpy11.Gen.Operators
import Pdpy11.Gen.Registers
/-
Model of `parser.py` for the documented grammar G (DESIGN.md §2.1): a transliteration of
the combinator parser into a cursor-passing parser with explicit backtracking.  Reports
emitted before a backtrack stay emitted, exactly as in the implementation (reports are
side effects there).  The mutually recursive expression/statement parsers carry a fuel argument (callers pass the
input length) but are declared `partial`: their termination is not proved; the pure
operator-precedence functions (`popOne`, `popWhile`, `popAll`), about which C05 proves
theorems, are total.
-/
namespace Pdpy11.Model.Parse
open Pdpy11.Model Pdpy11.Model.Syntax

structure Cur where
  pos : Nat
  rest : List Char
deriving Repr, Inhabited

/-- a report: severity (`error` | `critical` | `warning`), identifier, first location -/
structure Diag where
  sev : String
  id : String
  s : Nat
  e : Nat
deriving Repr, DecidableEq, Inhabited

inductive R (α : Type)
  | ok (a : α) (c : Cur)
  | fail                 -- `RecoverableError`: the enclosing `maybe` backtracks
  | fatal                -- `UnrecoverableError` after a critical report

def P (α : Type) := Cur → Array Diag → (R α × Array Diag)

instance : Monad P where
  pure a := fun c l => (.ok a c, l)
  bind m f := fun c l =>
    match m c l with
    | (.ok a c', l') => f a c' l'
    | (.fail, l') => (.fail, l')
    | (.fatal, l') => (.fatal, l')

def failP {α : Type} : P α := fun _ l => (.fail, l)
instance {α : Type} : Inhabited (P α) := ⟨failP⟩
def getCur : P Cur := fun c l => (.ok c c, l)
def setCur (c : Cur) : P Unit := fun _ l => (.ok () c, l)
def getPos : P Nat := fun c l => (.ok c.pos c, l)
def report (sev id : String) (s e : Nat) : P Unit := fun c l => (.ok () c, l.push ⟨sev, id, s, e⟩)
def warning (id : String) (s e : Nat) : P Unit := report "warning" id s e
def error (id : String) (s e : Nat) : P Unit := report "error" id s e
/-- `reports.critical`: report and raise `UnrecoverableError` -/
def critical {α : Type} (id : String) (s e : Nat) : P α := fun _ l => (.fatal, l.push ⟨"critical", id, s, e⟩)

/-- `p(ctx, maybe=True)` -/
def maybe {α : Type} (p : P α) : P (Option α) := fun c l =>
  match p c l with
  | (.ok a c', l') => (.ok (some a) c', l')
  | (.fail, l') => (.ok none c, l')
  | (.fatal, l') => (.fatal, l')

/-- `p(ctx, maybe=True, lookahead=True)` -/
def lookahead {α : Type} (p : P α) : P (Option α) := fun c l =>
  match p c l with
  | (.ok a _, l') => (.ok (some a) c, l')
  | (.fail, l') => (.ok none c, l')
  | (.fatal, l') => (.fatal, l')

/-- `p | q` -/
def orElse {α : Type} (p q : P α) : P α := do
  match ← maybe p with
  | some a => pure a
  | none => q

/-- `~p` (for parsers whose result is a non-empty string) -/
def notP {α : Type} (p : P α) : P Unit := do
  match ← maybe p with
  | some _ => failP
  | none => pure ()

/-! ### characters -/

/-- `str.isspace()` -/
def isSpace (c : Char) : Bool :=
  let n := c.toNat
  (9 ≤ n && n ≤ 13) || (28 ≤ n && n ≤ 32) || n == 0x85 || n == 0xA0 || n == 0x1680 ||
  (0x2000 ≤ n && n ≤ 0x200A) || n == 0x2028 || n == 0x2029 || n == 0x202F || n == 0x205F || n == 0x3000

def isDigit (c : Char) : Bool := '0' ≤ c && c ≤ '9'
def isAlpha (c : Char) : Bool := ('a' ≤ c && c ≤ 'z') || ('A' ≤ c && c ≤ 'Z')
def isWordChar (c : Char) : Bool := isAlpha c || isDigit c || c == '_'
def lowerC (c : Char) : Char := if 'A' ≤ c && c ≤ 'Z' then Char.ofNat (c.toNat + 32) else c
def lowerS (s : String) : String := String.ofList (s.toList.map lowerC)
/-- `[a-z_0-9$.]` (case-insensitive) -/
def isSymChar (c : Char) : Bool := isAlpha c || isDigit c || c == '_' || c == '$' || c == '.'
/-- `[a-z_$]` -/
def isSymStart (c : Char) : Bool := isAlpha c || c == '_' || c == '$'

def advance (c : Cur) (n : Nat) : Cur := ⟨c.pos + n, c.rest.drop n⟩

/-- `Context.skip_whitespace` -/
def skipWsCur : Nat → Cur → Cur
  | 0, c => c
  | fuel + 1, c =>
    match c.rest with
    | [] => c
    | ch :: _ =>
      if isSpace ch then skipWsCur fuel (advance c 1)
      else if ch == ';' then
        let n := (c.rest.takeWhile (· != '\n')).length
        skipWsCur fuel (advance c n)
      else c

def skipWs : P Unit := fun c l => (.ok () (skipWsCur (c.rest.length + 1) c), l)

/-- `Parser.literal(s)` (case-insensitive); returns the lower-cased literal -/
def lit (s : String) (skip : Bool := true) : P String := do
  if skip then skipWs
  let c ← getCur
  let n := s.length
  let found := c.rest.take n
  if found.length == n && found.map lowerC == (lowerS s).toList then
    setCur (advance c n)
    pure (lowerS s)
  else failP

/-- one or more characters satisfying `p` -/
def takeWhile1 (p : Char → Bool) (skip : Bool := true) : P String := do
  if skip then skipWs
  let c ← getCur
  let run := c.rest.takeWhile p
  if run.isEmpty then failP
  else do
    setCur (advance c run.length)
    pure (String.ofList run)

/-- `ctx.eof()` -/
def atEof (c : Cur) : Bool :=
  let c' := skipWsCur (c.rest.length + 1) c
  c'.rest.all isSpace

/-- the parser `eof` -/
def eofP : P String := do
  skipWs
  let c ← getCur
  if c.rest.isEmpty then pure "" else failP

/-- does `newline` (`\s*\n|\s*;[^\n]*`) match here? -/
def newlineAhead (c : Cur) : Bool :=
  let run := c.rest.takeWhile isSpace
  run.contains '\n' || ((c.rest.drop run.length).head? == some ';')

/-! ### tables -/

def builtinNames : List String :=
  Gen.opcodes.map (·.name) ++ Gen.metacommands.flatMap (·.names)

/-- `name in builtin_commands` (a case-insensitive dictionary) -/
def isBuiltin (name : String) : Bool := builtinNames.contains (lowerS name)

def isRegisterName (name : String) : Bool := Gen.parserRegisterNames.contains (lowerS name)

def findMeta (name : String) : Option Gen.MetaG :=
  Gen.metacommands.find? (fun m => m.names.contains (lowerS name))

def findInsn (name : String) : Option Gen.InsnG :=
  Gen.opcodes.find? (fun e => e.name == lowerS name)

/-- `builtin_commands[name]` or `builtin_commands["." + name]`: (min operands, max operands (none = ∞),
    operand types, literal string operand, is a metacommand) -/
structure CmdInfo where
  minOps : Nat
  maxOps : Option Nat
  hints : List String
  literalString : Bool
  isMeta : Bool

def cmdInfo (name : String) : Option CmdInfo :=
  match findInsn name with
  | some e => some ⟨e.stubs.length, some e.stubs.length, [], false, false⟩
  | none => (findMeta name).map (fun m => ⟨m.minOperands, m.maxOperands, m.operandHints, m.literalString, true⟩)

def operatorChars (k : Gen.OpKind) : List String :=
  (Gen.operators.filter (fun o => o.kind == k)).map (·.char)

def operatorByChar (k : Gen.OpKind) (ch : String) : Option Gen.OperatorG :=
  Gen.operators.find? (fun o => o.kind == k && o.char == ch)

/-- `Parser.either([Parser.literal(op) for op in …])`: first operator (in table order) that matches -/
def anyOperator (k : Gen.OpKind) : P String := fun c l =>
  let rec go : List String → (R String × Array Diag)
    | [] => (.fail, l)
    | op :: rest =>
      match lit op true c l with
      | (.ok a c', l') => (.ok a c', l')
      | _ => go rest
  go (operatorChars k)

def infixOperator : P String := anyOperator .infix
def prefixOperator : P String := anyOperator .prefix
def postfixOperator : P String := anyOperator .postfix

/-- `caret_parenthesis`: `\^[$_=[\]\\{}|:/<>?]` -/
def caretParen : P String := do
  skipWs
  let c ← getCur
  match c.rest with
  | '^' :: x :: _ =>
    if "$_=[]\\{}|:/<>?".toList.contains x then do
      setCur (advance c 2)
      pure (String.ofList ['^', x])
    else failP
  | _ => failP

/-- terminators: the closing characters of enclosing `^x…x` brackets -/
abbrev Terms := List Char

/-- the parser `terminator` -/
def terminatorP (ts : Terms) : P String := fun c l =>
  let rec go : List Char → (R String × Array Diag)
    | [] => (.fail, l)
    | t :: rest =>
      match lit (String.ofList [t]) true c l with
      | (.ok a c', l') => (.ok a c', l')
      | _ => go rest
  go ts

/-- `(~terminator + colon)` -/
def colonNotTerm (ts : Terms) : P Unit := do
  notP (terminatorP ts)
  let _ ← lit ":"
  pure ()

/-! ### literals -/

def digitVal (c : Char) : Nat :=
  if isDigit c then c.toNat - 48 else if 'a' ≤ c && c ≤ 'f' then c.toNat - 87 else if 'A' ≤ c && c ≤ 'F' then c.toNat - 55 else 0

/-- `int(s, base)` on a string of digits of that base -/
def intOf (s : List Char) (base : Nat) : Nat := s.foldl (fun acc c => acc * base + digitVal c) 0

def isBaseDigit (base : Nat) (c : Char) : Bool :=
  (isDigit c || ('a' ≤ lowerC c && lowerC c ≤ 'f')) && digitVal c < base

/-- `number()` -/
def number (ts : Terms) : P Expr := do
  skipWs
  let start ← getPos
  let negative ← maybe (lit "-")
  let sign : Int := if negative.isSome then -1 else 1
  let signStr := if negative.isSome then "-" else ""
  skipWs
  -- Macro-11 style prefixes
  let prefixes : List (String × Nat) := [("^X", 16), ("^O", 8), ("^B", 2), ("^D", 10)]
  let rec tryPrefixes : List (String × Nat) → P (Option Expr)
    | [] => pure none
    | (pfx, base) :: rest => do
      match ← maybe (lit pfx) with
      | none => tryPrefixes rest
      | some _ => do
        let c ← getCur
        let run := c.rest.takeWhile (isBaseDigit base)
        let after := (c.rest.drop run.length).head?
        let okEnd := match after with
          | none => true
          | some ch => !(ch == '$' || ch == '_' || ch == '.') && !isWordChar ch
        if run.isEmpty || !okEnd then
          critical "invalid-number" start c.pos
        else do
          setCur (advance c run.length)
          let e ← getPos
          pure (some (.num ⟨start, e⟩ (signStr ++ pfx ++ String.ofList run) ((intOf run base : Nat) * sign) false false))
  match ← tryPrefixes prefixes with
  | some e => pure e
  | none => do
    -- every other kind of number is also a valid local symbol literal
    skipWs
    let c ← getCur
    match c.rest with
    | d :: _ =>
      if !isDigit d then failP else do
      let run := c.rest.takeWhile isSymChar
      setCur (advance c run.length)
      match ← maybe (colonNotTerm ts) with
      | some _ => failP          -- followed by a colon: a label
      | none => do
        let e ← getPos
        let hasDot := run.getLast? == some '.'
        let num := if hasDot then run.dropLast else run
        if num.contains '$' || num.contains '_' || num.contains '.' then failP
        else if !num.isEmpty && num.all isDigit then
          if hasDot then
            pure (.num ⟨start, e⟩ (signStr ++ String.ofList num ++ ".") ((intOf num 10 : Nat) * sign) false false)
          else if num.contains '8' || num.contains '9' then
            if sign == -1 then do
              error "invalid-number" start e
              pure (.num ⟨start, e⟩ ("-" ++ String.ofList num) ((intOf num 10 : Nat) * sign) false false)
            else
              pure (.num ⟨start, e⟩ (String.ofList num) ((intOf num 10 : Nat) * sign) true true)
          else
            pure (.num ⟨start, e⟩ (signStr ++ String.ofList num) ((intOf num 8 : Nat) * sign) (sign == 1) false)
        else
          match num with
          | '0' :: b :: digits =>
            if !isAlpha b then failP else
            let base : Option Nat := match lowerC b with | 'x' => some 16 | 'o' => some 8 | 'b' => some 2 | _ => none
            match base with
            | none => failP
            | some base =>
              if digits.isEmpty || !digits.all (isBaseDigit base) then failP
              else pure (.num ⟨start, e⟩ (signStr ++ String.ofList num) ((intOf digits base : Nat) * sign) (sign == 1) false)
          | _ => failP
    | [] => failP

/-- `radix50_literal` -/
def radix50Literal : P Expr := do
  skipWs
  let start ← getPos
  let _ ← lit "^R"
  let c ← getCur
  let isR50 (ch : Char) : Bool := (Gen.rad50Table.contains (upperAscii ch.toNat)) && ch != ' '
  let run := c.rest.takeWhile isR50
  let mut s := run
  if run.isEmpty then
    error "invalid-string" start c.pos
  else
    setCur (advance c run.length)
  let e ← getPos
  if s.length > 3 then
    error "invalid-string" start e
    s := s.take 3
  let up := s.map (fun ch => Char.ofNat (upperAscii ch.toNat))
  match Rad50.packToInt Gen.rad50Table (up.map Char.toNat) with
  | some v => pure (.num ⟨start, e⟩ ("^R" ++ String.ofList up) v false false)
  | none => failP

/-- `string_char = string_escape | character`; `none` = end of input -/
def stringChar : P (List Nat) := do
  let c ← getCur
  match c.rest with
  | [] => failP
  | '\\' :: rest =>
    let start := c.pos
    match rest with
    | [] => do
      setCur (advance c 1)
      error "invalid-escape" start (start + 1)
      -- `character(...)` returned None, `.lower()` on None raises AttributeError
      failP
    | ch :: rest2 =>
      let lc := lowerC ch
      if lc == 'n' then do setCur (advance c 2); pure [10]
      else if lc == 'r' then do setCur (advance c 2); pure [13]
      else if lc == 't' then do setCur (advance c 2); pure [9]
      else if lc == '\\' || lc == '"' || lc == '\'' || lc == '/' then do setCur (advance c 2); pure [lc.toNat]
      else if lc == '\n' then do setCur (advance c 2); pure []
      else if lc == 'x' then
        -- `Parser.regex(r"[0-9a-f]{2}")` skips whitespace first
        let c2 := skipWsCur (rest2.length + 1) ⟨c.pos + 2, rest2⟩
        match c2.rest with
        | h1 :: h2 :: _ =>
          if isBaseDigit 16 h1 && isBaseDigit 16 h2 then do
            setCur (advance c2 2)
            pure [digitVal h1 * 16 + digitVal h2]
          else do
            setCur ⟨c.pos + 2, rest2⟩
            error "invalid-escape" start (c.pos + 2)
            failP
        | _ => do
          setCur ⟨c.pos + 2, rest2⟩
          error "invalid-escape" start (c.pos + 2)
          failP
      else do
        setCur (advance c 2)
        error "invalid-escape" start (c.pos + 2)
        pure []
  | ch :: _ => do
    setCur (advance c 1)
    pure [ch.toNat]

/-- `single_quoted_literal` -/
def singleQuoted : P Expr := do
  skipWs
  let start ← getPos
  let _ ← lit "'"
  let c ← getCur
  match c.rest with
  | [] => critical "unterminated-string" start c.pos
  | ch :: _ =>
    if ch == '\t' || ch == '\r' || ch == '\n' then critical "unterminated-string" start c.pos else do
    let mut value : List Nat := []
    if ch != '\'' then
      value ← stringChar
    let c2 ← getCur
    if c2.rest.head? == some '\'' then
      let _ ← lit "'"
      let e ← getPos
      warning "excess-quote" start e
    let e ← getPos
    pure (.chr ⟨start, e⟩ ("'" ++ String.ofList (value.map Char.ofNat)) value)

/-- `double_quoted_literal` -/
def doubleQuoted : P Expr := do
  skipWs
  let start ← getPos
  let _ ← lit "\""
  let mut value : List Nat := []
  for _ in [0, 1] do
    let c ← getCur
    match c.rest with
    | [] => critical "unterminated-string" start c.pos
    | ch :: _ =>
      if ch == '\t' || ch == '\r' || ch == '\n' then critical "unterminated-string" start c.pos
      else if ch != '"' then
        let v ← stringChar
        value := value ++ v
  let c2 ← getCur
  if c2.rest.head? == some '"' then
    let _ ← lit "\""
    let e ← getPos
    warning "excess-quote" start e
  let e ← getPos
  pure (.chr ⟨start, e⟩ ("\"" ++ String.ofList (value.map Char.ofNat)) value)

/-- `instruction_pointer`: `\.(?![a-z_0-9])` -/
def instructionPointer : P Expr := do
  skipWs
  let c ← getCur
  match c.rest with
  | '.' :: rest =>
    match rest.head? with
    | some ch => if isAlpha ch || isDigit ch || ch == '_' then failP else do setCur (advance c 1); pure (.dot ⟨c.pos, c.pos + 1⟩)
    | none => do setCur (advance c 1); pure (.dot ⟨c.pos, c.pos + 1⟩)
  | _ => failP

/-- `symbol_literal`: `[a-z_$][a-z_0-9$.]*` -/
def symbolLiteral : P String := do
  skipWs
  let c ← getCur
  match c.rest with
  | ch :: _ =>
    if isSymStart ch then do
      let run := c.rest.takeWhile isSymChar
      setCur (advance c run.length)
      pure (String.ofList run)
    else failP
  | [] => failP

/-- `symbol_expression` -/
def symbolExpression (ts : Terms) : P Expr := do
  skipWs
  let start ← getPos
  let name ← symbolLiteral
  let hasColon := (← maybe (colonNotTerm ts)).isSome
  let e ← getPos
  if isBuiltin name && !hasColon then warning "suspicious-name" start e
  pure (.sym ⟨start, e⟩ name hasColon)

/-- `local_symbol_expression` -/
def localSymbolExpression (ts : Terms) : P Expr := do
  skipWs
  let start ← getPos
  let c ← getCur
  match c.rest with
  | d :: _ =>
    if !isDigit d then failP else do
    let run := c.rest.takeWhile isSymChar
    setCur (advance c run.length)
    let hasColon ←
      if run.all isDigit then do colonNotTerm ts; pure true
      else do pure (← maybe (colonNotTerm ts)).isSome
    let e ← getPos
    pure (.sym ⟨start, e⟩ (String.ofList run) hasColon)
  | [] => failP

/-- `expression_literal` -/
def expressionLiteral (ts : Terms) : P Expr := do
  match ← maybe (symbolExpression ts) with
  | some e => pure e
  | none =>
  match ← maybe radix50Literal with
  | some e => pure e
  | none =>
  match ← maybe (orElse (number ts) (localSymbolExpression ts)) with
  | some e => pure e
  | none => orElse singleQuoted (orElse doubleQuoted instructionPointer)

/-! ### the operator-precedence loop, as a pure function on the flat item list -/

/-- a pending operator on the shunting stack -/
structure PendingOp where
  prec : Nat
  fname : String
  isInfix : Bool
  /-- for prefix operators: where the operator token started -/
  start : Nat
deriving Repr

/-- `pop_op_stack(ctx_end)` -/
def popOne (stack : List Expr) (ops : List PendingOp) (ctxEnd : Nat) : List Expr × List PendingOp :=
  match ops with
  | [] => (stack, ops)
  | op :: ops' =>
    if op.isInfix then
      match stack with
      | rhs :: lhs :: rest => (.infix ⟨lhs.span.s, ctxEnd⟩ op.fname lhs rhs :: rest, ops')
      | _ => (stack, ops')
    else
      match stack with
      | x :: rest => (.pre ⟨op.start, ctxEnd⟩ op.fname x :: rest, ops')
      | _ => (stack, ops')

/-- `while op_stack and (prec, left) > (top.prec, False): pop_op_stack(ctx_prev)` -/
def popWhile (prec : Nat) (leftAssoc : Bool) (ctxEnd : Nat) : Nat → List Expr → List PendingOp → List Expr × List PendingOp
  | 0, stack, ops => (stack, ops)
  | fuel + 1, stack, ops =>
    match ops with
    | [] => (stack, ops)
    | top :: _ =>
      if prec > top.prec || (prec == top.prec && leftAssoc) then
        let (s', o') := popOne stack ops ctxEnd
        popWhile prec leftAssoc ctxEnd fuel s' o'
      else (stack, ops)

def popAll (ctxEnd : Nat) : Nat → List Expr → List PendingOp → List Expr
  | 0, stack, _ => stack
  | fuel + 1, stack, ops =>
    match ops with
    | [] => stack
    | _ :: _ =>
      let (s', o') := popOne stack ops ctxEnd
      popAll ctxEnd fuel s' o'

mutual
  /-- `expression_literal_rec` -/
  partial def expressionLiteralRec : Nat → Terms → P Expr
    | 0, _ => failP
    | fuel + 1, ts => do
      skipWs
      let start ← getPos
      let bracketAhead := (← lookahead (orElse (lit "(") (orElse (lit "<") caretParen))).isSome
      let mut value : Option Expr := none
      if !bracketAhead then
        value := some (← expressionLiteral ts)
      -- the loop over bracketed groups / calls
      let rec loop : Nat → Option Expr → P (Option Expr)
        | 0, v => pure v
        | k + 1, v => do
          let opening ←
            match v with
            | none => maybe (orElse (lit "(") (orElse (lit "<") caretParen))
            | some _ => maybe (lit "(")
          match opening with
          | none => pure v
          | some op => do
            let (closing, ts') : String × Terms :=
              if op == "(" then (")", ts)
              else if op == "<" then (">", ts)
              else
                let ch := (op.toList.getD 1 ' ')
                (String.ofList [ch], ts ++ [ch])
            let afterParen ← getPos
            skipWs
            let here ← getPos
            let inner ← match ← maybe (expression fuel ts') with
              | some e => pure e
              | none => critical "invalid-expression" here here
            skipWs
            let here2 ← getPos
            match ← maybe (lit closing) with
            | none => critical "invalid-expression" here2 here2
            | some _ => do
              let e ← getPos
              let _ := afterParen
              match v with
              | none => loop k (some (.paren ⟨start, e⟩ op inner))
              | some callee => loop k (some (.infix ⟨start, e⟩ "call" callee inner))
      match ← loop (fuel + 1) value with
      | some e => pure e
      | none => failP

  /-- `expression` -/
  partial def expression : Nat → Terms → P Expr
    | 0, _ => failP
    | fuel + 1, ts => do
      skipWs
      let exprStart ← getPos
      -- prefix operators, until a full operand is matched
      let rec prefixes : Nat → Nat → List PendingOp → P (Expr × List PendingOp)
        | 0, _, _ => failP
        | k + 1, opStart, ops => do
          match ← maybe (expressionLiteralRec fuel ts) with
          | some e => pure (e, ops)
          | none => do
            let here ← getPos
            -- `(~terminator)(ctx, report=report)`
            match ← maybe (notP (terminatorP ts)) with
            | none => if ops.isEmpty then failP else critical "invalid-expression" here here
            | some _ => pure ()
            match ← maybe prefixOperator with
            | none => do
              skipWs
              let before ← getPos
              let c ← getCur
              -- `Parser.regex(r"\^\S")`
              match c.rest with
              | '^' :: x :: _ =>
                if isSpace x then (if ops.isEmpty then failP else critical "invalid-expression" here here)
                else do
                  setCur (advance c 2)
                  critical "invalid-expression" before (before + 2)
              | _ => if ops.isEmpty then failP else critical "invalid-expression" here here
            | some ch => do
              match operatorByChar .prefix ch with
              | none => failP
              | some o => do
                skipWs
                let next ← getPos
                prefixes k next (⟨o.prec, o.fname, false, opStart⟩ :: ops)
      let (first, ops0) ← prefixes (fuel + 1) exprStart []
      -- infix / postfix loop
      let rec tail : Nat → List Expr → List PendingOp → P (List Expr × List PendingOp)
        | 0, stack, ops => pure (stack, ops)
        | k + 1, stack, ops => do
          let prev ← getCur
          skipWs
          let opPos ← getPos
          let cur ← getCur
          -- postfix operator followed by newline | , | ) | } | eof ?
          let postAhead ← lookahead (do
            notP (terminatorP ts)
            let _ ← postfixOperator
            let c ← getCur
            if newlineAhead c then pure ()
            else do
              let _ ← orElse (lit ",") (orElse (lit ")") (orElse (lit "}") eofP))
              pure ())
          match postAhead with
          | some _ => do
            setCur cur
            let ch ← postfixOperator
            let opEnd ← getPos
            match operatorByChar .postfix ch with
            | none => failP
            | some o =>
              let (stack', ops') := popWhile o.prec o.leftAssoc prev.pos (ops.length + 1) stack ops
              match stack' with
              | x :: rest => pure (.post ⟨opPos, opEnd⟩ o.fname x :: rest, ops')
              | [] => failP
          | none => do
            setCur cur
            match ← maybe (do notP (terminatorP ts); infixOperator) with
            | none => do
              setCur prev
              pure (stack, ops)
            | some ch => do
              let opEnd ← getPos
              match operatorByChar .infix ch with
              | none => failP
              | some o => do
                let here ← getPos
                let rhs ← match ← maybe (expressionLiteralRec fuel ts) with
                  | some e => pure e
                  | none => critical "invalid-expression" here here
                let _ := opEnd
                let (stack', ops') := popWhile o.prec o.leftAssoc prev.pos (ops.length + 1) stack ops
                tail k (rhs :: stack') (⟨o.prec, o.fname, true, 0⟩ :: ops')
      let (stack, ops) ← tail (fuel + 1) [first] ops0
      let e ← getPos
      match popAll e (ops.length + 1) stack ops with
      | x :: _ => pure x
      | [] => failP
end

/-! ### statements -/

/-- `label` -/
def labelP : P Stmt := do
  skipWs
  let start ← getPos
  let name ← takeWhile1 isSymChar
  let _ ← lit ":"
  let isExtern := (← maybe (lit ":" false)).isSome
  let e ← getPos
  if isBuiltin name then warning "suspicious-name" start e
  else if isRegisterName name then error "reserved-name" start e
  let firstDigit := match name.toList.head? with | some c => isDigit c | none => false
  if firstDigit && isExtern then do
    error "invalid-extern" start e
    pure (.label ⟨start, e⟩ name false)
  else pure (.label ⟨start, e⟩ name isExtern)

/-- `assignment` -/
def assignmentP (fuel : Nat) : P Stmt := do
  skipWs
  let start ← getPos
  let ip ← maybe instructionPointer
  let target : Option (String × Span) ←
    match ip with
    | some _ => pure none
    | none => do
      let name ← symbolLiteral
      let e ← getPos
      pure (some (name, ⟨start, e⟩))
  skipWs
  let eqPos ← getPos
  let _ ← lit "="
  let isExtern := (← maybe (lit "=" false)).isSome
  let afterEq ← getPos
  skipWs
  let here ← getPos
  let value ← match ← maybe (expression fuel []) with
    | some e => pure e
    | none => critical "invalid-assignment" eqPos afterEq
  let _ := here
  let e ← getPos
  match target with
  | some (name, tsp) => do
    if isBuiltin name then warning "suspicious-name" tsp.s tsp.e
    else if isRegisterName name then error "reserved-name" tsp.s tsp.e
    pure (.assign ⟨start, e⟩ name tsp value isExtern)
  | none => do
    if isExtern then error "invalid-assignment" start afterEq
    pure (.dotAssign ⟨start, e⟩ value)

/-- `quoted_string` -/
def quotedString : P SChunk := do
  skipWs
  let start ← getPos
  skipWs
  let c ← getCur
  match c.rest with
  | q :: _ =>
    if !(q == '\'' || q == '"' || q == '/') then failP else do
    setCur (advance c 1)
    let rec body : Nat → List Nat → P (List Nat)
      | 0, acc => pure acc
      | k + 1, acc => do
        let c ← getCur
        match c.rest with
        | [] => pure acc
        | ch :: _ => if ch == q then pure acc else do
          let v ← stringChar
          body k (acc ++ v)
    let value ← body (c.rest.length + 1) []
    let c2 ← getCur
    if c2.rest.isEmpty then critical "unterminated-string" start c2.pos
    else do
      setCur (advance c2 1)
      let e ← getPos
      pure (.quoted ⟨start, e⟩ (String.ofList [q]) value)
  | [] => failP

/-- `angle_bracketed_char` -/
def angleBracketedChar (fuel : Nat) : P SChunk := do
  let start ← getPos
  let _ ← lit "<"
  let e ← expression fuel []
  let _ ← lit ">"
  let stop ← getPos
  pure (.angle ⟨start, stop⟩ e)

/-- `long_string` -/
def longString (fuel : Nat) : P Operand := do
  skipWs
  let start ← getPos
  let first ← orElse quotedString (angleBracketedChar fuel)
  let rec more : Nat → List SChunk → P (List SChunk)
    | 0, acc => pure acc
    | k + 1, acc => do
      match ← maybe (orElse quotedString (angleBracketedChar fuel)) with
      | some c => more k (acc ++ [c])
      | none => pure acc
  let chunks ← more (fuel + 1) [first]
  let e ← getPos
  pure (.str ⟨start, e⟩ chunks)

/-- the operand type `parse_insn_operand` selects: `true` = string -/
def operandIsString (insnName : String) (idx : Nat) : P Bool := do
  let info := match cmdInfo insnName with
    | some i => some i
    | none => cmdInfo ("." ++ insnName)
  let isMeta := insnName.startsWith "." || (match info with | some i => i.isMeta | none => false)
  if !isMeta then pure false
  else
    match info with
    | some i =>
      if i.isMeta && !i.hints.isEmpty then
        let h := i.hints.getD (min idx (i.hints.length - 1)) "int"
        pure (h == "str")
      else do
        let c ← getCur
        let c' := skipWsCur (c.rest.length + 1) c
        pure (match c'.rest.head? with | some q => q == '\'' || q == '"' || q == '/' | none => false)
    | none => do
      let c ← getCur
      let c' := skipWsCur (c.rest.length + 1) c
      pure (match c'.rest.head? with | some q => q == '\'' || q == '"' || q == '/' | none => false)

/-- `instruction_name`: `\.?[a-z_][a-z_0-9]*` -/
def instructionName : P String := do
  skipWs
  let c ← getCur
  let (dot, rest) := match c.rest with
    | '.' :: r => (true, r)
    | r => (false, r)
  match rest with
  | ch :: _ =>
    if isAlpha ch || ch == '_' then
      let run := rest.takeWhile (fun x => isAlpha x || isDigit x || x == '_')
      let n := run.length + (if dot then 1 else 0)
      do
        setCur (advance c n)
        pure (String.ofList (c.rest.take n))
    else failP
  | [] => failP

mutual
  /-- `parse_insn_operand` -/
  partial def parseInsnOperand (fuel : Nat) (insnName : String) (idx : Nat) : P Operand := do
    if ← operandIsString insnName idx then longString fuel
    else do
      let e ← expression fuel []
      pure (.expr e)

  /-- `instruction` -/
  partial def instructionP : Nat → P Stmt
    | 0 => failP
    | fuel + 1 => do
      let start ← getPos
      let name ← instructionName
      let afterName ← getCur
      if isRegisterName name then warning "suspicious-name" start afterName.pos
      let nameSp : Span := ⟨start, afterName.pos⟩
      let builtin := isBuiltin name
      if builtin then
        if (← lookahead (lit ",")).isSome then do
          skipWs
          let bc ← getPos
          let _ ← lit ","
          let ac ← getPos
          critical "invalid-insn" bc ac
      else if !name.startsWith "." then
        -- potentially an implicit `.word`
        let pat : P Unit := orElse (do let _ ← lit ","; pure ()) (do
          notP prefixOperator
          notP caretParen
          let _ ← infixOperator
          pure ())
        if (← maybe pat).isSome then failP
      let info := cmdInfo name
      -- literal string operand (`.error`, `.title`, …)
      if (match info with | some i => i.isMeta && i.literalString | none => false) then do
        let c ← getCur
        let line := c.rest.takeWhile (· != '\n')
        -- `.strip()`
        let stripped := (line.dropWhile isSpace).reverse.dropWhile isSpace |>.reverse
        if stripped.isEmpty then do
          let e ← getPos
          pure (.insn ⟨start, e⟩ name nameSp [])
        else do
          skipWs
          let b ← getPos
          let c2 ← getCur
          setCur (advance c2 stripped.length)
          let e ← getPos
          pure (.insn ⟨start, e⟩ name nameSp [.str ⟨b, e⟩ [.quoted ⟨b, e⟩ "" (stripped.map Char.toNat)]])
      else
      if (← lookahead (lit "}")).isSome then do
        let e ← getPos
        pure (.insn ⟨start, e⟩ name nameSp [])
      else do
      let c0 ← getCur
      let mut goOn := true
      if newlineAhead c0 then
        if (match info with | some i => decide (i.minOps > 0) | none => false) then
          warning "unexpected-newline" start afterName.pos
        else
          goOn := false
      if !goOn then
        let e ← getPos
        pure (.insn ⟨start, e⟩ name nameSp [])
      else do
      -- several instructions on one line
      let nextName ← lookahead (do let n ← instructionName; notP (lit ":"); pure n)
      let takesNone := match info with | some i => i.maxOps == some 0 | none => false
      let mut early := false
      if builtin && takesNone then
        match nextName with
        | some n =>
          if isBuiltin n then
            let c ← getCur
            -- look at what follows the next name
            match (do let _ ← instructionName; lookahead (orElse (lit ",") (orElse infixOperator postfixOperator))) c #[] with
            | (.ok none _, _) => early := true
            | _ => pure ()
        | none => pure ()
      if early then
        warning "missing-newline" start afterName.pos
        let e ← getPos
        pure (.insn ⟨start, e⟩ name nameSp [])
      else do
      match ← maybe (parseInsnOperand fuel name 0) with
      | some first => do
        (match afterName.rest.head? with
         | some ch => if !isSpace ch then do
             let here ← getPos
             error "missing-whitespace" afterName.pos here
           else pure ()
         | none => pure ())
        let rec more : Nat → List Operand → Nat → P (List Operand)
          | 0, acc, _ => pure acc
          | k + 1, acc, beforeComma => do
            match ← maybe (lit ",") with
            | none => pure acc
            | some _ => do
              let afterComma ← getPos
              skipWs
              match ← maybe (parseInsnOperand fuel name acc.length) with
              | some o => do
                let bc ← getPos
                more k (acc ++ [o]) bc
              | none => critical "invalid-operand" beforeComma afterComma
        let bc0 ← getPos
        let ops ← more (fuel + 1) [first] bc0
        let ops ←
          match ← maybe (lit "{") with
          | some _ => do
            let blk ← codeP fuel true
            pure (ops ++ [blk])
          | none => pure ops
        let c ← getCur
        (match c.rest.head? with
         | some ch => if !isSpace ch && ch != ';' then error "missing-whitespace" c.pos c.pos else pure ()
         | none => pure ())
        let e ← getPos
        pure (.insn ⟨start, e⟩ name nameSp ops)
      | none => do
        if !afterName.rest.isEmpty then
          skipWs
          let here ← getPos
          warning "missing-newline" here here
        let e ← getPos
        pure (.insn ⟨start, e⟩ name nameSp [])

  /-- `word_list` -/
  partial def wordListP (fuel : Nat) : P Stmt := do
    skipWs
    let start ← getPos
    let first ← expression fuel []
    let rec more : Nat → List Expr → P (List Expr)
      | 0, acc => pure acc
      | k + 1, acc => do
        let c ← getCur
        let bc := (skipWsCur (c.rest.length + 1) c).pos
        match ← maybe (lit ",") with
        | none => pure acc
        | some _ => do
          let ac ← getPos
          skipWs
          match ← maybe (expression fuel []) with
          | some w => more k (acc ++ [w])
          | none => critical "invalid-operand" bc ac
    let ws ← more (fuel + 1) [first]
    let c ← getCur
    (match c.rest.head? with
     | some ch =>
       if !isSpace ch && ch != ';' then error "missing-whitespace" c.pos c.pos
       else if !(newlineAhead c || atEofStrict c) then warning "missing-newline" c.pos c.pos
       else pure ()
     | none => pure ())
    let e ← getPos
    pure (.words ⟨start, e⟩ ws)
  where
    atEofStrict (c : Cur) : Bool := (skipWsCur (c.rest.length + 1) c).rest.isEmpty

  /-- `code` -/
  partial def codeP (fuel : Nat) (inBlock : Bool) : P Operand := do
    let rec loop : Nat → Nat → List Stmt → P (Nat × List Stmt)
      | 0, st, acc => pure (st, acc)
      | k + 1, st, acc => do
        let c ← getCur
        if atEof c then pure (st, acc) else do
        skipWs
        let st' ← getPos
        let closing ← if inBlock then maybe (lit "}") else pure none
        if closing.isSome then pure (st', acc)
        else do
          let stmt ← match ← maybe (orElse labelP (orElse (assignmentP fuel) (orElse (instructionP fuel) (wordListP fuel)))) with
            | some s => pure s
            | none => critical "invalid-insn" st' st'
          let isEnd := match stmt with
            | .insn _ n _ _ => lowerS n == "end" || lowerS n == ".end"
            | _ => false
          if !inBlock && isEnd then pure (st', acc ++ [stmt])
          else loop k st' (acc ++ [stmt])
    let s0 ← getPos
    let (st, stmts) ← loop (fuel + 1) s0 []
    let e ← getPos
    pure (.block ⟨st, e⟩ stmts)
end

/-- result of parsing a whole file -/
structure ParseResult where
  body : Option (List Stmt)     -- `none` = aborted by a critical report
  diags : List Diag

/-- `parser.parse(filename, text)` -/
def parseText (text : String) : ParseResult :=
  let cs := text.toList
  match codeP (cs.length + 8) false ⟨0, cs⟩ #[] with
  | (.ok (.block _ stmts) _, l) => ⟨some stmts, l.toList⟩
  | (_, l) => ⟨none, l.toList⟩

end Pdpy11.Model.Parse
