import Pdpy11.Model.Syntax
import Pdpy11.Model.Parse
import Pdpy11.Gen.Registers
/-
Model of the syntactic case analysis of `insns.py`: `try_as_register`,
`try_accumulator_from_symbol`, `hoist`, the 15-way cascade of
`RegisterModeOperandStub.encode`, and `fixup_label` of `OffsetOperandStub`.
Pure functions on the immutable syntax tree.
-/
namespace Pdpy11.Model.Classify
open Pdpy11.Model.Syntax Pdpy11.Model.Parse

/-- a register operand: by name, or `%expr` -/
inductive RegE
  | named (n : Nat)
  | pct (e : Expr)
deriving Repr, Inhabited

def registerNumber (name : String) : Option Nat :=
  (Gen.insnRegisterNames.find? (fun p => p.1 == lowerS name)).map (·.2)

/-- `try_as_register` -/
def tryAsRegister : Expr → Option RegE
  | .sym _ name isLabel => if isLabel then none else (registerNumber name).map RegE.named
  | .pre _ "register" e => some (.pct e)
  | _ => none

/-- `try_accumulator_from_symbol` -/
def tryAccumulator : Expr → Option Nat
  | .sym _ name _ =>
    match (lowerS name).toList with
    | ['a', 'c', d] => if '0' ≤ d && d ≤ '5' then some (d.toNat - 48) else none
    | _ => none
  | _ => none

/-- `hoist`: `a+b(c)` is parsed as `a+(b(c))`; registers are hoisted to the top -/
def hoist : Expr → Expr
  | .infix sp f l r =>
    if f == "call" then .infix sp f l r
    else
      let r' := hoist r
      match r' with
      | .infix _ "call" cl cr =>
        if (tryAsRegister cr).isSome then
          .infix sp "call" (.infix ⟨sp.s, cl.span.e⟩ f l cl) cr
        else .infix sp f l r'
      | _ => .infix sp f l r'
  | .pre sp f e =>
    let e' := hoist e
    match e' with
    | .infix _ "call" cl cr =>
      if (tryAsRegister cr).isSome then
        .infix sp "call" (.pre ⟨sp.s, cl.span.e⟩ f cl) cr
      else .pre sp f e'
    | _ => .pre sp f e'
  | e => e

/-- the addressing form selected by `RegisterModeOperandStub.encode` -/
inductive Shape
  | reg (r : RegE)
  | regDef (r : RegE) (legacy : Bool)
  | autoInc (r : RegE) | autoIncDef (r : RegE) | autoDec (r : RegE) | autoDecDef (r : RegE)
  | index (x : Expr) (r : RegE) | indexDef (x : Expr) (r : RegE) | indexDef0 (r : RegE)
  | imm (e : Expr) | abs (e : Expr) | relDef (e : Expr) | rel (e : Expr)
deriving Repr, Inhabited

/-- `(reg)` with round parentheses -/
def parenReg : Expr → Option RegE
  | .paren _ "(" e => tryAsRegister e
  | _ => none

/-- the cascade of `RegisterModeOperandStub.encode` after hoisting -/
def classifyRM (operand : Expr) : Shape :=
  let op := hoist operand
  match tryAsRegister op with
  | some r => .reg r
  | none =>
  match parenReg op with
  | some r => .regDef r false
  | none =>
  match op with
  | .pre _ "deferred" inner =>
    (match tryAsRegister inner with
    | some r => .regDef r true
    | none =>
    match inner with
    | .post _ "postadd" p =>
      (match parenReg p with
      | some r => .autoIncDef r
      | none => .relDef inner)
    | .pre _ "neg" p =>
      (match parenReg p with
      | some r => .autoDecDef r
      | none => .relDef inner)
    | .pre _ "immediate" e => .abs e
    | _ =>
      match parenReg inner with
      | some r => .indexDef0 r
      | none => .relDef inner)
  | .post _ "postadd" p =>
    (match parenReg p with
    | some r => .autoInc r
    | none => .rel op)
  | .pre _ "neg" p =>
    (match parenReg p with
    | some r => .autoDec r
    | none => .rel op)
  | .infix _ "call" l r =>
    (match tryAsRegister r with
    | some reg =>
      match l with
      | .pre _ "deferred" e => .indexDef e reg
      | _ => .index l reg
    | none => .rel op)
  | .pre _ "immediate" e => .imm e
  | _ => .rel op

/-- `fixup_label`: the first octal-looking number (before any symbol or `.`) of a branch
    operand without `(` or `:` in its text becomes a local-label reference.
    Returns the rewritten tree, whether the fix-up is still active, and whether it fired. -/
def fixupLabel : Expr → Bool → Expr × Bool × Bool
  | .infix sp f l r, active =>
    let (l', a1, f1) := fixupLabel l active
    let (r', a2, f2) := fixupLabel r a1
    (.infix sp f l' r', a2, f1 || f2)
  | .pre sp f e, active =>
    let (e', a, fd) := fixupLabel e active
    (.pre sp f e', a, fd)
  | .post sp f e, active =>
    let (e', a, fd) := fixupLabel e active
    (.post sp f e', a, fd)
  | .num sp repr v validLabel ib, active =>
    if validLabel && active then (.sym sp repr true, false, true) else (.num sp repr v validLabel ib, active, false)
  | .sym sp n l, _ => (.sym sp n l, false, false)
  | .dot sp, _ => (.dot sp, false, false)
  | e, active => (e, active, false)

/-- the operand expression `OffsetOperandStub.encode` resolves, and whether `label-fixup`
    is warned; `text` is the source text of the operand -/
def offsetOperand (operand : Expr) (text : List Char) : Expr × Bool :=
  match operand with
  | .num sp repr _ true _ => (.sym sp repr true, false)
  | _ =>
    if !text.contains '(' && !text.contains ':' then
      let (e, _, fired) := fixupLabel operand true
      (e, fired)
    else (operand, false)

/-- number of extension words an operand form contributes -/
def Shape.extWords : Shape → Nat
  | .index .. | .indexDef .. | .indexDef0 .. | .imm .. | .abs .. | .relDef .. | .rel .. => 1
  | _ => 0

end Pdpy11.Model.Classify
