import Pdpy11.Model.State
/-
Model of `_cli.main_cli` after argument parsing, in the absence of OS failures: the
compile block and the emit block under `handle_reports`, `FilterHandler`, then `-o`,
`--implicit-bin` and `--lst`.  The reports of a run are given as the list of their
severities in emission order.
-/
namespace Pdpy11.Model.Cli
open Pdpy11.Model.State

/-- `with handle_reports(h): <emit the reports in order>` -/
def blockComp (events : List Sev) : Comp :=
  .handler 0 (events.foldr (fun e acc => .seq (.report e) acc) .ret)

/-- does the block raise (`UnrecoverableError`), i.e. does `main_cli` take `sys.exit(1)`? -/
def blockFails (events : List Sev) : Bool := (run (blockComp events) St.init []).1.isSome

/-- `FilterHandler.__call__`: warnings may be dropped, errors never; `keep` is the decision
    the `-W` options induce for the k-th warning -/
def filterEvents (keep : Nat → Bool) : Nat → List Sev → List Sev
  | _, [] => []
  | k, .warning :: r => if keep k then .warning :: filterEvents keep (k + 1) r else filterEvents keep (k + 1) r
  | k, e :: r => e :: filterEvents keep k r

inductive Write
  | emitted (i : Nat)      -- the i-th `make_*` file
  | outfile                -- `-o` / `--implicit-bin`
  | listing
deriving Repr, DecidableEq

structure Options where
  outfile : Bool           -- `-o` given
  implicitBin : Bool
  lst : Bool
deriving Repr, DecidableEq

/-- exit status and the ordered file writes of one run: `events` are the reports of the compile
    block, `nEmitted` the number of `make_*` directives -/
def main (opts : Options) (events : List Sev) (nEmitted : Nat) : Nat × List Write :=
  if blockFails events then (1, [])
  else
    let emitted := (List.range nEmitted).map Write.emitted
    let hasOut := opts.outfile || (opts.implicitBin && nEmitted == 0)
    let out := if hasOut then [Write.outfile] else []
    let lst := if opts.lst && (hasOut || nEmitted > 0) then [Write.listing] else []
    (0, emitted ++ out ++ lst)

end Pdpy11.Model.Cli
