/-
Model of the operator-precedence loop of `parser.expression` for chains of infix
operators: operands and operators arrive left to right; before an operator is pushed,
every stacked operator that binds at least as tightly is reduced (the code's rule
`(prec, left_assoc) > (top.prec, False)`: a lower number binds tighter; an operator of equal
precedence is reduced first iff the incoming one is left-associative).  Total.
-/
namespace Pdpy11.Model.Shunt

structure Op where
  /-- position of the operator in `Gen.operators` (identity only) -/
  id : Nat
  prec : Nat
  left : Bool
deriving Repr, DecidableEq

inductive Tree
  | atom (n : Nat)
  | node (o : Op) (l r : Tree)
deriving Repr, DecidableEq, Inhabited

inductive Tok | a (n : Nat) | o (o : Op)
deriving Repr, DecidableEq

/-- in-order token list -/
def flat : Tree → List Tok
  | .atom n => [.a n]
  | .node o l r => flat l ++ [.o o] ++ flat r

/-- reduce stacked operators while `(p, left) > (top.prec, False)` -/
def popWhile (p : Nat) (left : Bool) : Tree → List (Tree × Op) → Tree × List (Tree × Op)
  | e, [] => (e, [])
  | e, (l, o) :: rest =>
    if o.prec < p ∨ (o.prec = p ∧ left = true) then popWhile p left (.node o l e) rest else (e, (l, o) :: rest)

def popAll : Tree → List (Tree × Op) → Tree
  | e, [] => e
  | e, (l, o) :: rest => popAll (.node o l e) rest

/-- state: the operand read last, the pending (left operand, operator) pairs (top first), the
remaining (operator, operand) pairs -/
def shuntAux : Tree → List (Tree × Op) → List (Op × Nat) → Tree
  | e, st, [] => popAll e st
  | e, st, (o, n) :: rest =>
    shuntAux (.atom n) (((popWhile o.prec o.left e st).1, o) :: (popWhile o.prec o.left e st).2) rest

def shunt (n : Nat) (rest : List (Op × Nat)) : Tree := shuntAux (.atom n) [] rest

/-- fully parenthesised rendering (operator ids) for the correspondence check -/
def render : Tree → String
  | .atom n => toString n
  | .node o l r => "(" ++ render l ++ " " ++ toString o.id ++ " " ++ render r ++ ")"

end Pdpy11.Model.Shunt
