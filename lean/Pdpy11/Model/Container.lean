import Pdpy11.Model.Basic
import Pdpy11.Gen.Wav
/-
Model of `formats.py` and `bk_wav.py`: raw / bin / BK-0010 WAV containers.
-/
namespace Pdpy11.Model.Container
open Pdpy11.Model Pdpy11.Gen

def le32 (n : Nat) : Bytes := [n % 256, n / 256 % 256, n / 65536 % 256, n / 16777216 % 256]

/-- `raw` -/
def raw (_base : Nat) (code : Bytes) : Bytes := code

/-- `bin_`: `struct.pack("<HH", base, len(code)) + code`; `none` = `struct.error` -/
def bin (base : Nat) (code : Bytes) : Option Bytes :=
  if base < 65536 ∧ code.length < 65536 then some (le16 base ++ le16 code.length ++ code) else none

/-- sample bytes of a two-level run-length shape -/
def expandRuns (runs : List (Nat × Nat)) : Bytes := runs.flatMap (fun r => List.replicate r.2 r.1)
def expandRle (r : Rle) : Bytes := r.flatMap (fun blk => (List.replicate blk.2 (expandRuns blk.1)).flatten)

/-- `encode_data_bits`: least significant bit first -/
def byteBits (env : WavEnvG) (byte : Nat) : Bytes :=
  (List.range 8).flatMap (fun i => if byte / 2 ^ i % 2 = 1 then expandRle env.one else expandRle env.zero)
def dataBits (env : WavEnvG) (data : Bytes) : Bytes := data.flatMap (byteBits env)

/-- `bk_wav.checksum`: 16-bit sum with end-around carry, in closed form -/
def checksum (code : Bytes) : Nat :=
  let t := sum code
  if t = 0 then 0 else (t - 1) % 65535 + 1

/-- `"16s"` of `struct.pack`: exactly 16 bytes, zero padded -/
def name16 (name : Bytes) : Bytes := (name ++ List.replicate 16 0).take 16

def ascii (s : String) : Bytes := s.toList.map Char.toNat

/-- `make_wav_file` -/
def makeWavFile (data : Bytes) (rate : Nat) : Bytes :=
  ascii "RIFF" ++ le32 (36 + data.length) ++ ascii "WAVE" ++ ascii "fmt " ++ le32 16 ++ le16 1 ++ le16 1 ++
  le32 rate ++ le32 rate ++ le16 1 ++ le16 8 ++ ascii "data" ++ le32 data.length ++ data

/-- the tape header: base, length, 16-byte name -/
def tapeHeader (base : Nat) (code : Bytes) (name : Bytes) : Bytes := le16 base ++ le16 code.length ++ name16 name

/-- the pulse train of `encode_as_wav` -/
def pulseTrain (env : WavEnvG) (turbo : Bool) (base : Nat) (code : Bytes) (name : Bytes) : Bytes :=
  expandRle env.sync ++ dataBits env (tapeHeader base code name) ++ expandRle env.pause ++ dataBits env code ++
  (if turbo then expandRle env.pause else []) ++ dataBits env (le16 (checksum code)) ++ expandRle env.eof

/-- `encode_as_wav`; `none` = `struct.error` (base or length ≥ 2¹⁶) -/
def encodeAsWav (turbo : Bool) (base : Nat) (code : Bytes) (name : Bytes) : Option Bytes :=
  let env := if turbo then wavTurboEnv else wavEnv
  if base < 65536 ∧ code.length < 65536 then some (makeWavFile (pulseTrain env turbo base code name) env.sampleRate) else none

/-! ### the name in the tape header (`add_emitted_bk_wav`) -/

def lowerChars (cs : List Char) : List Char := cs.map Char.toLower
def dotWav : List Char := ['.', 'w', 'a', 'v']
def dotMac : List Char := ['.', 'm', 'a', 'c']

/-- `s.lower().endswith(suffix)` on characters -/
def endsWithCI (cs suffix : List Char) : Bool := (lowerChars cs).reverse.take suffix.length == suffix.reverse

/-- the output path when the directive has no operand: the source file name, `.mac` replaced by `.wav` -/
def defaultWavPath (source : List Char) : List Char :=
  (if endsWithCI source dotMac then source.take (source.length - 4) else source) ++ dotWav

/-- `write_path.split("/")[-1]` -/
def baseName (path : List Char) : List Char := (path.reverse.takeWhile (· ≠ '/')).reverse

/-- the tape name: an explicit one is taken as written; otherwise the file name of the output
path without a final `.wav` (any letter case) -/
def tapeName (explicit : Option (List Char)) (writePath : List Char) : List Char :=
  match explicit with
  | some n => n
  | none =>
    let b := baseName writePath
    if endsWithCI b dotWav then b.take (b.length - 4) else b

end Pdpy11.Model.Container
