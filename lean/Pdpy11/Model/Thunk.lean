/-
Model of `deferred.Deferred` (memoised thunks) next to `deferred.Promise`, as the lazy engine
uses them while it tries values speculatively (`with try_compute:`):

  * a promise is unsettled or holds a number; `settle` fills it and bumps `Readiness.epoch`;
  * a thunk has a body (`fn`), and remembers either its value (`settled`/`value`) or the
    epoch in which a speculative attempt last gave up (`not_ready_epoch`);
  * `Deferred._wait` under `try_compute`: a remembered value is returned; a thunk that gave up
    in the *current* epoch gives up again without running its body; otherwise the body runs,
    a value is remembered, a give-up is remembered together with the epoch.

`evalPlain` is the engine without any memory (the meaning); `evalMemo` is the code.  Bodies are
sums of numbers, promises and other thunks (what `LinearPolynomial` and operator nodes reduce
to for this purpose).  Total (fuel), core-only.
-/
namespace Pdpy11.Model.Thunk

inductive E
  | lit (k : Int)
  | prom (i : Nat)
  | thunk (j : Nat)
  | add (a b : E)
deriving Repr, DecidableEq, Inhabited

structure Th where
  fn : E
  value : Option Int := none
  nrEpoch : Option Nat := none
deriving Repr, DecidableEq, Inhabited

structure Store where
  promises : List (Option Int)
  thunks : List Th
  epoch : Nat
deriving Repr, DecidableEq, Inhabited

inductive Res
  | value (k : Int)
  | notReady
  | fuel
deriving Repr, DecidableEq, Inhabited

def promVal (s : Store) (i : Nat) : Option Int := (s.promises[i]?).join

/-- the meaning: no memory at all -/
def evalPlain (s : Store) : Nat → E → Res
  | 0, _ => .fuel
  | _ + 1, .lit k => .value k
  | _ + 1, .prom i => match promVal s i with
    | some k => .value k
    | none => .notReady
  | f + 1, .thunk j => match s.thunks[j]? with
    | some t => evalPlain s f t.fn
    | none => .notReady
  | f + 1, .add a b => match evalPlain s f a with
    | .value x => (match evalPlain s f b with
      | .value y => .value (x + y)
      | r => r)
    | r => r

def setThunk (s : Store) (j : Nat) (t : Th) : Store := { s with thunks := s.thunks.set j t }

/-- the code: `Deferred._wait` under `try_compute` with its two memories -/
def evalMemo (s : Store) : Nat → E → Res × Store
  | 0, _ => (.fuel, s)
  | _ + 1, .lit k => (.value k, s)
  | _ + 1, .prom i => match promVal s i with
    | some k => (.value k, s)
    | none => (.notReady, s)
  | f + 1, .thunk j => match s.thunks[j]? with
    | none => (.notReady, s)
    | some t =>
      match t.value with
      | some v => (.value v, s)
      | none =>
        if t.nrEpoch = some s.epoch then (.notReady, s)
        else
          match evalMemo s f t.fn with
          | (.value v, s1) => (.value v, setThunk s1 j { (s1.thunks[j]?).getD t with value := some v })
          | (.notReady, s1) => (.notReady, setThunk s1 j { (s1.thunks[j]?).getD t with nrEpoch := some s1.epoch })
          | (.fuel, s1) => (.fuel, s1)
  | f + 1, .add a b => match evalMemo s f a with
    | (.value x, s1) => (match evalMemo s1 f b with
      | (.value y, s2) => (.value (x + y), s2)
      | r => r)
    | r => r

/-- `Promise.settle` (only an unsettled promise may be settled) followed by `readiness_changed()` -/
def settle (s : Store) (i : Nat) (k : Int) : Store :=
  { s with promises := s.promises.set i (some k), epoch := s.epoch + 1 }

end Pdpy11.Model.Thunk
