/-
Values affine in the link base: `coef · LA + const`.  This is the model of what
`deferred.LinearPolynomial` is used for in the assembler (every address is the base plus an
offset; the base cancels in differences of addresses).  Total functions, used by the
executable whole-program model (`Model/Asm.lean`) and reasoned about in C09 / C12.
-/
namespace Pdpy11.Model

structure Lin where
  coef : Int
  const : Int
deriving Repr, DecidableEq, Inhabited

namespace Lin

def ofInt (v : Int) : Lin := ⟨0, v⟩
/-- an address: the base plus an offset -/
def addr (offset : Int) : Lin := ⟨1, offset⟩

def add (a b : Lin) : Lin := ⟨a.coef + b.coef, a.const + b.const⟩
def sub (a b : Lin) : Lin := ⟨a.coef - b.coef, a.const - b.const⟩
def neg (a : Lin) : Lin := ⟨-a.coef, -a.const⟩
/-- multiplication by a known integer (`LinearPolynomial.__mul__` / `__rmul__`) -/
def scale (a : Lin) (k : Int) : Lin := ⟨a.coef * k, a.const * k⟩

/-- the integer the value denotes once the base is `b` -/
def valueAt (a : Lin) (b : Int) : Int := a.coef * b + a.const

/-- `wait(x)` when the base may be unknown: defined iff the base is known or cancels -/
def force (base : Option Int) (a : Lin) : Option Int :=
  if a.coef = 0 then some a.const else base.map (a.valueAt ·)

end Lin
end Pdpy11.Model
