import Pdpy11.Model.Basic
/-
Model of `Context.__repr__`: line and column of a position, computed as the
implementation does (count of newlines before the position; distance from the last
newline plus three extra columns per tab).
-/
namespace Pdpy11.Model.LineCol

def countC (c : Nat) (l : List Nat) : Nat := (l.filter (· == c)).length

/-- characters after the last newline of the prefix (`code[rfind("\n", 0, pos) + 1 : pos]`) -/
def lastLine (p : List Nat) : List Nat := (p.reverse.takeWhile (· != 10)).reverse

/-- `(line_no + 1, col_no + 1)` of `Context.__repr__` for `pos` in `code` -/
def lineCol (code : List Nat) (pos : Nat) : Nat × Nat :=
  let p := code.take pos
  (countC 10 p + 1, (lastLine p).length + countC 9 (lastLine p) * 3 + 1)

end Pdpy11.Model.LineCol
