import Pdpy11.Model.Insn
/-
Model of `insns.init()`: octal pattern → 16-symbol template, operand stub inference,
and the numeric layout (base opcode, field shifts and widths) a template denotes.
-/
namespace Pdpy11.Model.Pattern
open Pdpy11.Model Pdpy11.Model.Insn Pdpy11.Gen

def isDigit (c : Char) : Bool := '0' ≤ c ∧ c ≤ '9'

/-- `bin(int(char, 8))[2:].rjust(3, "0")`; `none` for the digits 8 and 9 (`ValueError`) -/
def octDigitBits (c : Char) : Option (List Char) :=
  match c with
  | '0' => some ['0', '0', '0'] | '1' => some ['0', '0', '1'] | '2' => some ['0', '1', '0'] | '3' => some ['0', '1', '1']
  | '4' => some ['1', '0', '0'] | '5' => some ['1', '0', '1'] | '6' => some ['1', '1', '0'] | '7' => some ['1', '1', '1']
  | _ => none

/-- the loop of `init()` that converts the 8-base pattern to the binary pattern -/
def expandLoop : List Char → Nat → Bool → Option (List Char)
  | [], _, _ => some []
  | c :: rest, i, isBinary =>
    if c = '[' then expandLoop rest (i + 1) true
    else if c = ']' then expandLoop rest (i + 1) false
    else if !isDigit c then (expandLoop rest (i + 1) isBinary).map (fun t => List.replicate (if isBinary then 1 else 3) c ++ t)
    else if isBinary || i = 0 then (expandLoop rest (i + 1) isBinary).map (fun t => c :: t)
    else match octDigitBits c with
      | some bits => (expandLoop rest (i + 1) isBinary).map (fun t => bits ++ t)
      | none => none

/-- `opcode_pattern` of `init()`; `none` = a failed assertion / exception at import time -/
def expandRaw (raw : List Char) : Option (List Char) :=
  match expandLoop raw 0 false with
  | some p => if p.length = 16 then some p else none
  | none => none

def count (p : List Char) (c : Char) : Nat := (p.filter (· == c)).length

def down (n : Nat) : List Nat := (List.range n).reverse

/-- operand stub inference of `init()` -/
def inferStubs (p : List Char) : Option (List StubG) := do
  let sStubs ← match count p 's' with
    | 0 => some []
    | 3 => some [⟨.register, 's', [2, 1, 0], false⟩]
    | 6 => some [⟨.registerMode, 's', [5, 4, 3, 2, 1, 0], false⟩]
    | 12 => some [⟨.registerMode, 's', [5, 4, 3, 2, 1, 0], false⟩, ⟨.registerMode, 's', [11, 10, 9, 8, 7, 6], false⟩]
    | _ => none
  let fsStubs ← match count p 'S' with
    | 0 => some []
    | 2 => some [⟨.fp11acc, 'S', [1, 0], false⟩]
    | 6 => some [⟨.fp11rm, 'S', [5, 4, 3, 2, 1, 0], false⟩]
    | 8 => some [⟨.fp11rm, 'S', [7, 6, 5, 4, 3, 2], false⟩, ⟨.fp11acc, 'S', [1, 0], false⟩]
    | _ => none
  let cntD := count p 'd'
  let dStubs ← match cntD with
    | 0 => some []
    | 3 => some [⟨.register, 'd', [2, 1, 0], false⟩]
    | 6 => some [⟨.registerMode, 'd', [5, 4, 3, 2, 1, 0], false⟩]
    | _ => none
  let fdStubs ← match count p 'D' with
    | 0 => some []
    | 2 => some [⟨.fp11acc, 'D', [1, 0], false⟩]
    | 6 => some [⟨.fp11rm, 'D', [5, 4, 3, 2, 1, 0], false⟩]
    | _ => none
  let ops := sStubs ++ fsStubs ++ dStubs ++ fdStubs
  let hasO := p.contains 'o' || p.contains 'O'
  let ops :=
    if hasO then
      let unsigned := p.contains 'O'
      let ch := if unsigned then 'O' else 'o'
      let stub : StubG := ⟨.offset, ch, down (count p ch), unsigned⟩
      if cntD = 0 then ops ++ [stub] else stub :: ops
    else ops
  let hasI := p.contains 'i' || p.contains 'I'
  if hasI && hasO then none
  else
    let ops :=
      if hasI then
        let unsigned := p.contains 'I'
        let ch := if unsigned then 'I' else 'i'
        (⟨.immediate, ch, down (count p ch), unsigned⟩ : StubG) :: ops
      else ops
    if p.all (fun c => "01234567sSdDoOiI".toList.contains c) then some ops else none

/-- one operand field of the opcode word -/
structure Slot where
  cls : StubCls
  unsigned : Bool
  shift : Nat
  width : Nat
deriving Repr, DecidableEq

/-- where a stub's bits land: `some (shift, width)` iff bit `i` of the value goes to bit
    `shift + i` of the word for every `i < width` (a contiguous field, LSB last in the pattern) -/
def stubSlot (p : List Char) (s : StubG) : Option Slot :=
  let idx := indexesOfChar p s.ch
  match s.bits.mapM (fun index => idx[index]?) with
  | none => none
  | some [] => none
  | some (p0 :: ps) =>
    if p0 < 16 ∧ ((p0 :: ps).zipIdx.all (fun (pos, i) => pos + i == p0)) then
      some ⟨s.cls, s.unsigned, 15 - p0, s.bits.length⟩
    else none

/-- the pattern with every field letter read as 0 -/
def basePattern (p : List Char) : List Char := p.map (fun c => if c = '1' then '1' else '0')

/-- base opcode and operand fields (in operand order) of a table entry -/
def layoutOf (e : InsnG) : Option (Nat × List Slot) := do
  let slots ← e.stubs.mapM (stubSlot e.pattern)
  let base ← binValue (basePattern e.pattern)
  if e.pattern.length = 16 then some (base, slots) else none

end Pdpy11.Model.Pattern
