import Pdpy11.Model.Scope
import Pdpy11.Model.Ops
/-
Model of lazy symbol evaluation: a table of definitions `name = expression` (in the order
in which the compiler met them), and the value of an expression as the recursive
evaluation through the table (`Deferred` in `deferred.py`, `Symbol.resolve`,
`compile_assignment`).  The table lookup is `Scope.lookup`, the operators are `Ops`.
Total and structurally recursive on the fuel (every step — into a sub-expression or
through a reference into a definition — spends one unit), so that running out of fuel
means a definition cycle.
-/
namespace Pdpy11.Model.Defs
open Pdpy11.Model

inductive E where
  | lit (v : Int)
  /-- reference to a (lower-cased, qualified) name -/
  | ref (name : String)
  /-- infix operator by the name of its Python function (`Gen.Operators`) -/
  | bin (op : String) (l r : E)
  | un (op : String) (e : E)
deriving Repr, DecidableEq, Inhabited

abbrev Table := List (String × E)

/-- value and the identifiers of the errors reported on the way (in evaluation order) -/
structure R where
  val : Int
  errs : List String
deriving Repr, DecidableEq

def E.size : E → Nat
  | .lit _ => 1
  | .ref _ => 1
  | .bin _ l r => 1 + l.size + r.size
  | .un _ e => 1 + e.size

/-- `none`: the fuel ran out (a cycle of definitions) -/
def eval (t : Table) : Nat → E → Option R
  | 0, _ => none
  | _ + 1, .lit v => some ⟨v, []⟩
  | f + 1, .ref n =>
    match Scope.lookup t n with
    | none => some ⟨0, ["undefined-symbol"]⟩
    | some e => eval t f e
  | f + 1, .bin op l r =>
    match eval t f l, eval t f r with
    | some a, some b =>
      match Ops.binop op a.val b.val with
      | some (v, er) => some ⟨v, a.errs ++ b.errs ++ er.toList⟩
      | none => some ⟨0, a.errs ++ b.errs ++ ["unknown-operator"]⟩
    | _, _ => none
  | f + 1, .un op e =>
    match eval t f e with
    | some a =>
      match Ops.unop op a.val with
      | some (v, er) => some ⟨v, a.errs ++ er.toList⟩
      | none => some ⟨0, a.errs ++ ["unknown-operator"]⟩
    | none => none

/-- fuel that suffices for every acyclic evaluation: a path of the evaluation visits every
node of `e` and of every definition body at most once -/
def enoughFuel (t : Table) (e : E) : Nat := 1 + e.size + (t.map (fun d => d.2.size)).sum

/-- the compiler's table: definitions entered one by one, a second definition of a name refused
(`none`) -/
def defineAll : Table → List (String × E) → Option Table
  | t, [] => some t
  | t, (n, e) :: rest =>
    match Scope.define t n e with
    | none => none
    | some t' => defineAll t' rest

/-- the emitted values of a program: its definitions and the expressions it uses -/
def image (defs : List (String × E)) (uses : List E) (fuel : Nat) : Option (List (Option R)) :=
  match defineAll [] defs with
  | none => none
  | some t => some (uses.map (eval t fuel))

end Pdpy11.Model.Defs
