/-
Model of `devices.resolve_relative_path` for ordinary (non-device) POSIX paths:
`os.path.normpath(os.path.join(os.path.dirname(base), rel))` — the identity under which the
compiler counts how often a file was compiled (`.once`), opens included and inserted files and
writes outputs.  Total, core-only.
-/
namespace Pdpy11.Model.Path

/-- one step of `normpath` over the stack of kept components (top first) -/
def step (abs : Bool) (acc : List String) (c : String) : List String :=
  if c = "" ∨ c = "." then acc
  else if c ≠ ".." then c :: acc
  else match acc with
    | [] => if abs then [] else [".."]
    | top :: rest => if top = ".." then ".." :: acc else rest

/-- the components `normpath` keeps -/
def normComps (abs : Bool) (cs : List String) : List String := (cs.foldl (step abs) []).reverse

def startsSlash (p : String) : Bool := p.toList.head? == some '/'

/-- `os.path.normpath` (paths that do not start with exactly two slashes) -/
def normpath (p : String) : String :=
  let abs := startsSlash p
  let body := "/".intercalate (normComps abs (p.splitOn "/"))
  if abs then "/" ++ body else if body = "" then "." else body

/-- `os.path.dirname` -/
def dirname (p : String) : String :=
  let cs := p.splitOn "/"
  let head := "/".intercalate cs.dropLast
  -- everything up to the last slash, trailing slashes of that stripped unless it is all slashes
  if cs.length ≤ 1 then ""
  else if head.toList.all (· == '/') then (if startsSlash p then (if head = "" then "/" else head ++ "/") else head)
  else String.ofList (head.toList.reverse.dropWhile (· == '/')).reverse

/-- `os.path.join` of two parts -/
def join (a b : String) : String :=
  if startsSlash b then b
  else if a = "" ∨ a.toList.getLast? == some '/' then a ++ b
  else a ++ "/" ++ b

def resolve (rel base : String) : String := normpath (join (dirname base) rel)

end Pdpy11.Model.Path
