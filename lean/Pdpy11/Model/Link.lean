import Pdpy11.Model.Lin
import Pdpy11.Model.Insn
/-
Model of how the link base is decided (`Compiler.set_link_address`,
`compile_and_link_files`) and of the location-counter skip (`. = X` once the base is set).
Total functions used by `Model/Asm.lean`.
-/
namespace Pdpy11.Model.Link
open Pdpy11.Model

/-- `.link` / leading `. =` statements in program order: the first one sets the base, every
    later one is an `address-conflict` -/
def setLink {α : Type} (cur : Option α) (new : α) : Option α × Bool :=
  match cur with
  | none => (some new, false)
  | some c => (some c, true)

/-- outcome of evaluating the link expression while the base is still unknown -/
inductive LinkEval
  | value (l : Lin)     -- an affine value
  | needsBase           -- the evaluation had to know the base (or ran into a cycle)
deriving Repr, DecidableEq

/-- the base and the error it reports, if any: default 0o1000; an expression in which the base
    cancels gives its value reduced to 16 bits (or `value-out-of-bounds`); one that depends on
    the base is `recursive-definition` and the base is 0 -/
def decideBase : Option LinkEval → Int × Option String
  | none => (0o1000, none)
  | some .needsBase => (0, some "recursive-definition")
  | some (.value l) =>
    if l.coef = 0 then
      match Insn.getAsInt (some 16) false l.const with
      | .ok v => (v, none)
      | .error e => (0, some e)
    else (0, some "recursive-definition")

/-- `. = new` at address `old`: zero fill of `new − old` bytes, or `value-out-of-bounds` -/
def skipBytes (old new : Int) : Except String (List Nat) :=
  if new < old then .error "value-out-of-bounds" else .ok (List.replicate (new - old).toNat 0)

end Pdpy11.Model.Link
