import Pdpy11.Model.Shunt
/-
The operator-precedence loop of `parser.expression` with the prefix operators that may stand
in front of the first operand: they are pushed on the same operator stack (without a left
operand) before the first operand is read, and are reduced by the same rule
`(prec, left_assoc) > (top.prec, False)` when an infix operator arrives, or at the end.  Total.
-/
namespace Pdpy11.Model.ShuntP
open Pdpy11.Model.Shunt (Op)

inductive PTree
  | atom (n : Nat)
  | pre (o : Op) (t : PTree)
  | node (o : Op) (l r : PTree)
deriving Repr, DecidableEq, Inhabited

inductive Entry
  | bin (l : PTree) (o : Op)
  | un (o : Op)
deriving Repr, DecidableEq

def reduce (e : PTree) : Entry → PTree
  | .bin l o => .node o l e
  | .un o => .pre o e

def entryOp : Entry → Op
  | .bin _ o => o
  | .un o => o

def popWhile (p : Nat) (left : Bool) : PTree → List Entry → PTree × List Entry
  | e, [] => (e, [])
  | e, en :: rest =>
    if (entryOp en).prec < p ∨ ((entryOp en).prec = p ∧ left = true) then popWhile p left (reduce e en) rest else (e, en :: rest)

def popAll : PTree → List Entry → PTree
  | e, [] => e
  | e, en :: rest => popAll (reduce e en) rest

def shuntAux : PTree → List Entry → List (Op × Nat) → PTree
  | e, st, [] => popAll e st
  | e, st, (o, n) :: rest =>
    shuntAux (.atom n) (.bin (popWhile o.prec o.left e st).1 o :: (popWhile o.prec o.left e st).2) rest

/-- prefix operators in reading order, the first operand, the (operator, operand) pairs -/
def shuntP (pre : List Op) (n : Nat) (rest : List (Op × Nat)) : PTree :=
  shuntAux (.atom n) (pre.reverse.map .un) rest

def render : PTree → String
  | .atom n => toString n
  | .pre o t => "(" ++ toString o.id ++ " " ++ render t ++ ")"
  | .node o l r => "(" ++ render l ++ " " ++ toString o.id ++ " " ++ render r ++ ")"

end Pdpy11.Model.ShuntP
