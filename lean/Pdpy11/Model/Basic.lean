/-
Shared helpers of the executable model (core Lean only).
Bytes are `Nat`s below 256, strings are lists of code points, integers are
unbounded `Int` exactly as in Python.
-/
namespace Pdpy11.Model

abbrev Byte := Nat
abbrev Bytes := List Nat
/-- a string as a list of Unicode code points -/
abbrev Str := List Nat

/-- `struct.pack("<H", w)` for `0 ≤ w < 65536` -/
def le16 (w : Nat) : Bytes := [w % 256, w / 256 % 256]

/-- first index of `c` in `t` (Python `str.index` / `list.index` on single elements) -/
def idxOf (t : List Nat) (c : Nat) : Option Nat :=
  match t with
  | [] => none
  | x :: xs => if x = c then some 0 else (idxOf xs c).map (· + 1)

/-- ASCII upper-casing (the model's reading of `str.upper()` on ASCII text) -/
def upperAscii (c : Nat) : Nat := if 97 ≤ c ∧ c ≤ 122 then c - 32 else c

/-- The model's reading of Python's `str.upper()` on one character, as far as membership
in an ASCII table is concerned: besides a–z exactly two further code points upper-case to
an ASCII letter (U+0131 dotless i ↦ I, U+017F long s ↦ S); every other code point either
stays outside ASCII or is unchanged.  Checked exhaustively against the interpreter over all
code points by the C15 correspondence (thorough tier). -/
def upperPy (c : Nat) : Nat :=
  if c = 0x131 then 73 else if c = 0x17F then 83 else upperAscii c

/-- ASCII lower-casing -/
def lowerAscii (c : Nat) : Nat := if 65 ≤ c ∧ c ≤ 90 then c + 32 else c

def sum (l : List Nat) : Nat := l.foldl (· + ·) 0

end Pdpy11.Model
