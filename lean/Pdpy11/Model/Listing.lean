import Pdpy11.Model.Basic
/-
Model of `Compiler.generate_listing` and of the `--lst` path derivation in `_cli.main_cli`.
-/
namespace Pdpy11.Model.Listing
open Pdpy11.Model

/-- one ordinary (`.internalN.`) symbol: the file its compile state belongs to, its name as
    stored, its final value -/
structure Sym where
  file : Str
  name : Str
  value : Int
deriving Repr, DecidableEq

/-- octal digits of a natural number, most significant first (`oct(n)[2:]`) -/
def octDigitsAux : Nat → Nat → List Nat
  | 0, n => [n % 8]
  | f + 1, n => if n < 8 then [n] else octDigitsAux f (n / 8) ++ [n % 8]

def octDigits (n : Nat) : List Nat := octDigitsAux n n

/-- `s.rjust(6, "0")` on digit lists (digit values, not characters) -/
def pad6 (ds : List Nat) : List Nat := List.replicate (6 - ds.length) 0 ++ ds

def digitChar (d : Nat) : Nat := 48 + d

/-- `("-" if value < 0 else "") + oct(abs(value))[2:].rjust(6, "0") + " " + name + "\n"` -/
def line (s : Sym) : Str :=
  (if s.value < 0 then [45] else []) ++ (pad6 (octDigits s.value.natAbs)).map digitChar ++ [32] ++ s.name ++ [10]

/-- lexicographic `≤` on code-point lists (Python `str` comparison) -/
def lexLe : Str → Str → Bool
  | [], _ => true
  | _ :: _, [] => false
  | a :: as, b :: bs => a < b || (a == b && lexLe as bs)

/-- the sort key `(value, name)` -/
def keyLe (a b : Sym) : Bool := a.value < b.value || (a.value == b.value && lexLe a.name b.name)

/-- files in order of first appearance (`defaultdict` insertion order) -/
def files : List Sym → List Str
  | [] => []
  | s :: r => s.file :: (files r).filter (· ≠ s.file)

/-- insertion sort (`list.sort(key=...)`; elements with equal keys print identical lines) -/
def insertBy (a : Sym) : List Sym → List Sym
  | [] => [a]
  | b :: r => if keyLe a b then a :: b :: r else b :: insertBy a r

def isort : List Sym → List Sym
  | [] => []
  | a :: r => insertBy a (isort r)

def group (syms : List Sym) (f : Str) : List Sym := isort (syms.filter (·.file = f))

/-- the listing text -/
def listing (syms : List Sym) : Str :=
  (files syms).flatMap (fun f => f ++ [10] ++ (group syms f).flatMap line ++ [10])

/-! ### `--lst` path -/

def endsWith (s suffix : Str) : Bool := suffix.length ≤ s.length && s.drop (s.length - suffix.length) == suffix

/-- `str.rpartition(".")[0]` for a string that contains a dot -/
def beforeLastDot (s : Str) : Str :=
  match (s.reverse.dropWhile (· ≠ 46)) with
  | [] => []
  | _ :: r => r.reverse

/-- `lst_file` of `main_cli` from the path and format of the (last selected) output file -/
def lstPath (path fmt : Str) : Str :=
  let base := if endsWith path ([46] ++ fmt) then beforeLastDot path else path
  let p := base ++ [46, 108, 115, 116]
  if p = [45, 46, 108, 115, 116] then [108, 105, 115, 116, 105, 110, 103, 46, 108, 115, 116] else p

end Pdpy11.Model.Listing
