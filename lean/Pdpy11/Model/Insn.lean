import Pdpy11.Model.Basic
import Pdpy11.Gen.Opcodes
/-
Value-level model of `insns.py`: operand stubs, `Instruction.compile_insn`
(`rel_address` bookkeeping) and `get_opcode` (character-level bit substitution
into the 16-symbol pattern).  "Value level": operand expressions are already
evaluated and the operand's syntactic form already classified (the 17-way case
analysis of `RegisterModeOperandStub.encode`); the classification itself is
`Model.Classify`.
-/
namespace Pdpy11.Model.Insn
open Pdpy11.Model Pdpy11.Gen

/-! ### diagnostics -/

/-- why an evaluation stopped early -/
inductive Fail
  | abort                    -- `RecoverableError` after a reported error: the assembly fails
  | crash (what : String)    -- a partial Python operation: internal compiler error
deriving Repr, DecidableEq

structure Log where
  errs : List String := []
  warns : List String := []
deriving Repr, DecidableEq

structure MRes (α : Type) where
  r : Except Fail α
  log : Log

def M (α : Type) := Log → MRes α

instance : Monad M where
  pure a := fun l => ⟨.ok a, l⟩
  bind m f := fun l =>
    match m l with
    | ⟨.ok a, l'⟩ => f a l'
    | ⟨.error e, l'⟩ => ⟨.error e, l'⟩

def err (id : String) : M Unit := fun l => ⟨.ok (), { l with errs := l.errs ++ [id] }⟩
def warn (id : String) : M Unit := fun l => ⟨.ok (), { l with warns := l.warns ++ [id] }⟩
def abort {α : Type} : M α := fun l => ⟨.error .abort, l⟩
def crash {α : Type} (what : String) : M α := fun l => ⟨.error (.crash what), l⟩
def M.run {α : Type} (m : M α) : MRes α := m {}

/-- left-to-right `mapM` (a Python list comprehension), defined by structural recursion -/
def mapM' {α β : Type} (f : α → M β) : List α → M (List β)
  | [] => pure []
  | a :: as => do
      let b ← f a
      let bs ← mapM' f as
      pure (b :: bs)

@[simp] theorem pure_apply {α : Type} (a : α) (l : Log) : (pure a : M α) l = ⟨.ok a, l⟩ := rfl
@[simp] theorem bind_apply {α β : Type} (m : M α) (f : α → M β) (l : Log) :
    (m >>= f) l = match m l with
      | ⟨.ok a, l'⟩ => f a l'
      | ⟨.error e, l'⟩ => ⟨.error e, l'⟩ := rfl
@[simp] theorem err_apply (id : String) (l : Log) : err id l = ⟨.ok (), { l with errs := l.errs ++ [id] }⟩ := rfl
@[simp] theorem warn_apply (id : String) (l : Log) : warn id l = ⟨.ok (), { l with warns := l.warns ++ [id] }⟩ := rfl
@[simp] theorem abort_apply {α : Type} (l : Log) : (abort : M α) l = ⟨.error .abort, l⟩ := rfl

/-! ### `get_as_int` -/

/-- the pure core of `metacommand_impl.get_as_int` with `default=None`:
    the reduced value, or the (single) reported error -/
def getAsInt (bitness : Option Nat) (unsigned : Bool) (v : Int) : Except String Int :=
  if unsigned && v < 0 then .error "value-out-of-bounds"
  else match bitness with
    | none => .ok v
    | some n =>
      if v ≤ -(2 ^ n : Int) then .error "value-out-of-bounds"
      else if v ≥ (2 ^ n : Int) then .error "value-out-of-bounds"
      else .ok (v % (2 ^ n : Int))

def getAsIntM (bitness : Option Nat) (unsigned : Bool) (v : Int) : M Nat :=
  match getAsInt bitness unsigned v with
  | .ok x => pure x.toNat
  | .error e => do err e; abort

/-! ### operands -/

/-- a register written by name (`r3`, `sp`, `pc`) or as `%expr` -/
inductive RegRef
  | named (r : Nat)
  | pct (v : Int)
deriving Repr, DecidableEq, Inhabited

/-- an operand after classification of its syntactic form, expressions evaluated -/
inductive Operand
  | reg (r : RegRef)                 -- `rN`, `%e`
  | regDef (r : RegRef) (legacy : Bool)   -- `(rN)`, legacy `@rN`
  | autoInc (r : RegRef)             -- `(rN)+`
  | autoIncDef (r : RegRef)          -- `@(rN)+`
  | autoDec (r : RegRef)             -- `-(rN)`
  | autoDecDef (r : RegRef)          -- `@-(rN)`
  | index (x : Int) (r : RegRef)     -- `x(rN)`
  | indexDef (x : Int) (r : RegRef)  -- `@x(rN)`
  | indexDef0 (r : RegRef)           -- `@(rN)`
  | imm (v : Int)                    -- `#e`
  | abs (v : Int)                    -- `@#e`
  | expr (v : Int)                   -- `e`   (relative / branch target / inline number)
  | exprDef (v : Int)                -- `@e`  (relative deferred)
  | acc (n : Nat)                    -- `ac0`…`ac5`
deriving Repr, DecidableEq, Inhabited

/-- `try_as_register` (value known at once): a named register is its number, `%e` goes
    through `get_as_int(bitness=3, unsigned=True)` -/
def regNum : RegRef → M Nat
  | .named r => pure r
  | .pct v => getAsIntM (some 3) true v

/-- displacement word of PC-relative modes:
    `wait(operand.resolve(state) - state["rel_address"] - 2) % 2**16` -/
def relWord (target rel : Int) : Nat := ((target - rel - 2) % 65536).toNat

/-- `RegisterModeOperandStub.encode`: the 6-bit field and the extension words -/
def encodeRM (op : Operand) (rel : Int) : M (Nat × List Nat) :=
  match op with
  | .reg r => do let n ← regNum r; pure (n, [])
  | .regDef r legacy => do
      let n ← regNum r
      if legacy then warn "legacy-deferred"
      pure (0o10 ||| n, [])
  | .autoInc r => do let n ← regNum r; pure (0o20 ||| n, [])
  | .autoIncDef r => do let n ← regNum r; pure (0o30 ||| n, [])
  | .autoDec r => do let n ← regNum r; pure (0o40 ||| n, [])
  | .autoDecDef r => do let n ← regNum r; pure (0o50 ||| n, [])
  | .index x r => do
      let n ← regNum r
      let w ← getAsIntM (some 16) false x
      pure (0o60 ||| n, [w])
  | .indexDef x r => do
      let n ← regNum r
      let w ← getAsIntM (some 16) false x
      pure (0o70 ||| n, [w])
  | .indexDef0 r => do
      let n ← regNum r
      warn "implicit-index"
      pure (0o70 ||| n, [0])
  | .imm v => do let w ← getAsIntM (some 16) false v; pure (0o27, [w])
  | .abs v => do let w ← getAsIntM (some 16) false v; pure (0o37, [w])
  | .exprDef t => pure (0o77, [relWord t rel])
  | .expr t => pure (0o67, [relWord t rel])
  | .acc _ => crash "accumulator symbol in a CPU operand (modelled only for FP stubs)"

/-- `FP11RMOperandStub.encode` -/
def encodeFP11RM (op : Operand) (rel : Int) : M (Nat × List Nat) :=
  match op with
  | .acc n => pure (n, [])
  | .reg r => do
      let n ← regNum r
      if n < 6 then warn "implicit-accumulator" else err "implicit-accumulator"
      pure (n, [])
  | _ => encodeRM op rel

/-- `RegisterOperandStub.encode` -/
def encodeReg (op : Operand) : M Nat :=
  match op with
  | .reg r => regNum r
  | _ => do err "invalid-addressing"; abort

/-- `FP11AccumulatorOperandStub.encode`: only accumulators the field can hold -/
def encodeAcc (width : Nat) (op : Operand) : M Nat :=
  match op with
  | .acc n => if n ≥ 2 ^ width then do err "invalid-addressing"; abort else pure n
  | _ => do err "invalid-addressing"; abort

/-- the `fn` of `OffsetOperandStub.encode`: field value and reported errors, as a
    function of `offset = target - rel_address` -/
def offsetField (bitness : Nat) (unsigned : Bool) (offset : Int) : Int × List String :=
  let u : Nat := if unsigned then 1 else 0
  let e1 : List String :=
    if unsigned && offset > 0 then ["branch-out-of-bounds"]
    else
      let minOff : Int := -(2 ^ (bitness + u) : Int) + 2 * u
      let maxOff : Int := if unsigned then 0 else (2 ^ bitness : Int) - 2
      if minOff ≤ offset ∧ offset ≤ maxOff then [] else ["branch-out-of-bounds"]
  let e2 : List String := if offset % 2 = 1 then ["odd-branch"] else []
  let es := e1 ++ e2
  if es.isEmpty then ((if unsigned then (-offset) / 2 else offset / 2), [])
  else (0, es)

def encodeOffset (bitness : Nat) (unsigned : Bool) (op : Operand) (rel : Int) : M Int :=
  match op with
  | .expr t => do
      let (f, es) := offsetField bitness unsigned (t - rel)
      for e in es do err e
      pure f
  | _ => crash "non-expression operand of a branch (outside the value-level model)"

/-- the `fn` of `ImmediateOperandStub.encode` -/
def immField (bitness : Nat) (unsigned : Bool) (v : Int) : Int × List String :=
  if unsigned && v < 0 then (0, ["value-out-of-bounds"])
  else
    let minV : Int := if unsigned then 0 else -(2 ^ bitness : Int) + 1
    let maxV : Int := (2 ^ bitness : Int) - 1
    if minV ≤ v ∧ v ≤ maxV then (v % (2 ^ bitness : Int), []) else (0, ["value-out-of-bounds"])

def encodeImm (bitness : Nat) (unsigned : Bool) (op : Operand) : M Int := do
  let v ← match op with
    | .imm v => do warn "excess-hash"; pure v
    | .expr v => pure v
    | _ => crash "non-expression operand of an inline number (outside the value-level model)"
  let (f, es) := immField bitness unsigned v
  for e in es do err e
  pure f

/-- one stub applied to one operand: inline value and extension words -/
def encodeStub (s : StubG) (op : Operand) (rel : Int) : M (Int × List Nat) :=
  match s.cls with
  | .register => do let n ← encodeReg op; pure (n, [])
  | .registerMode => do let (f, ext) ← encodeRM op rel; pure (f, ext)
  | .fp11rm => do let (f, ext) ← encodeFP11RM op rel; pure (f, ext)
  | .fp11acc => do let n ← encodeAcc s.bits.length op; pure (n, [])
  | .offset => do let f ← encodeOffset s.bits.length s.unsigned op rel; pure (f, [])
  | .immediate => do let f ← encodeImm s.bits.length s.unsigned op; pure (f, [])

/-! ### `get_opcode` -/

/-- positions of `ch` in the pattern, left to right (`indexes_of_char[ch]`) -/
def indexesOfChar (p : List Char) (ch : Char) : List Nat :=
  (List.range p.length).filter (fun j => p[j]? == some ch)

/-- `str((value >> i) & 1)` -/
def bitChar (value : Int) (i : Nat) : Char := if (value >>> i) % 2 = 1 then '1' else '0'

/-- the (position, character) writes one stub performs -/
def stubWrites (p : List Char) (s : StubG) (value : Int) : Option (List (Nat × Char)) :=
  let idx := indexesOfChar p s.ch
  (s.bits.zipIdx).mapM (fun (index, i) => (idx[index]?).map (fun pos => (pos, bitChar value i)))

def applyWrites (p : List Char) (ws : List (Nat × Char)) : List Char :=
  ws.foldl (fun acc w => acc.set w.1 w.2) p

/-- `int(s, 2)` on a list of binary digits -/
def binValue : List Char → Option Nat
  | [] => some 0
  | l => l.foldlM (fun acc c => if c = '0' then some (2 * acc) else if c = '1' then some (2 * acc + 1) else none) 0

/-- `get_opcode`: substitute every stub's value into the pattern and read it in base 2;
    `none` = IndexError / failed `isdigit` assertion / `int(…, 2)` ValueError -/
def getOpcode (p : List Char) (repl : List (StubG × Int)) : Option Nat := do
  let ws ← repl.mapM (fun (s, v) => stubWrites p s v)
  binValue (applyWrites p ws.flatten)

/-! ### `Instruction.compile_insn` -/

/-- fold over (stub, operand) pairs, accumulating replacements and extension words;
    `rel_address = emit_address + 2 + len(operands_encoding)` -/
def encodeOperands (emit : Int) : List (StubG × Operand) → List (StubG × Int) → List Nat → M (List (StubG × Int) × List Nat)
  | [], repl, ext => pure (repl, ext)
  | (s, op) :: rest, repl, ext => do
      let (v, e) ← encodeStub s op (emit + 2 + 2 * ext.length)
      encodeOperands emit rest (repl ++ [(s, v)]) (ext ++ e)

/-- words of one instruction (opcode word first); `[]` when the operand count is wrong -/
def compileInsn (e : InsnG) (ops : List Operand) (emit : Int) : M (List Nat) := do
  if ops.length ≠ e.stubs.length then
    err "wrong-operands"
    pure []
  else
    let (repl, ext) ← encodeOperands emit (e.stubs.zip ops) [] []
    match getOpcode e.pattern repl with
    | some w => pure (w :: ext)
    | none => crash "get_opcode"

def lookupInsn (name : String) : Option InsnG :=
  Gen.opcodes.find? (fun e => e.name == name)

end Pdpy11.Model.Insn
