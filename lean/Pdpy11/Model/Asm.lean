import Pdpy11.Model.Classify
import Pdpy11.Model.Eval
import Pdpy11.Model.Rad50
import Pdpy11.Model.Container
import Pdpy11.Model.Lin
import Pdpy11.Model.Link
import Pdpy11.Model.Scope
/-
Whole-program model of `compiler.py` + `metacommands.py` + `metacommand_impl.py` for the
grammar G: an elaboration pass that walks the statements in order (symbol tables, scoping
counters, link base, side-effect directives, chunk list) exactly as `compile_block` does,
and a *final-semantics* evaluator: every value is what it is once all symbols are known.
Values that are affine in the not-yet-known link base are kept symbolic (`Lin`), as the
implementation does with `LinearPolynomial`, which is what lets `.link K + end - start`
be solved.

The evaluator is denotational: it does not model the order in which the implementation
tries values early ("try now, otherwise defer").  Where that order is observable
(DESIGN.md §2.3, NoLateShadow) the model and the implementation may differ by design.
The recursive evaluation functions are `partial` (bounded by fuel at run time; their
termination is not proved).
-/
namespace Pdpy11.Model.Asm
open Pdpy11.Model Pdpy11.Model.Syntax Pdpy11.Model.Parse Pdpy11.Model.Classify
open Pdpy11.Model.Directive

/-! ### the world outside the program text -/

structure World where
  /-- readable text files: absolute path ↦ text -/
  files : List (String × String)
  /-- readable binary files: absolute path ↦ bytes -/
  bins : List (String × Bytes)

/-! ### paths (`devices.resolve_relative_path` for plain paths) -/

def splitPath (p : String) : List String := p.splitOn "/"

/-- `os.path.dirname` -/
def dirname (p : String) : String :=
  match (splitPath p).reverse with
  | _ :: rest =>
    let d := "/".intercalate rest.reverse
    if d == "" && p.startsWith "/" then "/" else d
  | [] => ""

/-- `os.path.normpath` for POSIX paths -/
def normpath (p : String) : String :=
  let isAbs := p.startsWith "/"
  let parts := (splitPath p).filter (fun s => s != "" && s != ".")
  let stack := parts.foldl (fun (acc : List String) s =>
    if s == ".." then
      match acc with
      | top :: rest => if top == ".." then s :: acc else rest
      | [] => if isAbs then [] else [s]
    else s :: acc) []
  let body := "/".intercalate stack.reverse
  if isAbs then "/" ++ body else if body == "" then "." else body

/-- `resolve_relative_path(rel, base_file)` -/
def resolvePath (rel base : String) : String :=
  if rel.startsWith "/" && normpath rel == rel then rel
  else if rel.startsWith "/" then normpath rel
  else
    let d := dirname base
    normpath (if d == "" then rel else if d.endsWith "/" then d ++ rel else d ++ "/" ++ rel)

/-! ### elaboration -/

/-- the fields of the implementation's `state` dictionary a statement keeps -/
structure SCtx where
  file : String
  internalPrefix : Nat
  localPrefix : Nat
  inRepeat : Bool
  /-- sequence position of the statement: its `emit_address` is the address of that position -/
  pos : Nat
  /-- statements inside a `.repeat` body: the address this copy was given, as (coef, const) in the link base -/
  emitAt : Option (Int × Int) := none
deriving Repr, Inhabited

structure FDiag where
  sev : String
  id : String
  file : String
  s : Nat
  e : Nat
deriving Repr, DecidableEq, Inhabited

inductive SymDef
  | label (pos : Nat)
  | assign (e : Expr) (ctx : SCtx)
deriving Repr, Inhabited

inductive ChunkKind
  | insn (entry : Gen.InsnG) (ops : List Expr)
  | words (es : List Expr)
  | data (m : Gen.MetaG) (ops : List Syntax.Operand)        -- data directives with a value-level body
  | skip (e : Expr)                                  -- `. = e` once the base is set
  | repeat (m : Gen.MetaG) (count : Expr) (body : List Stmt)
  | insertFile (m : Gen.MetaG) (path : Option String)
  | nothing                                          -- side-effect directives: no bytes
deriving Inhabited

structure Chunk where
  kind : ChunkKind
  ctx : SCtx
  sp : Span
  nameSp : Span
deriving Inhabited

structure Emitted where
  format : String
  path : String
  tapeName : Bytes
deriving Repr, DecidableEq

structure ES where
  chunks : Array Chunk := #[]
  /-- qualified lower-cased name ↦ definition, span of the defining token, original name -/
  syms : List (String × SymDef × Span × String) := []
  /-- exported lower-cased name ↦ qualified name -/
  externs : List (String × String) := []
  nextLocal : Nat := 1
  nextInternal : Nat := 1
  times : List (String × Nat) := []
  emitted : List Emitted := []
  link : Option (Expr × SCtx × Span) := none
  diags : Array FDiag := #[]
  prefixFile : List (Nat × String) := []
  /-- a construct outside the modelled grammar was met -/
  unsupported : Option String := none

inductive Stop
  | abort          -- RecoverableError escaping to the top: the assembly fails
  | fatal          -- critical report
  | crash (what : String)
deriving Repr, DecidableEq

abbrev Elab := ExceptT Stop (StateM ES)
instance {α : Type} : Inhabited (Elab α) := ⟨throw .abort⟩

def diag (sev id file : String) (s e : Nat) : Elab Unit :=
  modify (fun st => { st with diags := st.diags.push ⟨sev, id, file, s, e⟩ })

def unsupported (what : String) : Elab Unit :=
  modify (fun st => { st with unsupported := st.unsupported <|> some what })

def qLocal (k : Nat) (name : String) : String := Scope.qLocal k (lowerS name)
def qInternal (k : Nat) (name : String) : String := Scope.qInternal k (lowerS name)

def lookupQ (st : ES) (q : String) : Option (SymDef × Span × String) := Scope.lookup st.syms q

/-- `declare_external_symbol` -/
def declareExtern (file : String) (sp : Span) (name : String) (internalPrefix : Nat) : Elab Unit := do
  let st ← get
  if (st.externs.find? (fun e => e.1 == lowerS name)).isSome then
    diag "error" "duplicate-symbol" file sp.s sp.e
  else
    set { st with externs := st.externs ++ [(lowerS name, qInternal internalPrefix name)] }

/-- per-file mutable state of `compile_file` -/
structure FileSt where
  internalSyms : List String := []
  /-- `state["extern_all"]`: span of the `all` token -/
  externAll : Option Span := none

def pushChunk (c : Chunk) : Elab Unit := modify (fun st => { st with chunks := st.chunks.push c })

def curPos : Elab Nat := do return (← get).chunks.size

/-- the string of a `str` operand made of quoted chunks only (grammar G) -/
def constString : Syntax.Operand → Option (List Nat)
  | .str _ chunks => chunks.foldlM (fun acc c => match c with
      | .quoted _ _ s => some (acc ++ s)
      | .angle .. => none) []
  | _ => none

def strOfCps (l : List Nat) : String := String.ofList (l.map Char.ofNat)

def endsWithCI (s suffix : String) : Bool := (lowerS s).endsWith suffix

/-- default output path: the source name with its `.mac` suffix replaced -/
def defaultOutPath (file : String) (ext : Option String) : String :=
  let stem := if endsWithCI file ".mac" then (file.dropEnd 4).toString else file
  match ext with
  | some e => stem ++ "." ++ e
  | none => stem

def encodeTapeName (cs : Charset) (name : String) : Option Bytes := encodeStr cs (name.toList.map Char.toNat)

/-- inside a `.repeat` body the model covers instructions, word lists, data directives, nested
    repeats and `.end` -/
partial def repeatBodySupported (body : List Stmt) : Bool :=
  body.all (fun st => match st with
    | .insn _ name _ operands =>
      if (findInsn name).isSome then true
      else
        let mname := if (findMeta name).isSome then name else "." ++ name
        match findMeta mname with
        | none => true
        | some m =>
          if m.name == ".repeat" then
            match operands.getLast? with
            | some (.block _ inner) => repeatBodySupported inner
            | _ => true
          else [".byte", ".word", ".dword", ".ascii", ".asciz", ".rad50", ".blkb", ".blkw", ".even", ".odd", ".align", ".end"].contains m.name
    | _ => true)

mutual
  /-- `compile_block` -/
  partial def elabBlock (world : World) (cs : Charset) (stmts : List Stmt) (file : String) (internalPrefix : Nat)
      (inRepeat : Bool) (isInclude : Bool) (fs : FileSt) : Elab FileSt := do
    let st0 ← get
    let lp0 := st0.nextLocal
    set { st0 with nextLocal := lp0 + 1 }
    let rec go : List Stmt → Nat → FileSt → Elab FileSt
      | [], _, fs => pure fs
      | stmt :: rest, lp, fs => do
        let pos ← curPos
        let ctx : SCtx := ⟨file, internalPrefix, lp, inRepeat, pos, none⟩
        match stmt with
        | .label sp name isExtern =>
          if inRepeat then do
            diag "error" "unexpected-symbol-definition" file sp.s sp.e
            go rest lp fs
          else do
            let isLocal := match name.toList.head? with | some c => isDigit c | none => false
            let q := if isLocal then qLocal lp name else qInternal internalPrefix name
            let st ← get
            match Scope.define st.syms q (SymDef.label pos, sp, name) with
            | none => do
              diag "error" "duplicate-symbol" file sp.s sp.e
              -- a refused ordinary label still closes the local scope (compile_block bumps the
              -- prefix after compile_label whatever it did)
              if !isLocal then
                let st2 ← get
                set { st2 with nextLocal := st2.nextLocal + 1 }
                go rest st2.nextLocal fs
              else go rest lp fs
            | some syms' => do
              set { st with syms := syms' }
              if isExtern then declareExtern file sp name internalPrefix
              if !isLocal then
                let fs' := { fs with internalSyms := fs.internalSyms ++ [name] }
                (match fs.externAll with
                 | some asp => declareExtern file asp name internalPrefix
                 | none => pure ())
                let st2 ← get
                set { st2 with nextLocal := st2.nextLocal + 1 }
                go rest st2.nextLocal fs'
              else go rest lp fs
        | .dotAssign sp value => do
          let st ← get
          if isInclude then unsupported "'. =' inside an included file"
          match st.link with
          | some _ => do
            pushChunk ⟨.skip value, ctx, sp, sp⟩
            go rest lp fs
          | none => do
            set { st with link := some (value, ctx, sp) }
            go rest lp fs
        | .assign sp target _tsp value isExtern =>
          if inRepeat then do
            diag "error" "unexpected-symbol-definition" file sp.s sp.e
            go rest lp fs
          else do
            let q := qInternal internalPrefix target
            let st ← get
            match Scope.define st.syms q (SymDef.assign value ctx, sp, target) with
            | none => do
              diag "error" "duplicate-symbol" file sp.s sp.e
              go rest lp fs
            | some syms' => do
              set { st with syms := syms' }
              let fs' := { fs with internalSyms := fs.internalSyms ++ [target] }
              if isExtern then declareExtern file sp target internalPrefix
              (match fs.externAll with
               | some asp => declareExtern file asp target internalPrefix
               | none => pure ())
              go rest lp fs'
        | .words sp ws => do
          pushChunk ⟨.words ws, ctx, sp, sp⟩
          go rest lp fs
        | .insn sp name nameSp operands => do
          let (fs', stop) ← elabInsn world cs ctx sp name nameSp operands fs isInclude
          if stop then pure fs' else go rest lp fs'
    go stmts lp0 fs

  /-- `Compiler.compile_insn` and `Metacommand.compile_insn` / `Instruction.compile_insn`
      up to the creation of the chunk; returns whether the block stops here (`.end`) -/
  partial def elabInsn (world : World) (cs : Charset) (ctx : SCtx) (sp : Span) (name : String) (nameSp : Span)
      (operands : List Syntax.Operand) (fs : FileSt) (isInclude : Bool) : Elab (FileSt × Bool) := do
    let file := ctx.file
    match findInsn name with
    | some entry => do
      -- a CPU instruction
      let exprs := operands.filterMap (fun o => match o with | .expr e => some e | _ => none)
      if exprs.length != operands.length then
        throw (.crash "non-expression operand of an instruction")
      if operands.length != entry.stubs.length then do
        diag "error" "wrong-operands" file sp.s sp.e
        pure (fs, false)
      else do
        pushChunk ⟨.insn entry exprs, ctx, sp, nameSp⟩
        pure (fs, false)
    | none =>
      let metaName := if (findMeta name).isSome then some name else if (findMeta ("." ++ name)).isSome then some ("." ++ name) else none
      match metaName with
      | none => do
        -- implicit `.word` through a symbol, or an unknown instruction
        let st ← get
        let cands := [qInternal ctx.internalPrefix name, lowerS name]
        match cands.findSome? (fun q => lookupQ st q) with
        | some (.label _, _, _) => do
          diag "error" "meta-type-mismatch" file nameSp.s nameSp.e
          pure (fs, false)
        | some (.assign .., _, _) => do
          let head : Expr := .sym nameSp name false
          let exprs := operands.filterMap (fun o => match o with | .expr e => some e | _ => none)
          match exprs with
          | Expr.paren psp "(" inner :: more => do
            pushChunk ⟨.words (.infix ⟨nameSp.s, psp.e⟩ "call" head inner :: more), ctx, sp, nameSp⟩
            pure (fs, false)
          | [] => do
            pushChunk ⟨.words [head], ctx, sp, nameSp⟩
            pure (fs, false)
          | more => do
            diag "error" "meta-type-mismatch" file nameSp.s nameSp.e
            pushChunk ⟨.words (head :: more), ctx, sp, nameSp⟩
            pure (fs, false)
        | none => do
          diag "error" "unknown-insn" file nameSp.s nameSp.e
          pure (fs, false)
      | some mname => do
        if mname != name then diag "warning" "meta-typo" file nameSp.s nameSp.e
        let some m := findMeta mname | throw (.crash "metacommand lookup")
        -- code block
        let (ops, block) ←
          if m.takesCodeBlock then
            match operands.getLast? with
            | some (.block bsp body) => pure (operands.dropLast, some (bsp, body))
            | _ => do
              diag "error" "wrong-meta-operands" file sp.s sp.e
              throw .abort
          else pure (operands, none)
        if ops.length < m.minOperands || (match m.maxOperands with | some mx => decide (ops.length > mx) | none => false) then do
          diag "error" "wrong-meta-operands" file sp.s sp.e
          throw .abort
        -- `#x` operands
        let ops ← ops.mapM (fun (o : Syntax.Operand) => match o with
          | .expr (.pre psp "immediate" inner) => do
            diag "error" "excess-hash" file psp.s psp.e
            pure (Syntax.Operand.expr inner)
          | o => pure o)
        let base := m.name
        if base == ".link" then do
          let st ← get
          if isInclude then unsupported "'.link' inside an included file"
          match ops with
          | [.expr e] =>
            let (l', conflict) := Link.setLink st.link (e, ctx, sp)
            set { st with link := l' }
            if conflict then diag "error" "address-conflict" file sp.s sp.e
          | _ => throw (.crash ".link operand")
          pushChunk ⟨.nothing, ctx, sp, nameSp⟩
          pure (fs, false)
        else if base == ".extern" then do
          let mut fs := fs
          for o in ops do
            match o with
            | .expr (.sym ssp sname _) =>
              if lowerS sname == "all" then
                for n in fs.internalSyms do
                  declareExtern file ssp n ctx.internalPrefix
                fs := { fs with externAll := some ssp }
              else declareExtern file ssp sname ctx.internalPrefix
            | .expr e => diag "error" "meta-type-mismatch" file e.span.s e.span.e
            | _ => throw (.crash ".extern operand")
          pushChunk ⟨.nothing, ctx, sp, nameSp⟩
          pure (fs, false)
        else if base == ".end" then do
          pure (fs, true)
        else if base == ".once" then do
          let st ← get
          let n := ((st.times.find? (fun e => e.1 == file)).map (·.2)).getD 0
          if n > 1 then pure (fs, true)
          else do
            pushChunk ⟨.nothing, ctx, sp, nameSp⟩
            pure (fs, false)
        else if base == ".error" then do
          diag "error" "user-error" file sp.s sp.e
          pushChunk ⟨.nothing, ctx, sp, nameSp⟩
          pure (fs, false)
        else if [".list", ".nlist", ".title", ".sbttl", ".ident", ".page"].contains base then do
          diag "warning" "not-implemented" file sp.s sp.e
          pushChunk ⟨.nothing, ctx, sp, nameSp⟩
          pure (fs, false)
        else if ["make_bin", "make_bk0010_rom", "make_raw", "make_wav", "make_turbo_wav"].contains base then do
          let strs := ops.map constString
          if strs.any Option.isNone then do
            unsupported "computed path operand of a make_* directive"
            pushChunk ⟨.nothing, ctx, sp, nameSp⟩
            pure (fs, false)
          else do
            let args := strs.map (fun s => strOfCps (s.getD []))
            let isWav := base == "make_wav" || base == "make_turbo_wav"
            let ext : Option String := if base == "make_raw" then none else if isWav then some "wav" else some "bin"
            let path := match args.head? with
              | some p => resolvePath p file
              | none => defaultOutPath file ext
            let fmt := if base == "make_raw" then "raw" else if base == "make_wav" then "bk_wav" else if base == "make_turbo_wav" then "bk_turbo_wav" else "bin"
            let mut tape : Bytes := []
            if isWav then
              let tname := match args[1]? with
                | some n => n
                | none =>
                  let last := (splitPath path).getLast?.getD ""
                  if endsWithCI last ".wav" then (last.dropEnd 4).toString else last
              match encodeTapeName cs tname with
              | none => throw (.crash "UnicodeEncodeError in add_emitted_bk_wav")
              | some bs =>
                if bs.length > 16 then diag "error" "too-long-string" file sp.s sp.e
                tape := (bs.take 16) ++ List.replicate (16 - (bs.take 16).length) 32
            modify (fun st => { st with emitted := st.emitted ++ [⟨fmt, path, tape⟩] })
            pushChunk ⟨.nothing, ctx, sp, nameSp⟩
            pure (fs, false)
        else if base == ".include" then do
          match ops.head?.bind constString with
          | none => do
            unsupported "computed '.include' path"
            pushChunk ⟨.nothing, ctx, sp, nameSp⟩
            pure (fs, false)
          | some p => do
            if ctx.inRepeat then unsupported "'.include' inside '.repeat'"
            let path := resolvePath (strOfCps p) file
            match world.files.find? (fun (f : String × String) => f.1 == path) with
            | none => do
              diag "error" "io-error" file sp.s sp.e
              pushChunk ⟨.nothing, ctx, sp, nameSp⟩
              pure (fs, false)
            | some (_, text) => do
              let pr := parseText text
              for d in pr.diags do
                diag d.sev d.id path d.s d.e
              match pr.body with
              | none => throw .fatal
              | some body => do
                -- an aborted include is swallowed by `Metacommand.fn` (RecoverableError → b"")
                try
                  elabFile world cs path body true
                catch
                  | .abort =>
                    -- what the file defined before the abort stays defined; the chunks it had
                    -- produced are dropped from the image (the include returns b"")
                    unsupported "statement aborting inside an included file"
                  | e => throw e
                pure (fs, false)
        else if base == "insert_file" then do
          let p := (ops.head?.bind constString).map (fun p => resolvePath (strOfCps p) file)
          if p.isNone then unsupported "computed 'insert_file' path"
          pushChunk ⟨.insertFile m p, ctx, sp, nameSp⟩
          pure (fs, false)
        else if base == ".repeat" then do
          match ops, block with
          | [.expr count], some (_, body) => do
            if !(repeatBodySupported body) then unsupported "a directive inside '.repeat' that the model does not cover"
            pushChunk ⟨.repeat m count body, ctx, sp, nameSp⟩
            pure (fs, false)
          | _, _ => throw (.crash ".repeat operands")
        else do
          pushChunk ⟨.data m ops, ctx, sp, nameSp⟩
          pure (fs, false)

  /-- `compile_file` -/
  partial def elabFile (world : World) (cs : Charset) (file : String) (body : List Stmt) (isInclude : Bool) : Elab Unit := do
    let st ← get
    let n := ((st.times.find? (fun e => e.1 == file)).map (·.2)).getD 0
    let k := st.nextInternal
    set { st with times := (file, n + 1) :: st.times.filter (fun e => e.1 != file), nextInternal := k + 1,
                  prefixFile := st.prefixFile ++ [(k, file)] }
    let _ ← elabBlock world cs body file k false isInclude {}
    pure ()
end

/-! ### evaluation -/

inductive EFail
  | abort | crash (what : String) | needBase | cycle
deriving Repr, DecidableEq

structure EvSt where
  errs : Array FDiag := #[]
  /-- memo of chunk sizes already computed in this run (a size never changes within a run) -/
  sizes : List (Nat × Nat) := []

abbrev Ev := StateT EvSt (Except (EFail × EvSt))
instance {α : Type} : Inhabited (Ev α) := ⟨fun st => .error (.cycle, st)⟩

def evDiag (sev id file : String) (s e : Nat) : Ev Unit :=
  modify (fun st => { st with errs := st.errs.push ⟨sev, id, file, s, e⟩ })

def evFail {α : Type} (f : EFail) : Ev α := do
  let st ← get
  throw (f, st)

structure G where
  es : ES
  world : World
  cs : Charset
  base : Option Int

def force (g : G) (l : Lin) : Ev Int :=
  match Lin.force g.base l with
  | some v => pure v
  | none => evFail .needBase

def linConst (v : Int) : Lin := Lin.ofInt v

/-- `get_as_int` lifted: reports at the operand -/
def getInt (file : String) (sp : Span) (bitness : Option Nat) (unsigned : Bool) (v : Int) : Ev Nat :=
  match Insn.getAsInt bitness unsigned v with
  | .ok x => pure x.toNat
  | .error e => do evDiag "error" e file sp.s sp.e; evFail .abort

def fileText (g : G) (file : String) : String :=
  ((g.world.files.find? (fun (f : String × String) => f.1 == file)).map (·.2)).getD ""

/-- run a value-level `Insn.M` computation, attributing its reports to a span -/
def liftM {α : Type} (file : String) (sp : Span) (m : Insn.M α) : Ev α := do
  let r := m.run
  for e in r.log.errs do evDiag "error" e file sp.s sp.e
  for w in r.log.warns do evDiag "warning" w file sp.s sp.e
  match r.r with
  | .ok a => pure a
  | .error .abort => evFail .abort
  | .error (.crash w) => evFail (.crash w)

mutual
  /-- value of a symbol reference (`Symbol._resolve` candidate order, final tables) -/
  partial def symValue (g : G) (fuel : Nat) (visiting : List String) (ctx : SCtx) (sp : Span) (name : String) (isLabel : Bool) : Ev Lin := do
    if Eval.registerNames.contains (lowerS name) && !isLabel then do
      evDiag "error" "unexpected-register" ctx.file sp.s sp.e
      evFail .abort
    let found := match Scope.resolveQ g.es.syms g.es.externs (qLocal ctx.localPrefix name) (qInternal ctx.internalPrefix name) (lowerS name) with
      | some q => (lookupQ g.es q).map (fun d => (q, d))
      | none => none
    match found with
    | none => do
      evDiag "error" "undefined-symbol" ctx.file sp.s sp.e
      pure (linConst 0)
    | some (q, (def_, _, _)) =>
      if visiting.contains q then evFail .cycle
      else match fuel with
        | 0 => evFail .cycle
        | fuel + 1 =>
          match def_ with
          | .label pos => addrAt g fuel visiting pos
          | .assign e actx => evalExpr g fuel (q :: visiting) actx e

  /-- address of a sequence position -/
  partial def addrAt (g : G) (fuel : Nat) (visiting : List String) (pos : Nat) : Ev Lin := do
    let mut total : Int := 0
    for i in [0:pos] do
      total := total + (← chunkSize g fuel visiting i)
    match g.base with
    | some b => pure ⟨0, b + total⟩
    | none => pure ⟨1, total⟩

  /-- what `compile_block` adds to the running address for chunk `i` -/
  partial def chunkSize (g : G) (fuel : Nat) (visiting : List String) (i : Nat) : Ev Nat := do
    let some c := g.es.chunks[i]? | pure 0
    if let some (_, n) := (← get).sizes.find? (fun (p : Nat × Nat) => p.1 == i) then return n
    let n ← chunkSizeRaw g fuel visiting i c
    modify (fun st => { st with sizes := (i, n) :: st.sizes })
    pure n

  partial def chunkSizeRaw (g : G) (fuel : Nat) (visiting : List String) (i : Nat) (c : Chunk) : Ev Nat := do
    match c.kind with
    | .insn entry ops =>
      let shapes := (entry.stubs.zip ops).map (fun (s, e) => match s.cls with
        | .registerMode => (classifyRM e).extWords
        | .fp11rm => if (tryAccumulator e).isSome then 0 else (classifyRM e).extWords
        | _ => 0)
      pure (2 + 2 * shapes.foldl (· + ·) 0)
    | .words es => pure (2 * es.length)
    | .nothing => pure 0
    | .data m ops =>
      match Directive.announcedSize m ops.length with
      | some n => pure n
      | none => match fuel with
        | 0 => evFail .cycle
        | fuel + 1 => do let b ← chunkBytes g fuel visiting i; pure b.length
    | .repeat _ count body => match fuel with
      | 0 => evFail .cycle
      | fuel + 1 => do
        -- the value of `.repeat` is a concatenation of chunks: its length is the sum of their
        -- lengths, and sized chunks contribute their announced size without being evaluated
        let emit ← addrAt g fuel visiting c.ctx.pos
        repeatSize g fuel visiting c count body emit
    | _ => match fuel with
      | 0 => evFail .cycle
      | fuel + 1 => do let b ← chunkBytes g fuel visiting i; pure b.length

  /-- static size of an instruction statement -/
  partial def insnSize (entry : Gen.InsnG) (ops : List Expr) : Nat :=
    let shapes := (entry.stubs.zip ops).map (fun (s, e) => match s.cls with
      | .registerMode => (classifyRM e).extWords
      | .fp11rm => if (tryAccumulator e).isSome then 0 else (classifyRM e).extWords
      | _ => 0)
    2 + 2 * shapes.foldl (· + ·) 0

  /-- length of `.repeat` without evaluating the contents of sized statements -/
  partial def repeatSize (g : G) (fuel : Nat) (visiting : List String) (c : Chunk) (count : Expr) (body : List Stmt) (emit : Lin) : Ev Nat := do
    let v ← evalInt g fuel visiting c.ctx count
    let n ← getInt c.ctx.file c.sp none true v
    let mut total := 0
    let mut addr := emit
    for k in [0:n] do
      let sz ← blockSize g fuel visiting c.ctx body addr (c.ctx.pos * 64 + k)
      total := total + sz
      addr := ⟨addr.coef, addr.const + sz⟩
    pure total

  /-- what one copy of a `.repeat` body adds to the address -/
  partial def blockSize (g : G) (fuel : Nat) (visiting : List String) (ctx : SCtx) (body : List Stmt) (start : Lin) (scope : Nat) : Ev Nat := do
    let mut total := 0
    let mut addr := start
    for stmt in body do
      let sctx : SCtx := { ctx with inRepeat := true, localPrefix := 1000000 + scope * 1000, emitAt := some (addr.coef, addr.const) }
      let mut step := 0
      match stmt with
      | .label .. => pure ()
      | .assign .. => pure ()
      | .dotAssign sp value =>
        let c : Chunk := ⟨.skip value, sctx, sp, sp⟩
        step := (← kindBytes g fuel visiting c addr).length
      | .words _ ws => step := 2 * ws.length
      | .insn sp name nameSp operands =>
        match findInsn name with
        | some entry =>
          let exprs := operands.filterMap (fun o => match o with | .expr e => some e | _ => none)
          if operands.length == entry.stubs.length then step := insnSize entry exprs
        | none =>
          let mname := if (findMeta name).isSome then name else "." ++ name
          match findMeta mname with
          | none => pure ()
          | some m =>
            if m.name == ".repeat" then
              match operands with
              | [.expr count, .block _ inner] =>
                let c : Chunk := ⟨.repeat m count inner, sctx, sp, nameSp⟩
                step ← repeatSize g fuel visiting c count inner addr
              | _ => pure ()
            else if m.name == ".end" then
              return total
            else
              match Directive.announcedSize m operands.length with
              | some n => step := n
              | none =>
                let c : Chunk := ⟨.data m operands, sctx, sp, nameSp⟩
                step := (← kindBytes g fuel visiting c addr).length
      total := total + step
      addr := ⟨addr.coef, addr.const + step⟩
    pure total

  /-- `token.resolve(state)` with values kept affine in the link base -/
  partial def evalExpr (g : G) (fuel : Nat) (visiting : List String) (ctx : SCtx) : Expr → Ev Lin
    | .num sp _ v _ invalidBase8 => do
      if invalidBase8 then evDiag "error" "invalid-number" ctx.file sp.s sp.e
      pure (linConst v)
    | .sym sp name isLabel => symValue g fuel visiting ctx sp name isLabel
    | .dot _ => match ctx.emitAt with
      | some (c, k) => pure ⟨c, k⟩
      | none => addrAt g fuel visiting ctx.pos
    | .paren _ _ e => evalExpr g fuel visiting ctx e
    | .chr sp _ s => do
      let v ← liftM ctx.file sp (Eval.charLiteralValue g.cs s)
      pure (linConst v)
    | .infix sp f l r => do
      let a ← evalExpr g fuel visiting ctx l
      let b ← evalExpr g fuel visiting ctx r
      -- operators that keep affine values affine (`awaited=False` and polynomial arithmetic)
      if f == "add" then pure (Lin.add a b)
      else if f == "sub" then pure (Lin.sub a b)
      else if f == "mul" && b.coef == 0 then pure (Lin.scale a b.const)
      else if f == "mul" && a.coef == 0 then pure (Lin.scale b a.const)
      else if f == "lshift" && b.coef == 0 && b.const ≥ 0 then pure (Lin.scale a (2 ^ b.const.toNat))
      else if f == "rshift" && b.coef == 0 && b.const == 0 then pure a
      else do
        let x ← force g a
        let y ← force g b
        match Ops.binop f x y with
        | some (v, none) => pure (linConst v)
        | some (v, some e) => do evDiag "error" e ctx.file sp.s sp.e; pure (linConst v)
        | none => evFail (.crash ("unknown operator " ++ f))
    | .pre sp f e => do
      let a ← evalExpr g fuel visiting ctx e
      if f == "pos" then pure a
      else if f == "neg" then pure (Lin.neg a)
      else do
        let x ← force g a
        match Ops.unop f x with
        | some (v, none) => pure (linConst v)
        | some (v, some er) => do evDiag "error" er ctx.file sp.s sp.e; pure (linConst v)
        | none => evFail (.crash ("unknown operator " ++ f))
    | .post sp f e => do
      let a ← evalExpr g fuel visiting ctx e
      let x ← force g a
      match Ops.unop f x with
      | some (v, none) => pure (linConst v)
      | some (v, some er) => do evDiag "error" er ctx.file sp.s sp.e; pure (linConst v)
      | none => evFail (.crash ("unknown operator " ++ f))

  /-- integer value of an expression (`wait(...)`) -/
  partial def evalInt (g : G) (fuel : Nat) (visiting : List String) (ctx : SCtx) (e : Expr) : Ev Int := do
    let l ← evalExpr g fuel visiting ctx e
    force g l

  /-- a register operand -/
  partial def regRef (g : G) (fuel : Nat) (visiting : List String) (ctx : SCtx) : RegE → Ev Insn.RegRef
    | .named n => pure (.named n)
    | .pct e => do
      let v ← evalInt g fuel visiting ctx e
      match Insn.getAsInt (some 3) true v with
      | .ok _ => pure (.pct v)
      | .error er => do evDiag "error" er ctx.file e.span.s e.span.e; evFail .abort

  /-- the value-level operand of a CPU operand form -/
  partial def shapeOperand (g : G) (fuel : Nat) (visiting : List String) (ctx : SCtx) (sh : Shape) : Ev Insn.Operand := do
    match sh with
    | .reg r => return .reg (← regRef g fuel visiting ctx r)
    | .regDef r legacy => return .regDef (← regRef g fuel visiting ctx r) legacy
    | .autoInc r => return .autoInc (← regRef g fuel visiting ctx r)
    | .autoIncDef r => return .autoIncDef (← regRef g fuel visiting ctx r)
    | .autoDec r => return .autoDec (← regRef g fuel visiting ctx r)
    | .autoDecDef r => return .autoDecDef (← regRef g fuel visiting ctx r)
    | .index x r => do
      let rr ← regRef g fuel visiting ctx r
      let v ← evalInt g fuel visiting ctx x
      (match Insn.getAsInt (some 16) false v with
       | .ok _ => pure ()
       | .error er => do evDiag "error" er ctx.file x.span.s x.span.e; evFail .abort)
      return .index v rr
    | .indexDef x r => do
      let rr ← regRef g fuel visiting ctx r
      let v ← evalInt g fuel visiting ctx x
      (match Insn.getAsInt (some 16) false v with
       | .ok _ => pure ()
       | .error er => do evDiag "error" er ctx.file x.span.s x.span.e; evFail .abort)
      return .indexDef v rr
    | .indexDef0 r => return .indexDef0 (← regRef g fuel visiting ctx r)
    | .imm e => do
      let v ← evalInt g fuel visiting ctx e
      (match Insn.getAsInt (some 16) false v with
       | .ok _ => pure ()
       | .error er => do evDiag "error" er ctx.file e.span.s e.span.e; evFail .abort)
      return .imm v
    | .abs e => do
      let v ← evalInt g fuel visiting ctx e
      (match Insn.getAsInt (some 16) false v with
       | .ok _ => pure ()
       | .error er => do evDiag "error" er ctx.file e.span.s e.span.e; evFail .abort)
      return .abs v
    | .relDef e => return .exprDef (← evalInt g fuel visiting ctx e)
    | .rel e => return .expr (← evalInt g fuel visiting ctx e)

  /-- bytes of an instruction at a known address -/
  partial def insnBytes (g : G) (fuel : Nat) (visiting : List String) (c : Chunk) (entry : Gen.InsnG) (ops : List Expr) (emit : Lin) : Ev Bytes := do
    let file := c.ctx.file
    let text := (fileText g file).toList
    let mut vops : List Insn.Operand := []
    let mut preWarn : List (String × Span) := []
    for (s, e) in entry.stubs.zip ops do
      match s.cls with
      | .register =>
        match tryAsRegister e with
        | some r => vops := vops ++ [.reg (← regRef g fuel visiting c.ctx r)]
        | none => do
          evDiag "error" "invalid-addressing" file c.sp.s c.sp.e
          evFail .abort
      | .registerMode => vops := vops ++ [← shapeOperand g fuel visiting c.ctx (classifyRM e)]
      | .fp11rm =>
        match tryAccumulator e with
        | some n => vops := vops ++ [.acc n]
        | none => vops := vops ++ [← shapeOperand g fuel visiting c.ctx (classifyRM e)]
      | .fp11acc =>
        match tryAccumulator e with
        | some n => vops := vops ++ [.acc n]
        | none => do
          evDiag "error" "invalid-addressing" file c.sp.s c.sp.e
          evFail .abort
      | .offset =>
        let opText := (text.drop e.span.s).take (e.span.e - e.span.s)
        let (e', fired) := offsetOperand e opText
        if fired then preWarn := preWarn ++ [("label-fixup", c.nameSp)]
        vops := vops ++ [.expr (← evalInt g fuel visiting c.ctx e')]
      | .immediate =>
        match e with
        | .pre _ "immediate" inner => vops := vops ++ [.imm (← evalInt g fuel visiting c.ctx inner)]
        | _ => vops := vops ++ [.expr (← evalInt g fuel visiting c.ctx e)]
    for (w, wsp) in preWarn do evDiag "warning" w file wsp.s wsp.e
    let emitV ← force g emit
    let words ← liftM file c.nameSp (Insn.compileInsn entry vops emitV)
    pure (words.flatMap le16)

  /-- value-level arguments of a data directive -/
  partial def dataArgs (g : G) (fuel : Nat) (visiting : List String) (ctx : SCtx) (ops : List Syntax.Operand) : Ev (List Directive.Arg) :=
    ops.mapM (fun o => match o with
      | .expr e => do return Directive.Arg.int (← evalInt g fuel visiting ctx e)
      | .str _ chunks => do
        let cs ← chunks.mapM (fun c => match c with
          | .quoted _ _ s => pure (Directive.StrChunk.str s)
          | .angle _ e => do return Directive.StrChunk.angle (← evalInt g fuel visiting ctx e))
        return Directive.Arg.str cs
      | .block .. => evFail (.crash "code block operand of a data directive"))

  /-- bytes of the statements of a `.repeat` body compiled at `start` -/
  partial def blockBytes (g : G) (fuel : Nat) (visiting : List String) (ctx : SCtx) (body : List Stmt) (start : Lin) (scope : Nat) : Ev Bytes := do
    let mut out : Bytes := []
    let mut addr := start
    let mut k := 0
    for stmt in body do
      k := k + 1
      let sctx : SCtx := { ctx with inRepeat := true, localPrefix := 1000000 + scope * 1000, emitAt := some (addr.coef, addr.const) }
      match stmt with
      | .label sp _ _ => evDiag "error" "unexpected-symbol-definition" ctx.file sp.s sp.e
      | .assign sp .. => evDiag "error" "unexpected-symbol-definition" ctx.file sp.s sp.e
      | .dotAssign sp value =>
        -- inside a block the base is settled by then: a forward skip
        let old ← force g addr
        let v ← evalInt g fuel visiting sctx value
        let nv ← getInt ctx.file sp (some 16) false v
        match Link.skipBytes old nv with
        | .error er => do
          evDiag "error" er ctx.file sp.s sp.e
          evFail .abort
        | .ok zs =>
          out := out ++ zs
          addr := ⟨addr.coef, addr.const + zs.length⟩
      | .words sp ws =>
        let c : Chunk := ⟨.words ws, sctx, sp, sp⟩
        let b ← kindBytes g fuel visiting c addr
        out := out ++ b
        addr := ⟨addr.coef, addr.const + 2 * ws.length⟩
      | .insn sp name nameSp operands =>
        match findInsn name with
        | some entry =>
          let exprs := operands.filterMap (fun o => match o with | .expr e => some e | _ => none)
          if operands.length != entry.stubs.length then
            evDiag "error" "wrong-operands" ctx.file sp.s sp.e
          else
            let c : Chunk := ⟨.insn entry exprs, sctx, sp, nameSp⟩
            let b ← kindBytes g fuel visiting c addr
            out := out ++ b
            addr := ⟨addr.coef, addr.const + b.length⟩
        | none =>
          let mname := if (findMeta name).isSome then name else "." ++ name
          match findMeta mname with
          | none => evDiag "error" "unknown-insn" ctx.file nameSp.s nameSp.e
          | some m =>
            if mname != name then evDiag "warning" "meta-typo" ctx.file nameSp.s nameSp.e
            let dataNames := [".byte", ".word", ".dword", ".ascii", ".asciz", ".rad50", ".blkb", ".blkw", ".even", ".odd", ".align"]
            if m.name == ".repeat" then
              match operands with
              | [.expr count, .block _ inner] =>
                let c : Chunk := ⟨.repeat m count inner, sctx, sp, nameSp⟩
                let b ← kindBytes g fuel visiting c addr
                out := out ++ b
                addr := ⟨addr.coef, addr.const + b.length⟩
              | _ => evFail (.crash ".repeat operands")
            else if dataNames.contains m.name then
              if operands.length < m.minOperands || (match m.maxOperands with | some mx => decide (operands.length > mx) | none => false) then do
                evDiag "error" "wrong-meta-operands" ctx.file sp.s sp.e
                evFail .abort
              let c : Chunk := ⟨.data m operands, sctx, sp, nameSp⟩
              let b ← kindBytes g fuel visiting c addr
              out := out ++ b
              let step := match Directive.announcedSize m operands.length with | some n => n | none => b.length
              addr := ⟨addr.coef, addr.const + step⟩
            else if m.name == ".end" then
              return out
            else
              evFail (.crash ("directive inside '.repeat' outside the model: " ++ m.name))
    pure out

  /-- bytes of a chunk whose statement was given the address `emit` -/
  partial def kindBytes (g : G) (fuel : Nat) (visiting : List String) (c : Chunk) (emit : Lin) : Ev Bytes := do
    let file := c.ctx.file
    match c.kind with
    | .nothing => pure []
    | .insn entry ops => insnBytes g fuel visiting c entry ops emit
    | .words es => do
      let vals ← es.mapM (evalInt g fuel visiting c.ctx)
      let emitV ← force g emit
      liftM file c.sp (Directive.wordList emitV vals)
    | .skip e => do
      let old ← force g emit
      let v ← evalInt g fuel visiting c.ctx e
      let nv ← getInt file c.sp (some 16) false v
      match Link.skipBytes old nv with
      | .error er => do
        evDiag "error" er file c.sp.s c.sp.e
        evFail .abort
      | .ok zs => pure zs
    | .data m ops => do
      if m.name == ".rad50" then
        match ops with
        | [.str _ chunks] => do
          let cs ← chunks.mapM (fun ch => match ch with
            | .quoted _ _ s => pure (Rad50.Chunk.str s)
            | .angle _ e => do return Rad50.Chunk.code (← evalInt g fuel visiting c.ctx e))
          let (ws, errs) := Rad50.directive Gen.rad50Table cs
          for er in errs do
            evDiag "error" (match er with | .invalidCharacter => "invalid-character" | .valueOutOfBounds => "value-out-of-bounds") file c.sp.s c.sp.e
          pure (ws.flatMap le16)
        | _ => evFail (.crash ".rad50 operand")
      else do
        let args ← dataArgs g fuel visiting c.ctx ops
        -- cooking (`get_as_int` per declared operand type) reports at the operand itself
        if !m.raw then
          for (o, i) in ops.zipIdx do
            match o, args[i]? with
            | .expr e, some (Directive.Arg.int v) =>
              let hint := m.operandHints.getD (min i (m.operandHints.length - 1)) "int"
              let unsigned := hint.startsWith "u"
              let bits := ((hint.replace "u" "").replace "int" "").toNat?
              let _ ← getInt file e.span bits unsigned v
            | _, _ => pure ()
        -- the address is only awaited by the directives that look at it
        let needsAddr := [".word", ".dword", ".even", ".odd", ".align"].contains m.name
        let emitV ← if needsAddr then force g emit else pure 0
        liftM file c.sp (Directive.directive m.name g.cs emitV args)
    | .insertFile _ path =>
      match path with
      | none => evFail (.crash "computed insert_file path")
      | some p =>
        match g.world.bins.find? (fun (f : String × Bytes) => f.1 == p) with
        | some (_, bs) => pure bs
        | none => do
          evDiag "error" "io-error" file c.sp.s c.sp.e
          pure []
    | .repeat _ count body => do
      let v ← evalInt g fuel visiting c.ctx count
      let n ← getInt file c.sp none true v
      let mut out : Bytes := []
      let mut addr := emit
      for k in [0:n] do
        let b ← blockBytes g fuel visiting c.ctx body addr (c.ctx.pos * 64 + k)
        out := out ++ b
        addr := ⟨addr.coef, addr.const + b.length⟩
      pure out

  /-- bytes of chunk `i` of the main sequence -/
  partial def chunkBytes (g : G) (fuel : Nat) (visiting : List String) (i : Nat) : Ev Bytes := do
    let some c := g.es.chunks[i]? | pure []
    let emit ← addrAt g fuel visiting c.ctx.pos
    kindBytes g fuel visiting c emit
end

/-! ### the whole assembly -/

structure Result where
  /-- `ok` | `failed` | `crash` | `cycle` | `unsupported` -/
  outcome : String
  base : Int
  code : Bytes
  diags : List FDiag
  /-- internal symbols: (file, name, value) -/
  symbols : List (String × String × Int)
  emitted : List Emitted
  /-- per chunk: (address, announced size, actual length) -/
  layout : List (Int × Nat × Nat)
  note : String
  /-- every key of the symbol table (qualified names), in definition order -/
  keys : List String := []

def hasError (ds : List FDiag) : Bool := ds.any (fun d => d.sev != "warning")

/-- `parse` all files, `compile_and_link_files` -/
def assemble (world : World) (cs : Charset) (mains : List String) : Result :=
  let fail (oc : String) (ds : List FDiag) (note : String) : Result := ⟨oc, 0, [], ds, [], [], [], note, []⟩
  -- parse
  let parsed := mains.map (fun f =>
    let text := ((world.files.find? (fun (x : String × String) => x.1 == f)).map (·.2)).getD ""
    (f, parseText text))
  let pdiags := parsed.flatMap (fun (f, pr) => pr.diags.map (fun d => (⟨d.sev, d.id, f, d.s, d.e⟩ : FDiag)))
  -- a critical report stops at the first file that has one
  let rec firstFatal : List (String × ParseResult) → List FDiag → Option (List FDiag)
    | [], _ => none
    | (f, pr) :: rest, acc =>
      let acc' := acc ++ pr.diags.map (fun d => (⟨d.sev, d.id, f, d.s, d.e⟩ : FDiag))
      if pr.body.isNone then some acc' else firstFatal rest acc'
  match firstFatal parsed [] with
  | some ds => fail "failed" ds "critical report while parsing"
  | none =>
    let elabAll : Elab Unit := do
      for (f, pr) in parsed do
        elabFile world cs f (pr.body.getD []) false
    match (elabAll.run).run {} with
    | (.error .abort, es) => fail "failed" (pdiags ++ es.diags.toList) "aborted during compilation"
    | (.error .fatal, es) => fail "failed" (pdiags ++ es.diags.toList) "critical report in an included file"
    | (.error (.crash w), es) => fail "crash" (pdiags ++ es.diags.toList) w
    | (.ok _, es) =>
      let ediags := pdiags ++ es.diags.toList
      match es.unsupported with
      | some w => fail "unsupported" ediags w
      | none =>
        let fuel := 4 * (es.chunks.size + es.syms.length) + 64
        -- the link base
        let (base, ldiags, lfail) : Int × List FDiag × Option EFail :=
          match es.link with
          | none => ((Link.decideBase none).1, [], none)
          | some (e, ctx, sp) =>
            let g0 : G := ⟨es, world, cs, none⟩
            let mk (ev : Link.LinkEval) (st : EvSt) : Int × List FDiag × Option EFail :=
              match Link.decideBase (some ev) with
              | (b, none) => (b, st.errs.toList, none)
              | (b, some "recursive-definition") => (b, st.errs.toList ++ [⟨"error", "recursive-definition", ctx.file, sp.s, sp.e⟩], none)
              | (b, some er) => (b, st.errs.toList ++ [⟨"error", er, ctx.file, e.span.s, e.span.e⟩], some .abort)
            match (evalExpr g0 fuel [] ctx e).run {} with
            | .ok (l, st) => mk (.value l) st
            | .error (.needBase, st) => mk .needsBase st
            | .error (.cycle, st) => mk .needsBase st
            | .error (f, st) => (0, st.errs.toList, some f)
        match lfail with
        | some .abort => fail "failed" (ediags ++ ldiags) "link base out of range"
        | some (.crash w) => fail "crash" (ediags ++ ldiags) w
        | some _ => fail "crash" (ediags ++ ldiags) "link base"
        | none =>
          let g : G := ⟨es, world, cs, some base⟩
          let run : Ev (Bytes × List (Int × Nat × Nat) × List (String × String × Int)) := do
            let mut code : Bytes := []
            let mut layout : List (Int × Nat × Nat) := []
            for i in [0:es.chunks.size] do
              let a ← addrAt g fuel [] i
              let av ← force g a
              let sz ← chunkSize g fuel [] i
              let b ← chunkBytes g fuel [] i
              code := code ++ b
              layout := layout ++ [(av, sz, b.length)]
            let mut syms : List (String × String × Int) := []
            for (q, d, _, orig) in es.syms do
              let dummy : SCtx := ⟨"", 0, 0, false, 0, none⟩
              let v ← match d with
                | .label pos => do force g (← addrAt g fuel [] pos)
                | .assign e actx => do force g (← evalExpr g fuel [q] actx e)
              let _ := dummy
              if q.startsWith ".internal" then
                let k := ((q.drop 9).toString.splitOn ".").head!.toNat!
                let file := ((es.prefixFile.find? (fun p => p.1 == k)).map (·.2)).getD ""
                syms := syms ++ [(file, orig, v)]
            pure (code, layout, syms)
          match run.run {} with
          | .ok ((code, layout, syms), st) =>
            let ds := ediags ++ ldiags ++ st.errs.toList
            if hasError ds then ⟨"failed", base, [], ds, [], es.emitted, layout, "", []⟩
            else { (⟨"ok", base, code, ds, syms, es.emitted, layout, "", []⟩ : Result) with keys := es.syms.map (·.1) }
          | .error (.abort, st) => fail "failed" (ediags ++ ldiags ++ st.errs.toList) "aborted"
          | .error (.crash w, st) => fail "crash" (ediags ++ ldiags ++ st.errs.toList) w
          | .error (.cycle, st) => fail "cycle" (ediags ++ ldiags ++ st.errs.toList) "cyclic definition"
          | .error (.needBase, st) => fail "crash" (ediags ++ ldiags ++ st.errs.toList) "base needed although settled"

end Pdpy11.Model.Asm
