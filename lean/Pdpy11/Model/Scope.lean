/-
Model of symbol naming and lookup: the qualified names `.local{k}.name` /
`.internal{k}.name` (`Compiler.compile_label`, `compile_assignment`), definition with
duplicate detection, and the candidate order of `Symbol._resolve` (own local scope, own
file, exported symbols).  Total functions, used by `Model/Asm.lean`.
-/
namespace Pdpy11.Model.Scope

/-- decimal digits of `n`, most significant first (`str(n)`) -/
def digitsAux : Nat → Nat → List Char
  | 0, n => [Char.ofNat (48 + n % 10)]
  | f + 1, n => if n < 10 then [Char.ofNat (48 + n)] else digitsAux f (n / 10) ++ [Char.ofNat (48 + n % 10)]

def digits (n : Nat) : List Char := digitsAux n n

def localPrefix : List Char := ['.', 'l', 'o', 'c', 'a', 'l']
def internalPrefix : List Char := ['.', 'i', 'n', 't', 'e', 'r', 'n', 'a', 'l']

/-- `f".local{k}." + name` -/
def qLocalC (k : Nat) (name : List Char) : List Char := localPrefix ++ (digits k ++ '.' :: name)
/-- `f".internal{k}." + name` -/
def qInternalC (k : Nat) (name : List Char) : List Char := internalPrefix ++ (digits k ++ '.' :: name)

def qLocal (k : Nat) (lowerName : String) : String := String.ofList (qLocalC k lowerName.toList)
def qInternal (k : Nat) (lowerName : String) : String := String.ofList (qInternalC k lowerName.toList)

def lookup {δ : Type} (tbl : List (String × δ)) (q : String) : Option δ :=
  (tbl.find? (fun e => e.1 == q)).map (·.2)

/-- `if name in self.symbols: duplicate-symbol … else: self.symbols[name] = …`: `none` = duplicate -/
def define {δ : Type} (tbl : List (String × δ)) (q : String) (d : δ) : Option (List (String × δ)) :=
  match lookup tbl q with
  | some _ => none
  | none => some (tbl ++ [(q, d)])

/-- `Symbol._resolve`: own local scope, then own file, then the exported symbol of that name -/
def resolve {δ : Type} (syms : List (String × δ)) (externs : List (String × String)) (ql qi lowerName : String) : Option δ :=
  match lookup syms ql with
  | some d => some d
  | none =>
    match lookup syms qi with
    | some d => some d
    | none =>
      match lookup externs lowerName with
      | some q => lookup syms q
      | none => none

/-- the qualified name `resolve` binds to -/
def resolveQ {δ : Type} (syms : List (String × δ)) (externs : List (String × String)) (ql qi lowerName : String) : Option String :=
  if (lookup syms ql).isSome then some ql
  else if (lookup syms qi).isSome then some qi
  else match lookup externs lowerName with
    | some q => if (lookup syms q).isSome then some q else none
    | none => none

end Pdpy11.Model.Scope
