import Pdpy11.Model.Basic
/-
The abstract syntax produced by `parser.py` (`types.py`, `operators.py` token classes),
with the source span (`ctx_start.pos`, `ctx_end.pos`) of every token.
-/
namespace Pdpy11.Model.Syntax

structure Span where
  s : Nat
  e : Nat
deriving Repr, DecidableEq, Inhabited

inductive Expr
  /-- `types.Number(representation, value, is_valid_label, invalid_base8)` -/
  | num (sp : Span) (repr : String) (value : Int) (validLabel invalidBase8 : Bool)
  /-- `types.Symbol(name, is_necessarily_label)` -/
  | sym (sp : Span) (name : String) (isLabel : Bool)
  /-- `types.InstructionPointer` -/
  | dot (sp : Span)
  /-- `types.ParenthesizedExpression`; `opening` is `(`, `<` or `^x` -/
  | paren (sp : Span) (opening : String) (e : Expr)
  /-- `types.CharLiteral(representation, string)` -/
  | chr (sp : Span) (repr : String) (s : List Nat)
  /-- infix operators, by Python function name (`add`, `call`, …) -/
  | infix (sp : Span) (fname : String) (l r : Expr)
  | pre (sp : Span) (fname : String) (e : Expr)
  | post (sp : Span) (fname : String) (e : Expr)
deriving Repr, Inhabited

def Expr.span : Expr → Span
  | .num sp .. | .sym sp .. | .dot sp | .paren sp .. | .chr sp .. | .infix sp .. | .pre sp .. | .post sp .. => sp

/-- string operand chunks (`QuotedString`, `AngleBracketedChar`) -/
inductive SChunk
  | quoted (sp : Span) (quote : String) (s : List Nat)
  | angle (sp : Span) (e : Expr)
deriving Repr, Inhabited

mutual
  inductive Operand
    | expr (e : Expr)
    /-- `long_string`: one chunk, or a `StringConcatenation` -/
    | str (sp : Span) (chunks : List SChunk)
    | block (sp : Span) (body : List Stmt)
  inductive Stmt
    | label (sp : Span) (name : String) (isExtern : Bool)
    | assign (sp : Span) (target : String) (targetSp : Span) (value : Expr) (isExtern : Bool)
    | dotAssign (sp : Span) (value : Expr)
    | insn (sp : Span) (name : String) (nameSp : Span) (operands : List Operand)
    | words (sp : Span) (ws : List Expr)
end

instance : Inhabited Operand := ⟨.str ⟨0, 0⟩ []⟩
instance : Inhabited Stmt := ⟨.words ⟨0, 0⟩ []⟩

structure File where
  filename : String
  body : List Stmt

/-! ### canonical text form (compared with the implementation's AST) -/

def showSpan (sp : Span) : String := s!"{sp.s}:{sp.e}"
def showB (b : Bool) : String := if b then "1" else "0"
def hexStr (s : String) : String :=
  if s.isEmpty then "-" else ".".intercalate (s.toList.map (fun c => toString c.toNat))
def showCps (l : List Nat) : String := if l.isEmpty then "-" else ".".intercalate (l.map toString)

partial def showExpr : Expr → String
  | .num sp r v vl ib => s!"(num {showSpan sp} {hexStr r} {v} {showB vl} {showB ib})"
  | .sym sp n l => s!"(sym {showSpan sp} {hexStr n} {showB l})"
  | .dot sp => s!"(dot {showSpan sp})"
  | .paren sp o e => s!"(paren {showSpan sp} {hexStr o} {showExpr e})"
  | .chr sp r s => s!"(chr {showSpan sp} {hexStr r} {showCps s})"
  | .infix sp f l r => s!"(infix {showSpan sp} {f} {showExpr l} {showExpr r})"
  | .pre sp f e => s!"(pre {showSpan sp} {f} {showExpr e})"
  | .post sp f e => s!"(post {showSpan sp} {f} {showExpr e})"

def showChunk : SChunk → String
  | .quoted sp q s => s!"(q {showSpan sp} {hexStr q} {showCps s})"
  | .angle sp e => s!"(a {showSpan sp} {showExpr e})"

mutual
  partial def showOperand : Operand → String
    | .expr e => showExpr e
    | .str sp chunks =>
      match chunks with
      | [c] => s!"(str1 {showChunk c})"
      | _ => s!"(str {showSpan sp} {" ".intercalate (chunks.map showChunk)})"
    | .block sp body => s!"(block {showSpan sp} {" ".intercalate (body.map showStmt)})"
  partial def showStmt : Stmt → String
    | .label sp n x => s!"(label {showSpan sp} {hexStr n} {showB x})"
    | .assign sp t tsp v x => s!"(assign {showSpan sp} {hexStr t} {showSpan tsp} {showExpr v} {showB x})"
    | .dotAssign sp v => s!"(dotassign {showSpan sp} {showExpr v})"
    | .insn sp n nsp ops => s!"(insn {showSpan sp} {hexStr n} {showSpan nsp} {" ".intercalate (ops.map showOperand)})"
    | .words sp ws => s!"(words {showSpan sp} {" ".intercalate (ws.map showExpr)})"
end

end Pdpy11.Model.Syntax
