import Pdpy11.Driver.Proto
import Pdpy11.Driver.Rad50
namespace Pdpy11.Driver

def handle (line : String) : String :=
  match (line.splitOn " ").filter (· ≠ "") with
  | [] => "bad-op"
  | verb :: args =>
    match verb with
    | "rad50" => handleRad50 args
    | "caretr" => handleCaretR args
    | "r50dec" => handleR50Dec args
    | "ping" => "pong"
    | _ => "bad-op"

end Pdpy11.Driver
