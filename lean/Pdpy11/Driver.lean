import Pdpy11.Driver.Proto
import Pdpy11.Driver.Rad50
import Pdpy11.Driver.Bk
import Pdpy11.Driver.Insn
import Pdpy11.Driver.Ea
import Pdpy11.Driver.Directive
import Pdpy11.Driver.Dec
import Pdpy11.Driver.Container
import Pdpy11.Driver.Listing
import Pdpy11.Driver.Parse
import Pdpy11.Driver.Expr
import Pdpy11.Driver.LineCol
import Pdpy11.Driver.State
import Pdpy11.Driver.Cli
import Pdpy11.Driver.Asm
import Pdpy11.Driver.Defs
import Pdpy11.Driver.Layout
import Pdpy11.Driver.Shunt
import Pdpy11.Driver.Poly
import Pdpy11.Driver.Thunk
import Pdpy11.Driver.Await
import Pdpy11.Driver.Path
namespace Pdpy11.Driver

def handle (line : String) : String :=
  match (line.splitOn " ").filter (· ≠ "") with
  | [] => "bad-op"
  | verb :: args =>
    match verb with
    | "rad50" => handleRad50 args
    | "caretr" => handleCaretR args
    | "r50dec" => handleR50Dec args
    | "bkenc" => handleBkEnc args
    | "bkdec" => handleBkDec args
    | "insn" => handleInsn args
    | "ea" => handleEa args
    | "dir" => handleDir args
    | "wlist" => handleWordList args
    | "asize" => handleAnnounced args
    | "dec" => handleDec args
    | "canon" => handleCanon args
    | "wavhash" => handleWavHash args
    | "bin" => handleBin args
    | "wavread" => handleWavRead args
    | "lst" => handleLst args
    | "lstpath" => handleLstPath args
    | "parse" => handleParse args
    | "expr" => handleExpr args
    | "tree" => handleTree args
    | "linecol" => handleLineCol args
    | "state" => handleState args
    | "cli" => handleCli args
    | "asm" => handleAsm args
    | "defs" => handleDefs args
    | "layout" => handleLayout args
    | "shunt" => handleShunt args
    | "shuntp" => handleShuntP args
    | "poly" => handlePoly args
    | "thunk" => handleThunk args
    | "await" => handleAwait args
    | "respath" => handleResPath args
    | "tapename" => handleTapeName args
    | "ping" => "pong"
    | _ => "bad-op"

end Pdpy11.Driver
