import Pdpy11.Spec.Isa
/-
C01, thorough tier only (≈ 12 min of kernel evaluation, not part of the default build): the
independent ISA decoder inverts the ISA encoding at the level of the opcode word, for every
canonical instruction and *every* combination of field values (60 k words) — complete
evaluation, no sampling.  Together with `C01.opcode_word_is_isa_encoding` (the word
`get_opcode` produces is that encoding, for all operand values): the decoder recovers the
operation and the field values from what the assembler emits.
-/
namespace Pdpy11.Deep.C01Decode
open Pdpy11.Spec.Isa

/-- all tuples of field values -/
def tuples : List Field → List (List Nat)
  | [] => [[]]
  | f :: rest => (List.range (2 ^ f.width)).flatMap (fun v => (tuples rest).map (v :: ·))

/-- the ISA encoding: base opcode plus every field value at its position -/
def enc (b : Nat) : List Field → List Nat → Nat
  | f :: fs, v :: vs => enc (b + v * 2 ^ f.shift) fs vs
  | _, _ => b

def extractOk (c : Canon) : Bool :=
  (tuples (fields c.fmt)).all (fun us =>
    let w := enc c.base (fields c.fmt) us
    matchesCanon c w && ((fields c.fmt).map (fieldOf w) == us))

/-- the encoded word matches its own entry and every field reads back as the value put in -/
theorem fields_read_back : canon.all extractOk = true := by decide +kernel

def findOk (c : Canon) : Bool :=
  (tuples (fields c.fmt)).all (fun us =>
    let w := enc c.base (fields c.fmt) us
    (canon.find? (fun c' => matchesCanon c' w)).map (·.name) == some c.name)

/-- the decoder's table search finds exactly the instruction that was encoded -/
theorem decoder_finds_the_instruction : canon.all findOk = true := by decide +kernel

end Pdpy11.Deep.C01Decode
