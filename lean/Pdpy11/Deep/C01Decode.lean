import Pdpy11.Spec.Isa
/-
C01, thorough tier (about a minute of checking, most of it the pairwise table fact): the independent ISA decoder inverts the
ISA encoding at the level of the opcode word, for every canonical instruction and *every* combination of field values.
Proved, not enumerated: the operand fields of every format fill the low `bits` bits of the word (`clear_eq`, by arithmetic
for each of the 16 formats), so a word matches an entry exactly when it lies in `[base, base + 2^bits)` (`matches_iff`);
the encoded word lies in the range of its own entry (`in_range`); and the ranges of entries with different names do not
meet (`table_apart`, one kernel evaluation over the pairs of the table).  An earlier version evaluated all 63 735 words in the
kernel: 45 minutes and 18 GB.  Together with `C01.opcode_word_is_isa_encoding` (the word `get_opcode` produces is that
encoding, for all operand values): the decoder recovers the operation and the field values from what the assembler emits.
-/
namespace Pdpy11.Deep.C01Decode
open Pdpy11.Spec.Isa

def tuples : List Field → List (List Nat)
  | [] => [[]]
  | f :: rest => (List.range (2 ^ f.width)).flatMap (fun v => (tuples rest).map (v :: ·))

def enc (b : Nat) : List Field → List Nat → Nat
  | f :: fs, v :: vs => enc (b + v * 2 ^ f.shift) fs vs
  | _, _ => b

def extractOk (c : Canon) : Bool :=
  (tuples (fields c.fmt)).all (fun us =>
    let w := enc c.base (fields c.fmt) us
    matchesCanon c w && ((fields c.fmt).map (fieldOf w) == us))

def findOk (c : Canon) : Bool :=
  (tuples (fields c.fmt)).all (fun us =>
    let w := enc c.base (fields c.fmt) us
    (canon.find? (fun c' => matchesCanon c' w)).map (·.name) == some c.name)

/-- the operand fields of every format fill the low `bits` bits of the word -/
def bits : Fmt → Nat
  | .none => 0 | .dd => 6 | .ssdd => 12 | .rdd => 9 | .ssr => 9 | .r => 3 | .n3 => 3 | .n6 => 6 | .n8 => 8
  | .br8 => 8 | .rbr6 => 9 | .fop => 6 | .fsrcac => 8 | .acfdst => 8 | .srcac => 8 | .acdst => 8

theorem clear_eq (fmt : Fmt) (w : Nat) : clearFields w (fields fmt) = w / 2 ^ bits fmt * 2 ^ bits fmt := by
  cases fmt <;> simp [fields, clearFields, fieldOf, bits] <;> omega

theorem tuples_shape (fmt : Fmt) (b : Nat) (us : List Nat) (h : us ∈ tuples (fields fmt)) :
    enc 0 (fields fmt) us < 2 ^ bits fmt ∧ enc b (fields fmt) us = b + enc 0 (fields fmt) us ∧
      (b % 2 ^ bits fmt = 0 → (fields fmt).map (fieldOf (b + enc 0 (fields fmt) us)) = us) := by
  cases fmt <;> simp only [fields, tuples, List.mem_flatMap, List.mem_range, List.mem_map, List.mem_singleton] at h
  case none =>
    subst h; simp [bits, enc, fields]
  case dd | r | n3 | n6 | n8 | br8 | fop =>
    obtain ⟨v1, h1, _, rfl, rfl⟩ := h
    refine ⟨?_, ?_, ?_⟩ <;> simp [fields, bits, enc, fieldOf] at * <;> omega
  case ssdd | rdd | ssr | rbr6 | fsrcac | acfdst | srcac | acdst =>
    obtain ⟨v1, h1, _, ⟨v2, h2, _, rfl, rfl⟩, rfl⟩ := h
    refine ⟨?_, ?_, ?_⟩ <;> simp [fields, bits, enc, fieldOf] at * <;> omega

/-- table facts, evaluated once over the 215 entries (and their pairs): every base opcode leaves the operand bits free, and
the ranges of words `[base, base + 2^bits)` of two entries with different names do not meet -/
def aligned (c : Canon) : Bool := c.base % 2 ^ bits c.fmt == 0
def apart (c c' : Canon) : Bool := c.name == c'.name || c.base + 2 ^ bits c.fmt ≤ c'.base || c'.base + 2 ^ bits c'.fmt ≤ c.base

theorem table_aligned : canon.all aligned = true := by decide +kernel
theorem table_apart : canon.all (fun c => canon.all (apart c)) = true := by decide +kernel

/-- a word matches an entry exactly when it lies in the entry's range -/
theorem matches_iff (c : Canon) (w : Nat) (ha : aligned c = true) :
    matchesCanon c w = true ↔ c.base ≤ w ∧ w < c.base + 2 ^ bits c.fmt := by
  obtain ⟨name, base, fmt⟩ := c
  simp only [matchesCanon, clear_eq, aligned, beq_iff_eq] at *
  cases fmt <;> simp [bits] at * <;> omega

theorem in_range (c : Canon) (us : List Nat) (h : us ∈ tuples (fields c.fmt)) :
    c.base ≤ enc c.base (fields c.fmt) us ∧ enc c.base (fields c.fmt) us < c.base + 2 ^ bits c.fmt := by
  obtain ⟨h1, h2, _⟩ := tuples_shape c.fmt c.base us h
  omega

/-- the encoded word matches its own entry and every field reads back as the value put in — for every entry and every
combination of field values -/
theorem fields_read_back : canon.all extractOk = true := by
  rw [List.all_eq_true]
  intro c hc
  have ha : aligned c = true := List.all_eq_true.mp table_aligned c hc
  simp only [extractOk, List.all_eq_true, Bool.and_eq_true, beq_iff_eq]
  intro us hus
  obtain ⟨h1, h2, h3⟩ := tuples_shape c.fmt c.base us hus
  refine ⟨(matches_iff c _ ha).mpr (in_range c us hus), ?_⟩
  rw [h2]
  exact h3 (by simpa [aligned] using ha)

/-- the decoder's table search finds exactly the instruction that was encoded — for every entry and every combination of
field values -/
theorem decoder_finds_the_instruction : canon.all findOk = true := by
  rw [List.all_eq_true]
  intro c hc
  have ha : aligned c = true := List.all_eq_true.mp table_aligned c hc
  simp only [findOk, List.all_eq_true]
  intro us hus
  have hr := in_range c us hus
  generalize enc c.base (fields c.fmt) us = w at hr
  cases hf : canon.find? (fun c' => matchesCanon c' w) with
  | none =>
    have := List.find?_eq_none.mp hf c hc
    simp [(matches_iff c w ha).mpr hr] at this
  | some c' =>
    have hm : matchesCanon c' w = true := by simpa using List.find?_some hf
    have hc' : c' ∈ canon := List.mem_of_find?_eq_some hf
    have ha' : aligned c' = true := List.all_eq_true.mp table_aligned c' hc'
    have hr' := (matches_iff c' w ha').mp hm
    have hap : apart c c' = true := List.all_eq_true.mp (List.all_eq_true.mp table_apart c hc) c' hc'
    simp only [apart, Bool.or_eq_true, beq_iff_eq, decide_eq_true_eq] at hap
    simp only [Option.map_some, beq_iff_eq, Option.some.injEq]
    rcases hap with (h | h) | h
    · exact h.symm
    · omega
    · omega

end Pdpy11.Deep.C01Decode
