import Pdpy11.Model.Insn
import Pdpy11.Spec.Ea
/-
C04 — branches, SOB and PC-relative operands hit their target or are rejected.
All statements are over unbounded `Int` distances and addresses.
-/
namespace Pdpy11.Props.C04
open Pdpy11 Pdpy11.Model Pdpy11.Model.Insn Pdpy11.Gen

/-! ### which fields the table has -/

/-- every branch-offset stub of the regenerated table is an 8-bit signed field `o`
    (bits 7…0) or the 6-bit unsigned field `O` (bits 5…0) -/
theorem offset_widths :
    Gen.opcodes.all (fun e => e.stubs.all (fun s =>
      s.cls != .offset ||
      (s.ch == 'o' && s.bits == [7, 6, 5, 4, 3, 2, 1, 0] && !s.unsigned) ||
      (s.ch == 'O' && s.bits == [5, 4, 3, 2, 1, 0] && s.unsigned))) = true := by
  decide +kernel

/-- an offset stub is the only stub of its instruction that needs the address, it comes
    last, and no extension word precedes it (so `rel_address = emit_address + 2`) -/
theorem offset_stub_is_last_and_first_ext :
    Gen.opcodes.all (fun e => e.stubs.all (fun s => s.cls != .offset) ||
      (match e.stubs.reverse with
       | s :: rest => s.cls == .offset && rest.all (fun t => t.cls == .register)
       | [] => false)) = true := by
  decide +kernel

/-! ### branches (8-bit signed field) -/

/-- closed form of the branch field computation -/
theorem offsetField_signed8 (d : Int) :
    offsetField 8 false d =
      if -256 ≤ d ∧ d ≤ 254 ∧ d % 2 = 0 then (d / 2, [])
      else (0, (if -256 ≤ d ∧ d ≤ 254 then [] else ["branch-out-of-bounds"]) ++
               (if d % 2 = 1 then ["odd-branch"] else [])) := by
  unfold offsetField
  by_cases h1 : -256 ≤ d ∧ d ≤ 254 <;> by_cases h2 : d % 2 = 1
  all_goals (have h3 : (d % 2 = 0) = ¬ (d % 2 = 1) := by (apply propext; omega))
  all_goals simp [h1, h2, h3]
  all_goals omega

/-- accepted ⇔ the offset is even and within −256 … +254 -/
theorem br_accept_iff (d : Int) :
    (offsetField 8 false d).2 = [] ↔ (-256 ≤ d ∧ d ≤ 254 ∧ d % 2 = 0) := by
  rw [offsetField_signed8]
  by_cases h : -256 ≤ d ∧ d ≤ 254 ∧ d % 2 = 0
  · simp [h]
  · simp only [h, ↓reduceIte, iff_false]
    by_cases h1 : -256 ≤ d ∧ d ≤ 254 <;> by_cases h2 : d % 2 = 1 <;> simp [h1, h2]
    omega

/-- the value substituted into the word is its low 8 bits; an accepted branch at
    address `a` to target `t` decodes to exactly `t` -/
theorem br_hits (a t : Int) (h : (offsetField 8 false (t - (a + 2))).2 = []) :
    Spec.eaBranch a (((offsetField 8 false (t - (a + 2))).1 % 256).toNat) = t := by
  have hr := (br_accept_iff _).mp h
  rw [offsetField_signed8]
  simp only [hr, and_self, ↓reduceIte]
  unfold Spec.eaBranch Spec.sext8
  generalize hd : t - (a + 2) = d at *
  have : t = d + a + 2 := by omega
  subst this
  split <;> omega

/-- out of reach or odd ⇒ an error is reported (and the field is 0, never a wrapped value) -/
theorem br_never_truncates (d : Int) (h : ¬ (-256 ≤ d ∧ d ≤ 254 ∧ d % 2 = 0)) :
    (offsetField 8 false d).2 ≠ [] ∧ (offsetField 8 false d).1 = 0 := by
  refine ⟨fun hh => h ((br_accept_iff d).mp hh), ?_⟩
  rw [offsetField_signed8]; simp [h]

/-! ### SOB (6-bit unsigned field, backwards only) -/

theorem offsetField_unsigned6 (d : Int) :
    offsetField 6 true d =
      if -126 ≤ d ∧ d ≤ 0 ∧ d % 2 = 0 then (-d / 2, [])
      else (0, (if -126 ≤ d ∧ d ≤ 0 then [] else ["branch-out-of-bounds"]) ++
               (if d % 2 = 1 then ["odd-branch"] else [])) := by
  unfold offsetField
  by_cases h0 : d > 0 <;> by_cases h1 : -126 ≤ d ∧ d ≤ 0 <;> by_cases h2 : d % 2 = 1
  all_goals (have h3 : (d % 2 = 0) = ¬ (d % 2 = 1) := by (apply propext; omega))
  all_goals simp [h0, h1, h2, h3]
  all_goals omega

theorem sob_accept_iff (d : Int) :
    (offsetField 6 true d).2 = [] ↔ (-126 ≤ d ∧ d ≤ 0 ∧ d % 2 = 0) := by
  rw [offsetField_unsigned6]
  by_cases h : -126 ≤ d ∧ d ≤ 0 ∧ d % 2 = 0
  · simp [h]
  · simp only [h, ↓reduceIte, iff_false]
    by_cases h1 : -126 ≤ d ∧ d ≤ 0 <;> by_cases h2 : d % 2 = 1 <;> simp [h1, h2]
    omega

theorem sob_hits (a t : Int) (h : (offsetField 6 true (t - (a + 2))).2 = []) :
    Spec.eaSob a (((offsetField 6 true (t - (a + 2))).1 % 64).toNat) = t := by
  have hr := (sob_accept_iff _).mp h
  rw [offsetField_unsigned6]
  simp only [hr, and_self, ↓reduceIte]
  unfold Spec.eaSob
  generalize hd : t - (a + 2) = d at *
  have : t = d + a + 2 := by omega
  subst this
  omega

theorem sob_never_truncates (d : Int) (h : ¬ (-126 ≤ d ∧ d ≤ 0 ∧ d % 2 = 0)) :
    (offsetField 6 true d).2 ≠ [] ∧ (offsetField 6 true d).1 = 0 := by
  refine ⟨fun hh => h ((sob_accept_iff d).mp hh), ?_⟩
  rw [offsetField_unsigned6]; simp [h]

/-! ### PC-relative operands -/

/-- the displacement word stored at address `xa` (= `rel_address`) makes the processor
    compute the target, for every target and address, modulo 2¹⁶ -/
theorem rel_hits (t xa : Int) : Spec.eaRel xa (relWord t xa) = t % 65536 := by
  unfold Spec.eaRel relWord
  have h : 0 ≤ (t - xa - 2) % 65536 := Int.emod_nonneg _ (by omega)
  rw [Int.toNat_of_nonneg h]
  omega

/-- a relative displacement is always a 16-bit word -/
theorem relWord_lt (t xa : Int) : relWord t xa < 65536 := by
  unfold relWord
  have h : (t - xa - 2) % 65536 < 65536 := Int.emod_lt_of_pos _ (by omega)
  have h0 : 0 ≤ (t - xa - 2) % 65536 := Int.emod_nonneg _ (by omega)
  omega

/-! ### `rel_address` is the address of the operand's own extension word -/

/-- Invariant of `encodeOperands`: if the words emitted so far are `ext` (after the opcode
    word at `emit`), the next operand is encoded with `rel = emit + 2 + 2·|ext|`, i.e. the
    address at which its own extension word (if any) will lie. -/
theorem rel_address_is_ext_address (emit : Int) (s : StubG) (op : Operand) (rest : List (StubG × Operand))
    (repl : List (StubG × Int)) (ext : List Nat) :
    encodeOperands emit ((s, op) :: rest) repl ext =
      (do let (v, e) ← encodeStub s op (emit + 2 + 2 * ext.length)
          encodeOperands emit rest (repl ++ [(s, v)]) (ext ++ e)) := by
  rfl

/-- a CPU operand in relative mode emits exactly one extension word, the displacement
    to the target from the address that word occupies -/
theorem relative_operand_word (t rel : Int) :
    (encodeRM (.expr t) rel).run.r = .ok (0o67, [relWord t rel]) ∧
    (encodeRM (.exprDef t) rel).run.r = .ok (0o77, [relWord t rel]) := by
  constructor <;> rfl

/-! ### non-vacuity -/
example : (offsetField 8 false (-256)).2 = [] ∧ (offsetField 8 false 254).2 = [] := by decide
example : (offsetField 8 false 256).2 ≠ [] ∧ (offsetField 8 false (-258)).2 ≠ [] ∧ (offsetField 8 false 3).2 ≠ [] := by decide
example : (offsetField 6 true (-126)).2 = [] ∧ (offsetField 6 true 2).2 ≠ [] := by decide
example : Spec.eaRel 0o177776 (relWord 4 0o177776) = 4 := by decide

end Pdpy11.Props.C04
