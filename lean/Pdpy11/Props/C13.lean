import Pdpy11.Model.Container
import Pdpy11.Spec.Tape
/-
C13 — output containers carry exactly the image.
-/
namespace Pdpy11.Props.C13
open Pdpy11 Pdpy11.Model Pdpy11.Model.Container Pdpy11.Gen Pdpy11.Spec.Tape

/-! ### raw and bin -/

theorem raw_id (base : Nat) (code : Bytes) : raw base code = code := rfl

/-- bin = base and length as little-endian words, then the bytes -/
theorem bin_layout (base : Nat) (code : Bytes) (hb : base < 65536) (hl : code.length < 65536) :
    ∃ f, bin base code = some f ∧ f.length = 4 + code.length ∧
      rd16 f = base ∧ rd16 (f.drop 2) = code.length ∧ f.drop 4 = code := by
  refine ⟨le16 base ++ le16 code.length ++ code, by simp [bin, hb, hl], by simp [le16]; omega, ?_, ?_, by simp [le16]⟩
  · simp [rd16, le16]; omega
  · simp [rd16, le16]; omega

/-- an image or base that does not fit the 16-bit header fields is not written as something else -/
theorem bin_refuses (base : Nat) (code : Bytes) (h : ¬ (base < 65536 ∧ code.length < 65536)) :
    bin base code = none := by simp [bin, h]

/-! ### RIFF -/

theorem rd32_le32 (n : Nat) (h : n < 4294967296) (rest : List Nat) : rd32 (le32 n ++ rest) = n := by
  simp [rd32, le32]; omega

theorem rd16_le16 (n : Nat) (h : n < 65536) (rest : List Nat) : rd16 (le16 n ++ rest) = n := by
  simp [rd16, le16]; omega

/-- the file is a well-formed 8-bit mono PCM RIFF/WAVE file whose data chunk is exactly the pulse train -/
theorem riff_wellformed (data : Bytes) (rate : Nat) (hr : rate < 4294967296) (hl : data.length + 36 < 4294967296) :
    parseRiff (makeWavFile data rate) = some ⟨1, rate, 8, data⟩ := by
  have e1 : (36 + data.length) % 256 + 256 * ((36 + data.length) / 256 % 256) + 65536 * ((36 + data.length) / 65536 % 256) +
      16777216 * ((36 + data.length) / 16777216 % 256) = 36 + data.length := by omega
  have e2 : data.length % 256 + 256 * (data.length / 256 % 256) + 65536 * (data.length / 65536 % 256) +
      16777216 * (data.length / 16777216 % 256) = data.length := by omega
  have e3 : rate % 256 + 256 * (rate / 256 % 256) + 65536 * (rate / 65536 % 256) + 16777216 * (rate / 16777216 % 256) = rate := by omega
  simp [parseRiff, makeWavFile, ascii, le32, le16, rd32, rd16, e1, e2, e3]
  omega

/-! ### the BK checksum -/

/-- closed form of the end-around-carry accumulator after a total of `t` -/
def eacOf (t : Nat) : Nat := if t = 0 then 0 else (t - 1) % 65535 + 1

theorem eacStep_eacOf (t b : Nat) (hb : b < 256) : eacStep (eacOf t) b = eacOf (t + b) := by
  unfold eacStep eacOf
  by_cases ht : t = 0
  · subst ht
    by_cases hb0 : b = 0
    · subst hb0; simp
    · have : ¬ 0 + b = 0 := by omega
      simp only [↓reduceIte, this]
      split <;> omega
  · by_cases hb0 : b = 0
    · subst hb0; simp [ht]; omega
    · have : ¬ t + b = 0 := by omega
      simp only [ht, this, ↓reduceIte]
      split <;> omega

theorem foldl_eac (code : Bytes) (t : Nat) (h : ∀ b ∈ code, b < 256) :
    code.foldl eacStep (eacOf t) = eacOf (t + sum code) := by
  induction code generalizing t with
  | nil => simp [sum]
  | cons b r ih =>
    have hb := h b (by simp)
    have hr : ∀ x ∈ r, x < 256 := fun x hx => h x (by simp [hx])
    simp only [List.foldl_cons]
    rw [eacStep_eacOf t b hb, ih (t + b) hr]
    have : sum (b :: r) = b + sum r := by
      simp only [sum, List.foldl_cons]
      have key : ∀ (l : List Nat) (a : Nat), l.foldl (· + ·) a = a + l.foldl (· + ·) 0 := by
        intro l
        induction l with
        | nil => simp
        | cons x xs ihx => intro a; simp only [List.foldl_cons]; rw [ihx (a + x), ihx (0 + x)]; omega
      rw [key r (0 + b)]; omega
    rw [this]; congr 1; omega

/-- **The checksum the assembler stores is the BK-0010 end-around-carry sum**, for every block -/
theorem checksum_eq_eac (code : Bytes) (h : ∀ b ∈ code, b < 256) : checksum code = eac code := by
  have := foldl_eac code 0 h
  simp only [eacOf, ↓reduceIte, Nat.zero_add] at this
  unfold eac checksum
  rw [this]

theorem checksum_lt (code : Bytes) : checksum code < 65536 := by
  unfold checksum; simp only; split <;> omega

/-! ### the pulse train -/

/-- bits are emitted least significant first: reading 8 bits back in that order gives the byte -/
theorem byte_bits_lsb_first (b : Nat) (hb : b < 256) :
    bitsToBytes ((List.range 8).map (fun i => decide (b / 2 ^ i % 2 = 1))) = [b] := by
  have hall : (List.range 256).all (fun b => bitsToBytes ((List.range 8).map (fun i => decide (b / 2 ^ i % 2 = 1))) == [b]) = true := by
    decide +kernel
  have := List.all_eq_true.mp hall b (List.mem_range.mpr hb)
  simpa using this

/-- the tape header is base, length and the 16-byte name -/
theorem tape_header_layout (base : Nat) (code name : Bytes) (hb : base < 65536) (hl : code.length < 65536) :
    (tapeHeader base code name).length = 20 ∧ rd16 (tapeHeader base code name) = base ∧
    rd16 ((tapeHeader base code name).drop 2) = code.length ∧
    ((tapeHeader base code name).drop 4).take 16 = name16 name := by
  have hn : (name16 name).length = 16 := by simp [name16]
  refine ⟨by simp [tapeHeader, le16, hn], ?_, ?_, ?_⟩
  · simp [tapeHeader, rd16, le16]; omega
  · simp [tapeHeader, rd16, le16]; omega
  · simp [tapeHeader, le16, ← hn]

/-- composition of the file: RIFF header, then pilot+marker, header bits, pause, data bits,
    (turbo: pause,) checksum bits, trailer -/
theorem wav_structure (turbo : Bool) (base : Nat) (code name : Bytes) (hb : base < 65536) (hl : code.length < 65536) :
    encodeAsWav turbo base code name =
      some (makeWavFile (pulseTrain (if turbo then wavTurboEnv else wavEnv) turbo base code name)
        (if turbo then wavTurboEnv else wavEnv).sampleRate) := by
  simp [encodeAsWav, hb, hl]

/-! ### the regenerated pulse shapes, read by the independent pulse detector -/

/-- normal speed: a zero is (sync, short), a one is (sync, long); the marker is an 8-sample
    pulse followed by a long one; pilot (4096 periods), short pilot and trailer are short pulses -/
theorem normal_shapes :
    pulses (expandRle wavEnv.zero) = [(2, 2), (2, 2)] ∧
    pulses (expandRle wavEnv.one) = [(2, 2), (4, 4)] ∧
    pulses (expandRle wavEnv.pause) = List.replicate 10 (2, 2) ++ [(8, 8), (4, 4)] ∧
    wavEnv.sync = ([([(200, 2), (48, 2)], 4096), ([(200, 8)], 1), ([(48, 8)], 1), ([(208, 4)], 1), ([(48, 4)], 1)] ++ wavEnv.pause) ∧
    wavEnv.eof = [([(200, 2), (48, 2)], 200)] ∧ wavEnv.sampleRate = 21428 := by
  decide +kernel

theorem turbo_shapes :
    pulses (expandRle wavTurboEnv.zero) = [(1, 2)] ∧
    pulses (expandRle wavTurboEnv.one) = [(3, 2)] ∧
    pulses (expandRle wavTurboEnv.pause) = [(0, 4)] ∧
    wavTurboEnv.sync = [([(200, 3), (48, 3)], 1024), ([(200, 12)], 1), ([(48, 12)], 1)] ∧
    pulses (expandRle wavTurboEnv.eof) = [(3, 3), (3, 3)] ∧ wavTurboEnv.sampleRate = 40000 := by
  decide +kernel

/-! ### non-vacuity -/
example : checksum (List.replicate 257 255) = 65535 ∧ eac (List.replicate 257 255) = 65535 := by decide +kernel
example : bin 0o1000 [1, 2, 3] = some [0, 2, 3, 0, 1, 2, 3] := by decide

/-! ## part B -/
open Pdpy11.Gen

/-- the bits of a byte string as the tape carries them: byte by byte, least significant bit first -/
def bitsOf (bytes : List Nat) : List Bool :=
  bytes.flatMap (fun b => (List.range 8).map (fun i => decide (b / 2 ^ i % 2 = 1)))

theorem bitsOf_length (bytes : List Nat) : (bitsOf bytes).length = 8 * bytes.length := by
  induction bytes with
  | nil => rfl
  | cons b t ih => simp [bitsOf] at *; omega

theorem bitsToBytes_cons8 (b0 b1 b2 b3 b4 b5 b6 b7 : Bool) (rest : List Bool) :
    bitsToBytes (b0 :: b1 :: b2 :: b3 :: b4 :: b5 :: b6 :: b7 :: rest) =
      bitsToBytes [b0, b1, b2, b3, b4, b5, b6, b7] ++ bitsToBytes rest := by
  simp [bitsToBytes]

/-- reading the bits back gives the bytes -/
theorem bitsToBytes_bitsOf (bytes : List Nat) (h : ∀ b ∈ bytes, b < 256) : bitsToBytes (bitsOf bytes) = bytes := by
  induction bytes with
  | nil => rfl
  | cons b t ih =>
    have hb := byte_bits_lsb_first b (h b (by simp))
    have ht := ih (fun x hx => h x (by simp [hx]))
    simp only [bitsOf, List.flatMap_cons] at *
    have h8 : (List.range 8).map (fun i => decide (b / 2 ^ i % 2 = 1)) =
        [decide (b / 2 ^ 0 % 2 = 1), decide (b / 2 ^ 1 % 2 = 1), decide (b / 2 ^ 2 % 2 = 1), decide (b / 2 ^ 3 % 2 = 1),
         decide (b / 2 ^ 4 % 2 = 1), decide (b / 2 ^ 5 % 2 = 1), decide (b / 2 ^ 6 % 2 = 1), decide (b / 2 ^ 7 % 2 = 1)] := by
      simp [List.range, List.range.loop]
    rw [h8] at hb ⊢
    simp only [List.cons_append, List.nil_append]
    rw [bitsToBytes_cons8, hb, ht]
    rfl

/-! ### turbo: one pulse per bit -/

/-- a pulse list that carries the given bits in the turbo format: high phase at most 4 samples,
at least 2 for a one (the low phase is irrelevant) -/
def TurboFor : List Bool → List (Nat × Nat) → Prop
  | [], [] => True
  | b :: bs, p :: ps => p.1 ≤ 4 ∧ decide (p.1 ≥ 2) = b ∧ TurboFor bs ps
  | _, _ => False

theorem readBitsTurbo_ideal (bits : List Bool) (ps rest : List (Nat × Nat)) (h : TurboFor bits ps) :
    readBitsTurbo bits.length (ps ++ rest) = some (bits, rest) := by
  induction bits generalizing ps with
  | nil => cases ps with
    | nil => rfl
    | cons p ps => simp [TurboFor] at h
  | cons b bs ih =>
    cases ps with
    | nil => simp [TurboFor] at h
    | cons p ps =>
      obtain ⟨h1, h2, h3⟩ := h
      simp only [List.length_cons, List.cons_append, readBitsTurbo, h1, if_true]
      rw [ih ps h3]
      simp [h2]

theorem skipToMarker_pilot (m : Nat) (pilot : List (Nat × Nat)) (marker : Nat × Nat) (rest : List (Nat × Nat))
    (hp : ∀ p ∈ pilot, p.1 < m) (hm : marker.1 ≥ m) :
    skipToMarker m (pilot ++ marker :: rest) = some (pilot.length, rest) := by
  induction pilot with
  | nil => simp [skipToMarker, hm]
  | cons p t ih =>
    have : ¬ p.1 ≥ m := by have := hp p (by simp); omega
    simp only [List.cons_append, skipToMarker, this, if_false]
    rw [ih (fun x hx => hp x (by simp [hx]))]
    simp

theorem TurboFor_append (b1 b2 : List Bool) (p1 p2 : List (Nat × Nat)) (h1 : TurboFor b1 p1) (h2 : TurboFor b2 p2) :
    TurboFor (b1 ++ b2) (p1 ++ p2) := by
  induction b1 generalizing p1 with
  | nil => cases p1 with
    | nil => simpa using h2
    | cons p ps => simp [TurboFor] at h1
  | cons b bs ih =>
    cases p1 with
    | nil => simp [TurboFor] at h1
    | cons p ps => exact ⟨h1.1, h1.2.1, ih ps h1.2.2⟩

/-- **Turbo format, logical layer, for every image.** A pulse list made of a pilot (at least 256
short pulses), the marker, the pulses of the 20 header bytes, of the image bytes and of the
checksum word, and a short trailer is demodulated to exactly base, length, name, image, checksum. -/
theorem demodTurbo_ideal_partial (base : Nat) (code name : Bytes) (cks : Nat)
    (hb : base < 65536) (hl : code.length < 65536) (hc : ∀ b ∈ code, b < 256) (hn : ∀ b ∈ name16 name, b < 256) (hk : cks < 65536)
    (pilot hp dp tail : List (Nat × Nat)) (marker : Nat × Nat)
    (hpil : ∀ p ∈ pilot, p.1 < 8) (hplen : 256 ≤ pilot.length) (hm : marker.1 ≥ 8)
    (hhp : TurboFor (bitsOf (tapeHeader base code name)) hp) (hdp : TurboFor (bitsOf (code ++ le16 cks)) dp)
    (htail : tail.length ≤ 4) :
    demodTurboP (pilot ++ marker :: (hp ++ (dp ++ tail))) =
      some ⟨base, code.length, name16 name, code, cks, pilot.length⟩ := by
  have hhdr := tape_header_layout base code name hb hl
  have hhdrbytes : ∀ b ∈ tapeHeader base code name, b < 256 := by
    intro b hbm
    simp only [tapeHeader, List.mem_append] at hbm
    rcases hbm with (h | h) | h
    · simp [le16] at h; rcases h with h | h <;> omega
    · simp [le16] at h; rcases h with h | h <;> omega
    · exact hn b h
  have hlen160 : (bitsOf (tapeHeader base code name)).length = 160 := by rw [bitsOf_length, hhdr.1]
  have hcb : ∀ b ∈ code ++ le16 cks, b < 256 := by
    intro b hbm
    rcases List.mem_append.mp hbm with h | h
    · exact hc b h
    · simp [le16] at h; rcases h with h | h <;> omega
  have hdlen : (bitsOf (code ++ le16 cks)).length = 8 * code.length + 16 := by
    rw [bitsOf_length]; simp [le16]; omega
  unfold demodTurboP
  simp only [skipToMarker_pilot 8 pilot marker _ hpil hm, Option.bind_eq_bind, Option.bind_some]
  have hnot : ¬ pilot.length < 256 := by omega
  simp only [hnot, if_false]
  have r1 := readBitsTurbo_ideal _ hp (dp ++ tail) hhp
  rw [hlen160] at r1
  simp only [r1, Option.bind_some, bitsToBytes_bitsOf _ hhdrbytes, hhdr.2.2.1]
  have r2 := readBitsTurbo_ideal _ dp tail hdp
  rw [hdlen] at r2
  simp only [r2, Option.bind_some, bitsToBytes_bitsOf _ hcb, htail, if_true, hhdr.2.1, hhdr.2.2.2]
  simp [rd16, le16]
  omega

/-! ### normal speed: a sync pulse and a data pulse per bit -/

/-- a pulse list that carries the given bits at normal speed: per bit a sync pulse (high phase at
most 2 samples) and a data pulse (at most 6, at least 3 for a one) -/
def NormalFor : List Bool → List (Nat × Nat) → Prop
  | [], [] => True
  | b :: bs, s :: d :: ps => s.1 ≤ 2 ∧ d.1 ≤ 6 ∧ decide (d.1 ≥ 3) = b ∧ NormalFor bs ps
  | _, _ => False

theorem readBitsNormal_ideal (bits : List Bool) (ps rest : List (Nat × Nat)) (h : NormalFor bits ps) :
    readBitsNormal bits.length (ps ++ rest) = some (bits, rest) := by
  induction bits generalizing ps with
  | nil => cases ps with
    | nil => rfl
    | cons p ps => simp [NormalFor] at h
  | cons b bs ih =>
    match ps, h with
    | s :: d :: ps, h =>
      obtain ⟨h1, h2, h3, h4⟩ := h
      simp only [List.length_cons, List.cons_append, readBitsNormal, h1, h2, and_self, if_true]
      rw [ih ps h4]
      simp [h3]

/-- **Normal speed, logical layer, for every image.** Pilot (at least 256 short pulses), marker,
a one, short pilot, marker, a one, the pulses of the 20 header bytes, short pilot, marker, a one,
the pulses of the image bytes and of the checksum word, a trailer of short pulses: the demodulator
of the BK-0010 monitor's reading returns exactly base, length, name, image, checksum. -/
theorem demodNormal_ideal_partial (base : Nat) (code name : Bytes) (cks : Nat)
    (hb : base < 65536) (hl : code.length < 65536) (hc : ∀ b ∈ code, b < 256) (hn : ∀ b ∈ name16 name, b < 256) (hk : cks < 65536)
    (pilot1 pilot2 pilot3 hp dp tail : List (Nat × Nat)) (m1 m2 m3 o1 o2 o3 : Nat × Nat)
    (hp1 : ∀ p ∈ pilot1, p.1 < 7) (hplen : 256 ≤ pilot1.length) (hp2 : ∀ p ∈ pilot2, p.1 < 7) (hp3 : ∀ p ∈ pilot3, p.1 < 7)
    (hm1 : m1.1 ≥ 7) (hm2 : m2.1 ≥ 7) (hm3 : m3.1 ≥ 7)
    (ho1 : 3 ≤ o1.1 ∧ o1.1 ≤ 6) (ho2 : 3 ≤ o2.1 ∧ o2.1 ≤ 6) (ho3 : 3 ≤ o3.1 ∧ o3.1 ≤ 6)
    (hhp : NormalFor (bitsOf (tapeHeader base code name)) hp) (hdp : NormalFor (bitsOf (code ++ le16 cks)) dp)
    (htail : ∀ p ∈ tail, p.1 ≤ 2) :
    demodNormalP (pilot1 ++ m1 :: o1 :: (pilot2 ++ m2 :: o2 :: (hp ++ (pilot3 ++ m3 :: o3 :: (dp ++ tail))))) =
      some ⟨base, code.length, name16 name, code, cks, pilot1.length⟩ := by
  have hhdr := tape_header_layout base code name hb hl
  have hhdrbytes : ∀ b ∈ tapeHeader base code name, b < 256 := by
    intro b hbm
    simp only [tapeHeader, List.mem_append] at hbm
    rcases hbm with (h | h) | h
    · simp [le16] at h; rcases h with h | h <;> omega
    · simp [le16] at h; rcases h with h | h <;> omega
    · exact hn b h
  have hlen160 : (bitsOf (tapeHeader base code name)).length = 160 := by rw [bitsOf_length, hhdr.1]
  have hcb : ∀ b ∈ code ++ le16 cks, b < 256 := by
    intro b hbm
    rcases List.mem_append.mp hbm with h | h
    · exact hc b h
    · simp [le16] at h; rcases h with h | h <;> omega
  have hdlen : (bitsOf (code ++ le16 cks)).length = 8 * code.length + 16 := by
    rw [bitsOf_length]; simp [le16]; omega
  unfold demodNormalP
  simp only [skipToMarker_pilot 7 pilot1 m1 _ hp1 hm1, Option.bind_eq_bind, Option.bind_some]
  have hnot : ¬ pilot1.length < 256 := by omega
  simp only [hnot, if_false, demodNormalP.readOne, Option.bind_some, skipToMarker_pilot 7 pilot2 m2 _ hp2 hm2]
  have r1 := readBitsNormal_ideal _ hp (pilot3 ++ m3 :: o3 :: (dp ++ tail)) hhp
  rw [hlen160] at r1
  simp only [r1, Option.bind_some, bitsToBytes_bitsOf _ hhdrbytes, hhdr.2.2.1, skipToMarker_pilot 7 pilot3 m3 _ hp3 hm3]
  have r2 := readBitsNormal_ideal _ dp tail hdp
  rw [hdlen] at r2
  simp only [r2, Option.bind_some, bitsToBytes_bitsOf _ hcb, hhdr.2.1, hhdr.2.2.2]
  have hall : tail.all (fun p => decide (p.1 ≤ 2)) = true := by
    simp only [List.all_eq_true, decide_eq_true_eq]; exact htail
  simp [ho1, ho2, ho3, hall, rd16, le16]
  omega


/-! ## part C -/
open Pdpy11.Gen

/-- a stretch of equal samples: (level, length) -/
abbrev Run := Nat × Nat

def isHigh (r : Run) : Bool := decide (r.1 ≥ 128)

theorem expandRuns_cons (r : Run) (rs : List Run) : expandRuns (r :: rs) = List.replicate r.2 r.1 ++ expandRuns rs := by
  simp [expandRuns]

theorem expandRuns_append (a b : List Run) : expandRuns (a ++ b) = expandRuns a ++ expandRuns b := by
  simp [expandRuns]

/-- pairs (high length, high level, low length) read from the right: low runs are added to the pulse of
the high run before them -/
def pairStep (r : Run) (st : Nat × List (Nat × Nat × Nat)) : Nat × List (Nat × Nat × Nat) :=
  if isHigh r then (0, (r.2, r.1, st.1) :: st.2) else (st.1 + r.2, st.2)

def toPairs (rs : List Run) : Nat × List (Nat × Nat × Nat) := rs.foldr pairStep (0, [])

def expandPairs (ps : List (Nat × Nat × Nat)) : Bytes :=
  ps.flatMap (fun p => List.replicate p.1 p.2.1 ++ List.replicate p.2.2 48)

/-- regrouping does not change the samples (all low runs are at level 48 in the emitted shapes) -/
theorem expand_toPairs (rs : List Run) (hlow : ∀ r ∈ rs, isHigh r = false → r.1 = 48) :
    List.replicate (toPairs rs).1 48 ++ expandPairs (toPairs rs).2 = expandRuns rs := by
  induction rs with
  | nil => simp [toPairs, expandPairs, expandRuns]
  | cons r rs ih =>
    have ih' := ih (fun x hx => hlow x (by simp [hx]))
    simp only [toPairs, List.foldr_cons] at *
    rw [expandRuns_cons, ← ih']
    unfold pairStep
    by_cases hh : isHigh r = true
    · simp [hh, expandPairs]
    · have hf : isHigh r = false := by simpa using hh
      have := hlow r (by simp) hf
      simp only [hf, Bool.false_eq_true, if_false]
      rw [this, Nat.add_comm, ← List.replicate_append_replicate, List.append_assoc]

/-! ### `pulses` on a list of proper pulses -/

theorem takeWhile_replicate_ge (a hi : Nat) (rest : List Nat) (hhi : hi ≥ 128) (hrest : ∀ x, rest.head? = some x → x < 128) :
    (List.replicate a hi ++ rest).takeWhile (· ≥ 128) = List.replicate a hi ∧
    (List.replicate a hi ++ rest).dropWhile (· ≥ 128) = rest := by
  induction a with
  | zero =>
    cases rest with
    | nil => simp
    | cons x t =>
      have := hrest x (by simp)
      have hx : ¬ x ≥ 128 := by omega
      simp [List.takeWhile, List.dropWhile, hx]
  | succ a ih =>
    simp [List.replicate_succ, List.takeWhile, List.dropWhile, hhi, ih.1, ih.2]

theorem takeWhile_replicate_lt (b lo : Nat) (rest : List Nat) (hlo : lo < 128) (hrest : ∀ x, rest.head? = some x → x ≥ 128) :
    (List.replicate b lo ++ rest).takeWhile (· < 128) = List.replicate b lo ∧
    (List.replicate b lo ++ rest).dropWhile (· < 128) = rest := by
  induction b with
  | zero =>
    cases rest with
    | nil => simp
    | cons x t =>
      have := hrest x (by simp)
      have hx : ¬ x < 128 := by omega
      simp [List.takeWhile, List.dropWhile, hx]
  | succ b ih =>
    simp [List.replicate_succ, List.takeWhile, List.dropWhile, hlo, ih.1, ih.2]

/-- all high levels are high, all pulses have a low phase -/
def ProperPairs (ps : List (Nat × Nat × Nat)) : Prop := ∀ p ∈ ps, p.1 ≥ 1 ∧ p.2.1 ≥ 128 ∧ p.2.2 ≥ 1

theorem expandPairs_head_high (ps : List (Nat × Nat × Nat)) (h : ProperPairs ps) :
    ∀ x, (expandPairs ps).head? = some x → x ≥ 128 := by
  cases ps with
  | nil => intro x hx; simp [expandPairs] at hx
  | cons p t =>
    obtain ⟨ha, hhi, _⟩ := h p (by simp)
    intro x hx
    obtain ⟨a, hi, b⟩ := p
    simp only [expandPairs, List.flatMap_cons] at hx
    simp only [] at ha hhi
    cases a with
    | zero => simp at ha
    | succ a =>
      simp [List.replicate_succ] at hx
      omega

theorem pulsesFuel_pairs (ps : List (Nat × Nat × Nat)) (h : ProperPairs ps) (n : Nat) (hn : ps.length ≤ n) :
    pulsesFuel n (expandPairs ps) = ps.map (fun p => (p.1, p.2.2)) := by
  induction ps generalizing n with
  | nil => cases n <;> simp [pulsesFuel, expandPairs]
  | cons p t ih =>
    obtain ⟨a, hi, b⟩ := p
    obtain ⟨ha, hhi, hb⟩ := h (a, hi, b) (by simp)
    have ht : ProperPairs t := fun q hq => h q (by simp [hq])
    cases n with
    | zero => simp at hn
    | succ n =>
      have hexp : expandPairs ((a, hi, b) :: t) = List.replicate a hi ++ (List.replicate b 48 ++ expandPairs t) := by
        simp [expandPairs, List.append_assoc]
      have hne : List.replicate a hi ++ (List.replicate b 48 ++ expandPairs t) ≠ [] := by
        cases a with
        | zero => simp at ha
        | succ a => simp [List.replicate_succ]
      rw [hexp]
      have h1 := takeWhile_replicate_ge a hi (List.replicate b 48 ++ expandPairs t) hhi (by
        intro x hx
        cases b with
        | zero => simp at hb
        | succ b => simp [List.replicate_succ] at hx; omega)
      have h2 := takeWhile_replicate_lt b 48 (expandPairs t) (by omega) (expandPairs_head_high t ht)
      cases hl : List.replicate a hi ++ (List.replicate b 48 ++ expandPairs t) with
      | nil => exact absurd hl hne
      | cons x xs =>
        rw [← hl]
        unfold pulsesFuel
        rw [hl]
        simp only []
        rw [← hl, h1.1, h1.2, h2.1, h2.2]
        simp [ih ht n (by simpa using hn)]

/-- the run-length detector reads a stream of proper pulses as exactly those pulses -/
theorem pulses_pairs (ps : List (Nat × Nat × Nat)) (h : ProperPairs ps) :
    pulses (expandPairs ps) = ps.map (fun p => (p.1, p.2.2)) := by
  unfold pulses
  apply pulsesFuel_pairs ps h
  -- every pulse has at least one sample
  have : ps.length ≤ (expandPairs ps).length := by
    induction ps with
    | nil => simp
    | cons p t ih =>
      have hp := h p (by simp)
      have := ih (fun q hq => h q (by simp [hq]))
      simp only [expandPairs, List.flatMap_cons, List.length_append, List.length_replicate, List.length_cons] at *
      omega
  omega

/-! ### the emitted shapes as run lists -/

def rleRuns (r : Gen.Rle) : List Run := r.flatMap (fun blk => (List.replicate blk.2 blk.1).flatten)

theorem expandRuns_flatten_replicate (k : Nat) (runs : List Run) :
    expandRuns (List.replicate k runs).flatten = (List.replicate k (expandRuns runs)).flatten := by
  induction k with
  | zero => simp [expandRuns]
  | succ k ih => simp [List.replicate_succ, expandRuns_append, ih]

theorem expandRle_eq (r : Gen.Rle) : expandRle r = expandRuns (rleRuns r) := by
  induction r with
  | nil => simp [expandRle, rleRuns, expandRuns]
  | cons blk t ih =>
    simp only [expandRle, rleRuns, List.flatMap_cons] at *
    rw [expandRuns_append, expandRuns_flatten_replicate, ← ih]

/-- every run is non-empty, low runs are at level 48, and every high run is followed (inside the
list) by a low run -/
def OkRuns : List Run → Prop
  | [] => True
  | r :: rs => r.2 ≥ 1 ∧ (isHigh r = false → r.1 = 48) ∧ (isHigh r = true → ∃ l rest, rs = l :: rest ∧ isHigh l = false) ∧ OkRuns rs

theorem okRuns_append (a b : List Run) (ha : OkRuns a) (hb : OkRuns b) : OkRuns (a ++ b) := by
  induction a with
  | nil => simpa using hb
  | cons r rs ih =>
    obtain ⟨h1, h2, h3, h4⟩ := ha
    refine ⟨h1, h2, ?_, ih h4⟩
    intro hh
    obtain ⟨l, rest, hrs, hl⟩ := h3 hh
    exact ⟨l, rest ++ b, by simp [hrs], hl⟩

theorem okRuns_flatten_replicate (k : Nat) (runs : List Run) (h : OkRuns runs) : OkRuns (List.replicate k runs).flatten := by
  induction k with
  | zero => simp [OkRuns]
  | succ k ih => rw [List.replicate_succ, List.flatten_cons]; exact okRuns_append _ _ h ih

theorem okRuns_flatMap {α : Type} (l : List α) (f : α → List Run) (h : ∀ x ∈ l, OkRuns (f x)) : OkRuns (l.flatMap f) := by
  induction l with
  | nil => simp [OkRuns]
  | cons x t ih =>
    rw [List.flatMap_cons]
    exact okRuns_append _ _ (h x (by simp)) (ih (fun y hy => h y (by simp [hy])))

theorem okRuns_low (rs : List Run) (h : OkRuns rs) : ∀ r ∈ rs, isHigh r = false → r.1 = 48 := by
  induction rs with
  | nil => intro r hr; simp at hr
  | cons x t ih =>
    intro r hr
    rcases List.mem_cons.mp hr with h1 | h1
    · subst h1; exact h.2.1
    · exact ih h.2.2.2 r h1

/-- the pending low length in front of a list that starts with a (non-empty) low run is positive -/
theorem toPairs_pend_pos (l : Run) (rest : List Run) (hl : isHigh l = false) (hlen : l.2 ≥ 1) : (toPairs (l :: rest)).1 ≥ 1 := by
  simp only [toPairs, List.foldr_cons, pairStep, hl, Bool.false_eq_true, if_false]
  omega

theorem toPairs_proper (rs : List Run) (h : OkRuns rs) : ProperPairs (toPairs rs).2 := by
  induction rs with
  | nil => intro p hp; simp [toPairs] at hp
  | cons r rs ih =>
    obtain ⟨h1, h2, h3, h4⟩ := h
    have ih' := ih h4
    simp only [toPairs, List.foldr_cons] at *
    unfold pairStep
    by_cases hh : isHigh r = true
    · simp only [hh, if_true]
      intro p hp
      rcases List.mem_cons.mp hp with hp | hp
      · subst hp
        obtain ⟨l, rest, hrs, hl⟩ := h3 hh
        have hlen : l.2 ≥ 1 := by rw [hrs] at h4; exact h4.1
        have := toPairs_pend_pos l rest hl hlen
        rw [← hrs] at this
        simp only [toPairs] at this
        refine ⟨h1, by simpa [isHigh] using hh, this⟩
      · exact ih' p hp
    · simp only [hh, if_false]
      exact ih'

theorem toPairs_pend_zero (r : Run) (rs : List Run) (hh : isHigh r = true) : (toPairs (r :: rs)).1 = 0 := by
  simp [toPairs, pairStep, hh]

theorem toPairs_cons (r : Run) (rs : List Run) : toPairs (r :: rs) = pairStep r (toPairs rs) := rfl

theorem toPairs_highs (rs : List Run) : (toPairs rs).2.map (fun p => p.1) = (rs.filter isHigh).map (fun r => r.2) := by
  induction rs with
  | nil => simp [toPairs]
  | cons r rs ih =>
    rw [toPairs_cons]
    by_cases hh : isHigh r = true
    · simp [pairStep, hh, ih]
    · simp [pairStep, hh, ih]

/-- **the detector on any well-formed run list**: one pulse per high run, in order -/
theorem pulses_runs (rs : List Run) (h : OkRuns rs) (r0 : Run) (rest : List Run) (hrs : rs = r0 :: rest) (h0 : isHigh r0 = true) :
    (pulses (expandRuns rs)).map Prod.fst = (rs.filter isHigh).map (fun r => r.2) := by
  have he := expand_toPairs rs (okRuns_low rs h)
  have hz : (toPairs rs).1 = 0 := by rw [hrs]; exact toPairs_pend_zero r0 rest h0
  rw [hz] at he
  simp only [List.replicate_zero, List.nil_append] at he
  rw [← he, pulses_pairs _ (toPairs_proper rs h), ← toPairs_highs]
  simp [List.map_map, Function.comp_def]


/-! ## part D -/
open Pdpy11.Gen

def okRunsB : List Run → Bool
  | [] => true
  | r :: rs => decide (r.2 ≥ 1) && (isHigh r || decide (r.1 = 48)) &&
      (!isHigh r || (match rs with | l :: _ => !isHigh l | [] => false)) && okRunsB rs

theorem okRuns_of_B (rs : List Run) (h : okRunsB rs = true) : OkRuns rs := by
  induction rs with
  | nil => trivial
  | cons r rs ih =>
    simp only [okRunsB, Bool.and_eq_true, decide_eq_true_eq, Bool.or_eq_true, Bool.not_eq_true'] at h
    obtain ⟨⟨⟨h1, h2⟩, h3⟩, h4⟩ := h
    refine ⟨h1, ?_, ?_, ih h4⟩
    · intro hf; rcases h2 with h2 | h2
      · rw [hf] at h2; cases h2
      · exact h2
    · intro hh
      rcases h3 with h3 | h3
      · rw [hh] at h3; cases h3
      · cases rs with
        | nil => simp at h3
        | cons l rest => exact ⟨l, rest, rfl, by simpa using h3⟩

theorem flatMap_congrP {α β : Type} (l : List α) (f g : α → List β) (h : ∀ x ∈ l, f x = g x) : l.flatMap f = l.flatMap g := by
  induction l with
  | nil => rfl
  | cons x t ih => simp [List.flatMap_cons, h x (by simp), ih (fun y hy => h y (by simp [hy]))]

theorem rleRuns_three (a b c : List Run) (k : Nat) : rleRuns [(a, k), (b, 1), (c, 1)] = (List.replicate k a).flatten ++ (b ++ c) := by
  simp [rleRuns]

theorem expandRuns_flatMap {α : Type} (l : List α) (f : α → List Run) : expandRuns (l.flatMap f) = l.flatMap (fun x => expandRuns (f x)) := by
  induction l with
  | nil => simp [expandRuns]
  | cons x t ih => simp [List.flatMap_cons, expandRuns_append, ih]

/-- the runs of the bits of a byte string -/
def bitsRuns (env : WavEnvG) (bytes : Bytes) : List Run :=
  bytes.flatMap (fun byte => (List.range 8).flatMap (fun i => rleRuns (if byte / 2 ^ i % 2 = 1 then env.one else env.zero)))

theorem dataBits_eq (env : WavEnvG) (bytes : Bytes) : dataBits env bytes = expandRuns (bitsRuns env bytes) := by
  unfold dataBits bitsRuns byteBits
  rw [expandRuns_flatMap]
  apply flatMap_congrP
  intro byte _
  rw [expandRuns_flatMap]
  apply flatMap_congrP
  intro i _
  by_cases h : byte / 2 ^ i % 2 = 1 <;> simp [h, expandRle_eq]

def trainRunsT (base : Nat) (code name : Bytes) : List Run :=
  rleRuns wavTurboEnv.sync ++ bitsRuns wavTurboEnv (tapeHeader base code name) ++ rleRuns wavTurboEnv.pause ++
  bitsRuns wavTurboEnv code ++ rleRuns wavTurboEnv.pause ++ bitsRuns wavTurboEnv (le16 (checksum code)) ++ rleRuns wavTurboEnv.eof

theorem pulseTrain_turbo_eq (base : Nat) (code name : Bytes) :
    pulseTrain wavTurboEnv true base code name = expandRuns (trainRunsT base code name) := by
  unfold pulseTrain trainRunsT
  simp only [if_true, expandRuns_append, dataBits_eq, expandRle_eq]

/-! ### well-formedness and highs of the turbo train -/

theorem turbo_runs :
    rleRuns wavTurboEnv.one = [(208, 3), (48, 2)] ∧ rleRuns wavTurboEnv.zero = [(208, 1), (48, 2)] ∧
    rleRuns wavTurboEnv.pause = [(48, 4)] ∧ rleRuns wavTurboEnv.eof = [(200, 3), (48, 3), (200, 3), (48, 3)] ∧
    rleRuns wavTurboEnv.sync = (List.replicate 1024 [((200 : Nat), (3 : Nat)), (48, 3)]).flatten ++ [(200, 12), (48, 12)] := by
  refine ⟨by decide, by decide, by decide, by decide, ?_⟩
  have := turbo_shapes.2.2.2.1
  rw [this, rleRuns_three]
  rfl

theorem okRuns_bits (bytes : Bytes) : OkRuns (bitsRuns wavTurboEnv bytes) := by
  apply okRuns_flatMap
  intro byte _
  apply okRuns_flatMap
  intro i _
  by_cases h : byte / 2 ^ i % 2 = 1
  · simp only [h, if_true, turbo_runs.1]; exact okRuns_of_B _ (by decide)
  · simp only [h, if_false, turbo_runs.2.1]; exact okRuns_of_B _ (by decide)

theorem okRuns_trainT (base : Nat) (code name : Bytes) : OkRuns (trainRunsT base code name) := by
  unfold trainRunsT
  rw [turbo_runs.2.2.1, turbo_runs.2.2.2.1, turbo_runs.2.2.2.2]
  refine okRuns_append _ _ (okRuns_append _ _ (okRuns_append _ _ (okRuns_append _ _ (okRuns_append _ _ (okRuns_append _ _ ?_ ?_) ?_) ?_) ?_) ?_) ?_
  · exact okRuns_append _ _ (okRuns_flatten_replicate 1024 _ (okRuns_of_B _ (by decide))) (okRuns_of_B _ (by decide))
  · exact okRuns_bits _
  · exact okRuns_of_B _ (by decide)
  · exact okRuns_bits _
  · exact okRuns_of_B _ (by decide)
  · exact okRuns_bits _
  · exact okRuns_of_B _ (by decide)

def highsOf (rs : List Run) : List Nat := (rs.filter isHigh).map (fun r => r.2)

theorem highsOf_append (a b : List Run) : highsOf (a ++ b) = highsOf a ++ highsOf b := by simp [highsOf]

theorem highsOf_flatMap {α : Type} (l : List α) (f : α → List Run) : highsOf (l.flatMap f) = l.flatMap (fun x => highsOf (f x)) := by
  induction l with
  | nil => simp [highsOf]
  | cons x t ih => simp [List.flatMap_cons, highsOf_append, ih]

theorem highsOf_flatten_replicate (k : Nat) (runs : List Run) : highsOf (List.replicate k runs).flatten = (List.replicate k (highsOf runs)).flatten := by
  induction k with
  | zero => simp [highsOf]
  | succ k ih => simp [List.replicate_succ, highsOf_append, ih]

def hT (b : Bool) : Nat := if b then 3 else 1

theorem highs_bitsT (bytes : Bytes) : highsOf (bitsRuns wavTurboEnv bytes) = (bitsOf bytes).map hT := by
  unfold bitsRuns bitsOf
  rw [highsOf_flatMap, List.map_flatMap]
  apply flatMap_congrP
  intro byte _
  rw [highsOf_flatMap]
  induction (List.range 8) with
  | nil => rfl
  | cons i t ih =>
    simp only [List.flatMap_cons, List.map_cons, ih]
    by_cases h : byte / 2 ^ i % 2 = 1
    · simp [h, turbo_runs.1, highsOf, isHigh, hT]
    · simp [h, turbo_runs.2.1, highsOf, isHigh, hT]

theorem highs_small :
    highsOf [((48 : Nat), (4 : Nat))] = [] ∧ highsOf [((200 : Nat), (3 : Nat)), (48, 3), (200, 3), (48, 3)] = [3, 3] ∧
    highsOf [((200 : Nat), (3 : Nat)), (48, 3)] = [3] ∧ highsOf [((200 : Nat), (12 : Nat)), (48, 12)] = [12] := by decide

theorem flatten_replicate_singleton (k : Nat) (x : Nat) : (List.replicate k [x]).flatten = List.replicate k x := by
  induction k with
  | zero => rfl
  | succ k ih => simp [List.replicate_succ, ih]

theorem highs_trainT (base : Nat) (code name : Bytes) :
    highsOf (trainRunsT base code name) =
      List.replicate 1024 3 ++ [12] ++ (bitsOf (tapeHeader base code name)).map hT ++ (bitsOf code).map hT ++
      (bitsOf (le16 (checksum code))).map hT ++ [3, 3] := by
  unfold trainRunsT
  simp only [highsOf_append, highs_bitsT, turbo_runs.2.2.1, turbo_runs.2.2.2.1, turbo_runs.2.2.2.2, highsOf_flatten_replicate,
    highs_small.1, highs_small.2.1, highs_small.2.2.1, highs_small.2.2.2, flatten_replicate_singleton, List.append_nil]

theorem turboFor_of_highs (bits : List Bool) (ps : List (Nat × Nat)) (h : ps.map Prod.fst = bits.map hT) : TurboFor bits ps := by
  induction bits generalizing ps with
  | nil => cases ps with
    | nil => trivial
    | cons p t => simp at h
  | cons b bs ih =>
    cases ps with
    | nil => simp at h
    | cons p t =>
      simp only [List.map_cons, List.cons.injEq] at h
      refine ⟨?_, ?_, ih t h.2⟩
      · rw [h.1]; cases b <;> simp [hT]
      · rw [h.1]; cases b <;> simp [hT]

theorem bitsOf_append (a b : Bytes) : bitsOf (a ++ b) = bitsOf a ++ bitsOf b := by simp [bitsOf]

theorem trainT_starts_high (base : Nat) (code name : Bytes) :
    ∃ rest, trainRunsT base code name = (200, 3) :: rest := by
  unfold trainRunsT
  rw [turbo_runs.2.2.2.2, show (1024 : Nat) = 1023 + 1 from rfl, List.replicate_succ]
  generalize List.replicate 1023 [((200 : Nat), (3 : Nat)), (48, 3)] = R
  exact ⟨_, by simp only [List.flatten_cons, List.cons_append, List.append_assoc]; rfl⟩

/-- **Turbo WAV, end to end, for every image.** The samples `encode_as_wav` emits in the turbo
format are read by the independent detector and demodulator as exactly the load address, the
length, the padded name, the image and its end-around-carry checksum. -/
theorem demodTurbo_encode (base : Nat) (code name : Bytes) (hb : base < 65536) (hl : code.length < 65536)
    (hc : ∀ b ∈ code, b < 256) (hn : ∀ b ∈ name16 name, b < 256) :
    demodTurbo (pulseTrain wavTurboEnv true base code name) =
      some ⟨base, code.length, name16 name, code, checksum code, 1024⟩ := by
  unfold demodTurbo
  rw [pulseTrain_turbo_eq]
  obtain ⟨rest, hstart⟩ := trainT_starts_high base code name
  have hps := pulses_runs (trainRunsT base code name) (okRuns_trainT base code name) (200, 3) rest hstart (by decide)
  have hh := highs_trainT base code name
  unfold highsOf at hh
  rw [hh] at hps
  generalize pulses (expandRuns (trainRunsT base code name)) = ps at hps
  -- split the pulse list along the structure of its high lengths
  have e1 : List.replicate 1024 3 ++ [12] ++ (bitsOf (tapeHeader base code name)).map hT ++ (bitsOf code).map hT ++
      (bitsOf (le16 (checksum code))).map hT ++ [3, 3] =
      List.replicate 1024 3 ++ (12 :: ((bitsOf (tapeHeader base code name)).map hT ++
        (((bitsOf code).map hT ++ (bitsOf (le16 (checksum code))).map hT) ++ [3, 3]))) := by
    simp only [List.append_assoc, List.cons_append, List.nil_append, List.singleton_append]
  rw [e1] at hps
  obtain ⟨pilot, r1, rfl, hpil, hr1⟩ := List.map_eq_append_iff.mp hps
  cases r1 with
  | nil => simp at hr1
  | cons marker r2 =>
    simp only [List.map_cons, List.cons.injEq] at hr1
    obtain ⟨hmk, hr2⟩ := hr1
    obtain ⟨hp, r3, rfl, hhp, hr3⟩ := List.map_eq_append_iff.mp hr2
    obtain ⟨dp, tail, rfl, hdp, htl⟩ := List.map_eq_append_iff.mp hr3
    have hpl : pilot.length = 1024 := by
      have := congrArg List.length hpil
      rw [List.length_map, List.length_replicate] at this
      exact this
    have := demodTurbo_ideal_partial base code name (checksum code) hb hl hc hn (checksum_lt code) pilot hp dp tail marker
      (by
        intro p hpm
        have : p.1 ∈ pilot.map Prod.fst := List.mem_map_of_mem (f := Prod.fst) hpm
        rw [hpil] at this
        have := List.eq_of_mem_replicate this
        omega)
      (by omega) (by omega)
      (turboFor_of_highs _ _ hhp)
      (by
        rw [bitsOf_append]
        obtain ⟨d1, d2, rfl, hd1, hd2⟩ := List.map_eq_append_iff.mp hdp
        exact TurboFor_append _ _ _ _ (turboFor_of_highs _ _ hd1) (turboFor_of_highs _ _ hd2))
      (by have := congrArg List.length htl; simp at this; omega)
    rw [this, hpl]


/-! ## part E -/
open Pdpy11.Gen

def trainRunsN (base : Nat) (code name : Bytes) : List Run :=
  rleRuns wavEnv.sync ++ bitsRuns wavEnv (tapeHeader base code name) ++ rleRuns wavEnv.pause ++
  bitsRuns wavEnv code ++ [] ++ bitsRuns wavEnv (le16 (checksum code)) ++ rleRuns wavEnv.eof

theorem pulseTrain_normal_eq (base : Nat) (code name : Bytes) :
    pulseTrain wavEnv false base code name = expandRuns (trainRunsN base code name) := by
  unfold pulseTrain trainRunsN
  simp only [Bool.false_eq_true, if_false, expandRuns_append, dataBits_eq, expandRle_eq]
  simp [expandRuns]

theorem rleRuns_append (a b : Gen.Rle) : rleRuns (a ++ b) = rleRuns a ++ rleRuns b := by simp [rleRuns]

theorem rleRuns_five (a b c d e : List Run) (k : Nat) :
    rleRuns [(a, k), (b, 1), (c, 1), (d, 1), (e, 1)] = (List.replicate k a).flatten ++ (b ++ (c ++ (d ++ e))) := by
  simp [rleRuns]

theorem rleRuns_one (a : List Run) (k : Nat) : rleRuns [(a, k)] = (List.replicate k a).flatten := by simp [rleRuns]

def blkN : List Run := [((200 : Nat), (2 : Nat)), (48, 2)]
def markN : List Run := [((200 : Nat), (8 : Nat)), (48, 8), (208, 4), (48, 4)]

theorem normal_runs :
    rleRuns wavEnv.one = [(200, 2), (48, 2), (208, 4), (48, 4)] ∧ rleRuns wavEnv.zero = [(200, 2), (48, 2), (208, 2), (48, 2)] ∧
    rleRuns wavEnv.pause = (List.replicate 10 blkN).flatten ++ markN ∧
    rleRuns wavEnv.eof = (List.replicate 200 blkN).flatten ∧
    rleRuns wavEnv.sync = (List.replicate 4096 blkN).flatten ++ markN ++ ((List.replicate 10 blkN).flatten ++ markN) := by
  have hp : rleRuns wavEnv.pause = (List.replicate 10 blkN).flatten ++ markN := by
    have : wavEnv.pause = [([(200, 2), (48, 2)], 10), ([(200, 8)], 1), ([(48, 8)], 1), ([(208, 4)], 1), ([(48, 4)], 1)] := by decide
    rw [this, rleRuns_five]; rfl
  refine ⟨by decide, by decide, hp, ?_, ?_⟩
  · rw [normal_shapes.2.2.2.2.1, rleRuns_one]; rfl
  · rw [normal_shapes.2.2.2.1, rleRuns_append, hp, rleRuns_five]; rfl

theorem okRuns_bitsN (bytes : Bytes) : OkRuns (bitsRuns wavEnv bytes) := by
  apply okRuns_flatMap
  intro byte _
  apply okRuns_flatMap
  intro i _
  by_cases h : byte / 2 ^ i % 2 = 1
  · simp only [h, if_true, normal_runs.1]; exact okRuns_of_B _ (by decide)
  · simp only [h, if_false, normal_runs.2.1]; exact okRuns_of_B _ (by decide)

theorem okRuns_blk (k : Nat) : OkRuns (List.replicate k blkN).flatten :=
  okRuns_flatten_replicate k _ (okRuns_of_B _ (by decide))

theorem okRuns_trainN (base : Nat) (code name : Bytes) : OkRuns (trainRunsN base code name) := by
  unfold trainRunsN
  rw [normal_runs.2.2.1, normal_runs.2.2.2.1, normal_runs.2.2.2.2]
  have hm : OkRuns markN := okRuns_of_B _ (by decide)
  refine okRuns_append _ _ (okRuns_append _ _ (okRuns_append _ _ (okRuns_append _ _ (okRuns_append _ _ (okRuns_append _ _ ?_ ?_) ?_) ?_) ?_) ?_) ?_
  · exact okRuns_append _ _ (okRuns_append _ _ (okRuns_blk _) hm) (okRuns_append _ _ (okRuns_blk _) hm)
  · exact okRuns_bitsN _
  · exact okRuns_append _ _ (okRuns_blk _) hm
  · exact okRuns_bitsN _
  · trivial
  · exact okRuns_bitsN _
  · exact okRuns_blk _

def hN (b : Bool) : List Nat := [2, if b then 4 else 2]

theorem highs_bitsN (bytes : Bytes) : highsOf (bitsRuns wavEnv bytes) = (bitsOf bytes).flatMap hN := by
  unfold bitsRuns bitsOf
  rw [highsOf_flatMap, List.flatMap_assoc]
  apply flatMap_congrP
  intro byte _
  rw [highsOf_flatMap]
  induction (List.range 8) with
  | nil => rfl
  | cons i t ih =>
    simp only [List.flatMap_cons, List.map_cons, ih]
    by_cases h : byte / 2 ^ i % 2 = 1
    · simp [h, normal_runs.1, highsOf, isHigh, hN]
    · simp [h, normal_runs.2.1, highsOf, isHigh, hN]

theorem flatten_replicate_blk (k : Nat) : highsOf (List.replicate k blkN).flatten = List.replicate k 2 := by
  rw [highsOf_flatten_replicate]
  have : highsOf blkN = [2] := by decide
  rw [this, flatten_replicate_singleton]

theorem highs_mark : highsOf markN = [8, 4] := by decide

theorem highs_trainN (base : Nat) (code name : Bytes) :
    highsOf (trainRunsN base code name) =
      List.replicate 4096 2 ++ [8, 4] ++ (List.replicate 10 2 ++ [8, 4]) ++ (bitsOf (tapeHeader base code name)).flatMap hN ++
      (List.replicate 10 2 ++ [8, 4]) ++ (bitsOf code).flatMap hN ++ (bitsOf (le16 (checksum code))).flatMap hN ++ List.replicate 200 2 := by
  unfold trainRunsN
  simp only [highsOf_append, highs_bitsN, normal_runs.2.2.1, normal_runs.2.2.2.1, normal_runs.2.2.2.2, flatten_replicate_blk, highs_mark,
    List.append_nil]

theorem normalFor_of_highs (bits : List Bool) (ps : List (Nat × Nat)) (h : ps.map Prod.fst = bits.flatMap hN) : NormalFor bits ps := by
  induction bits generalizing ps with
  | nil => cases ps with
    | nil => trivial
    | cons p t => simp at h
  | cons b bs ih =>
    match ps, h with
    | [], h => simp [hN] at h
    | [p], h => simp [hN] at h
    | s :: d :: t, h =>
      simp only [List.map_cons, List.flatMap_cons, hN, List.cons_append, List.nil_append, List.cons.injEq] at h
      obtain ⟨h1, h2, h3⟩ := h
      refine ⟨by omega, ?_, ?_, ih t h3⟩
      · rw [h2]; cases b <;> simp
      · rw [h2]; cases b <;> simp

theorem NormalFor_append (b1 b2 : List Bool) (p1 p2 : List (Nat × Nat)) (h1 : NormalFor b1 p1) (h2 : NormalFor b2 p2) :
    NormalFor (b1 ++ b2) (p1 ++ p2) := by
  induction b1 generalizing p1 with
  | nil => cases p1 with
    | nil => simpa using h2
    | cons p ps => simp [NormalFor] at h1
  | cons b bs ih =>
    match p1, h1 with
    | s :: d :: ps, h1 => exact ⟨h1.1, h1.2.1, h1.2.2.1, ih ps h1.2.2.2⟩

theorem trainN_starts_high (base : Nat) (code name : Bytes) :
    ∃ rest, trainRunsN base code name = (200, 2) :: rest := by
  unfold trainRunsN
  rw [normal_runs.2.2.2.2, show (4096 : Nat) = 4095 + 1 from rfl, List.replicate_succ]
  generalize List.replicate 4095 blkN = R
  exact ⟨_, by simp only [blkN, List.flatten_cons, List.cons_append, List.append_assoc]; rfl⟩

theorem mem_replicate_lt (k v m : Nat) (hv : v < m) (ps : List (Nat × Nat)) (h : ps.map Prod.fst = List.replicate k v) :
    ∀ p ∈ ps, p.1 < m := by
  intro p hp
  have : p.1 ∈ ps.map Prod.fst := List.mem_map_of_mem (f := Prod.fst) hp
  rw [h] at this
  have := List.eq_of_mem_replicate this
  omega

/-- **Normal-speed WAV, end to end, for every image.** The samples `encode_as_wav` emits are read
by the independent detector and the model of the BK-0010 monitor's reading as exactly the load
address, the length, the padded name, the image and its end-around-carry checksum. -/
theorem demodNormal_encode (base : Nat) (code name : Bytes) (hb : base < 65536) (hl : code.length < 65536)
    (hc : ∀ b ∈ code, b < 256) (hn : ∀ b ∈ name16 name, b < 256) :
    demodNormal (pulseTrain wavEnv false base code name) =
      some ⟨base, code.length, name16 name, code, checksum code, 4096⟩ := by
  unfold demodNormal
  rw [pulseTrain_normal_eq]
  obtain ⟨rest, hstart⟩ := trainN_starts_high base code name
  have hps := pulses_runs (trainRunsN base code name) (okRuns_trainN base code name) (200, 2) rest hstart (by decide)
  have hh := highs_trainN base code name
  unfold highsOf at hh
  rw [hh] at hps
  generalize pulses (expandRuns (trainRunsN base code name)) = ps at hps
  generalize hP1 : List.replicate 4096 2 = P1 at hps
  generalize hP2 : List.replicate 10 2 = P2 at hps
  generalize hP3 : List.replicate 200 2 = P3 at hps
  have e1 : P1 ++ [8, 4] ++ (P2 ++ [8, 4]) ++ (bitsOf (tapeHeader base code name)).flatMap hN ++ (P2 ++ [8, 4]) ++
      (bitsOf code).flatMap hN ++ (bitsOf (le16 (checksum code))).flatMap hN ++ P3 =
      P1 ++ (8 :: 4 :: (P2 ++ (8 :: 4 :: ((bitsOf (tapeHeader base code name)).flatMap hN ++ (P2 ++ (8 :: 4 ::
        (((bitsOf code).flatMap hN ++ (bitsOf (le16 (checksum code))).flatMap hN) ++ P3))))))) := by
    simp only [List.append_assoc, List.cons_append, List.nil_append]
  rw [e1] at hps
  obtain ⟨pilot1, r1, rfl, hp1, hr1⟩ := List.map_eq_append_iff.mp hps
  match r1, hr1 with
  | [], hr1 => simp at hr1
  | [x], hr1 => simp at hr1
  | m1 :: o1 :: r2, hr1 =>
    simp only [List.map_cons, List.cons.injEq] at hr1
    obtain ⟨hm1, ho1, hr2⟩ := hr1
    obtain ⟨pilot2, r3, rfl, hp2, hr3⟩ := List.map_eq_append_iff.mp hr2
    match r3, hr3 with
    | [], hr3 => simp at hr3
    | [x], hr3 => simp at hr3
    | m2 :: o2 :: r4, hr3 =>
      simp only [List.map_cons, List.cons.injEq] at hr3
      obtain ⟨hm2, ho2, hr4⟩ := hr3
      obtain ⟨hp, r5, rfl, hhp, hr5⟩ := List.map_eq_append_iff.mp hr4
      obtain ⟨pilot3, r6, rfl, hp3, hr6⟩ := List.map_eq_append_iff.mp hr5
      match r6, hr6 with
      | [], hr6 => simp at hr6
      | [x], hr6 => simp at hr6
      | m3 :: o3 :: r7, hr6 =>
        simp only [List.map_cons, List.cons.injEq] at hr6
        obtain ⟨hm3, ho3, hr7⟩ := hr6
        obtain ⟨dp, tail, rfl, hdp, htl⟩ := List.map_eq_append_iff.mp hr7
        have hpl : pilot1.length = 4096 := by
          have := congrArg List.length hp1
          rw [List.length_map, ← hP1, List.length_replicate] at this
          exact this
        have := demodNormal_ideal_partial base code name (checksum code) hb hl hc hn (checksum_lt code)
          pilot1 pilot2 pilot3 hp dp tail m1 m2 m3 o1 o2 o3
          (mem_replicate_lt 4096 2 7 (by omega) pilot1 (by rw [hp1, hP1])) (by omega)
          (mem_replicate_lt 10 2 7 (by omega) pilot2 (by rw [hp2, hP2]))
          (mem_replicate_lt 10 2 7 (by omega) pilot3 (by rw [hp3, hP2]))
          (by omega) (by omega) (by omega) (by omega) (by omega) (by omega)
          (normalFor_of_highs _ _ hhp)
          (by
            rw [bitsOf_append]
            obtain ⟨d1, d2, rfl, hd1, hd2⟩ := List.map_eq_append_iff.mp hdp
            exact NormalFor_append _ _ _ _ (normalFor_of_highs _ _ hd1) (normalFor_of_highs _ _ hd2))
          (by
            intro p hpm
            have := mem_replicate_lt 200 2 3 (by omega) tail (by rw [htl, hP3]) p hpm
            omega)
        rw [this, hpl]


/-! ## part F -/
open Pdpy11.Gen

theorem expandRuns_length (rs : List Run) : (expandRuns rs).length = (rs.map (fun r => r.2)).sum := by
  induction rs with
  | nil => rfl
  | cons r t ih => simp [expandRuns_cons, ih]

def runsLen (rs : List Run) : Nat := (rs.map (fun r => r.2)).sum

theorem runsLen_append (a b : List Run) : runsLen (a ++ b) = runsLen a + runsLen b := by simp [runsLen]

theorem runsLen_flatten_replicate (k : Nat) (rs : List Run) : runsLen (List.replicate k rs).flatten = k * runsLen rs := by
  induction k with
  | zero => simp [runsLen]
  | succ k ih => rw [List.replicate_succ, List.flatten_cons, runsLen_append, ih, Nat.succ_mul, Nat.add_comm]

theorem runsLen_bits (env : WavEnvG) (c : Nat) (h1 : runsLen (rleRuns env.one) ≤ c) (h0 : runsLen (rleRuns env.zero) ≤ c) (bytes : Bytes) :
    runsLen (bitsRuns env bytes) ≤ 8 * c * bytes.length := by
  unfold bitsRuns
  induction bytes with
  | nil => simp [runsLen]
  | cons b t ih =>
    rw [List.flatMap_cons, runsLen_append]
    have hb : runsLen ((List.range 8).flatMap (fun i => rleRuns (if b / 2 ^ i % 2 = 1 then env.one else env.zero))) ≤ 8 * c := by
      have : ∀ (l : List Nat), runsLen (l.flatMap (fun i => rleRuns (if b / 2 ^ i % 2 = 1 then env.one else env.zero))) ≤ l.length * c := by
        intro l
        induction l with
        | nil => simp [runsLen]
        | cons i t ih2 =>
          rw [List.flatMap_cons, runsLen_append]
          have : runsLen (rleRuns (if b / 2 ^ i % 2 = 1 then env.one else env.zero)) ≤ c := by
            by_cases hh : b / 2 ^ i % 2 = 1 <;> simp [hh, h1, h0]
          simp only [List.length_cons]
          have e : (t.length + 1) * c = t.length * c + c := Nat.succ_mul _ _
          omega
      simpa using this (List.range 8)
    simp only [List.length_cons]
    have e : 8 * c * (t.length + 1) = 8 * c * t.length + 8 * c := Nat.mul_succ _ _
    omega

theorem train_length_bound (turbo : Bool) (base : Nat) (code name : Bytes) (hl : code.length < 65536) :
    (pulseTrain (if turbo then wavTurboEnv else wavEnv) turbo base code name).length < 4294967000 := by
  have hhdr : (tapeHeader base code name).length = 20 := by simp [tapeHeader, le16, name16]
  have hck : (le16 (checksum code)).length = 2 := by simp [le16]
  cases turbo with
  | true =>
    simp only [if_true]
    rw [pulseTrain_turbo_eq, expandRuns_length]
    show runsLen (trainRunsT base code name) < _
    unfold trainRunsT
    simp only [runsLen_append, turbo_runs.2.2.1, turbo_runs.2.2.2.1, turbo_runs.2.2.2.2, runsLen_flatten_replicate]
    have b1 := runsLen_bits wavTurboEnv 5 (by rw [turbo_runs.1]; decide) (by rw [turbo_runs.2.1]; decide) (tapeHeader base code name)
    have b2 := runsLen_bits wavTurboEnv 5 (by rw [turbo_runs.1]; decide) (by rw [turbo_runs.2.1]; decide) code
    have b3 := runsLen_bits wavTurboEnv 5 (by rw [turbo_runs.1]; decide) (by rw [turbo_runs.2.1]; decide) (le16 (checksum code))
    rw [hhdr] at b1
    rw [hck] at b3
    simp [runsLen] at *
    omega
  | false =>
    simp only [Bool.false_eq_true, if_false]
    rw [pulseTrain_normal_eq, expandRuns_length]
    show runsLen (trainRunsN base code name) < _
    unfold trainRunsN
    simp only [runsLen_append, normal_runs.2.2.1, normal_runs.2.2.2.1, normal_runs.2.2.2.2, runsLen_flatten_replicate]
    have b1 := runsLen_bits wavEnv 12 (by rw [normal_runs.1]; decide) (by rw [normal_runs.2.1]; decide) (tapeHeader base code name)
    have b2 := runsLen_bits wavEnv 12 (by rw [normal_runs.1]; decide) (by rw [normal_runs.2.1]; decide) code
    have b3 := runsLen_bits wavEnv 12 (by rw [normal_runs.1]; decide) (by rw [normal_runs.2.1]; decide) (le16 (checksum code))
    rw [hhdr] at b1
    rw [hck] at b3
    simp [runsLen, blkN, markN] at *
    omega

/-- **The WAV file carries exactly the image.** For every load address and image that fit 16 bits,
every name: the file `encode_as_wav` produces parses, by the independent RIFF reader, as 8-bit mono
PCM at the format's sample rate, and its data chunk demodulates (BK-0010 monitor reading at normal
speed, the one-pulse-per-bit reading in turbo) to that address, length, name padded to 16 bytes,
image, and the end-around-carry checksum of the image. -/
theorem wav_roundtrip (turbo : Bool) (base : Nat) (code name : Bytes) (hb : base < 65536) (hl : code.length < 65536)
    (hc : ∀ b ∈ code, b < 256) (hn : ∀ b ∈ name16 name, b < 256) :
    ∃ f w, encodeAsWav turbo base code name = some f ∧ parseRiff f = some w ∧ w.channels = 1 ∧ w.bits = 8 ∧
      (if turbo then demodTurbo w.data else demodNormal w.data) =
        some ⟨base, code.length, name16 name, code, eac code, if turbo then 1024 else 4096⟩ := by
  have hstruct := wav_structure turbo base code name hb hl
  have hlen := train_length_bound turbo base code name hl
  have hck := checksum_eq_eac code hc
  cases turbo with
  | true =>
    simp only [if_true] at *
    have hr := riff_wellformed (pulseTrain wavTurboEnv true base code name) wavTurboEnv.sampleRate (by decide) (by omega)
    refine ⟨_, _, hstruct, hr, rfl, rfl, ?_⟩
    simp only []
    rw [demodTurbo_encode base code name hb hl hc hn, hck]
  | false =>
    simp only [Bool.false_eq_true, if_false] at *
    have hr := riff_wellformed (pulseTrain wavEnv false base code name) wavEnv.sampleRate (by decide) (by omega)
    refine ⟨_, _, hstruct, hr, rfl, rfl, ?_⟩
    simp only []
    rw [demodNormal_encode base code name hb hl hc hn, hck]


end Pdpy11.Props.C13

/-! ## the name in the tape header -/

namespace Pdpy11.Props.C13.Names
open Pdpy11.Model.Container

/-- an explicit tape name is written exactly as given, whatever it ends in -/
theorem explicit_name_kept (n path : List Char) : tapeName (some n) path = n := rfl

/-- an inferred name is the file name of the output path … -/
theorem inferred_keeps_other (path : List Char) (h : endsWithCI (baseName path) dotWav = false) :
    tapeName none path = baseName path := by
  simp [tapeName, h]

/-- … without a final `.wav` (and nothing else is removed) -/
theorem inferred_strips_wav (path : List Char) (h : endsWithCI (baseName path) dotWav = true) :
    tapeName none path ++ (baseName path).drop ((baseName path).length - 4) = baseName path := by
  simp [tapeName, h]

theorem mem_takeWhile_holds {α : Type} (p : α → Bool) (l : List α) (x : α) (h : x ∈ l.takeWhile p) : p x = true := by
  induction l with
  | nil => simp at h
  | cons a r ih =>
    simp only [List.takeWhile] at h
    cases hp : p a with
    | false => rw [hp] at h; simp at h
    | true =>
      rw [hp] at h
      rcases List.mem_cons.mp h with e | e
      · rw [e]; exact hp
      · exact ih e

theorem baseName_no_slash (path : List Char) : '/' ∉ baseName path := by
  unfold baseName
  intro h
  have h2 : '/' ∈ path.reverse.takeWhile (· ≠ '/') := by simpa using h
  have := mem_takeWhile_holds _ _ _ h2
  simp at this

/-- the file name is a suffix of the path -/
theorem baseName_suffix (path : List Char) : ∃ pre, pre ++ baseName path = path := by
  unfold baseName
  refine ⟨(path.reverse.dropWhile (· ≠ '/')).reverse, ?_⟩
  rw [← List.reverse_append, List.takeWhile_append_dropWhile, List.reverse_reverse]

example : tapeName none "dir/GAME.WAV".toList = "GAME".toList := by decide
example : tapeName (some "GAME.WAV".toList) "dir/t.wav".toList = "GAME.WAV".toList := by decide
example : tapeName none (defaultWavPath "src/Prog.MAC".toList) = "Prog".toList := by decide

end Pdpy11.Props.C13.Names
