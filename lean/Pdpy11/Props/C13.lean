import Pdpy11.Model.Container
import Pdpy11.Spec.Tape
/-
C13 — output containers carry exactly the image.
-/
namespace Pdpy11.Props.C13
open Pdpy11 Pdpy11.Model Pdpy11.Model.Container Pdpy11.Gen Pdpy11.Spec.Tape

/-! ### raw and bin -/

theorem raw_id (base : Nat) (code : Bytes) : raw base code = code := rfl

/-- bin = base and length as little-endian words, then the bytes -/
theorem bin_layout (base : Nat) (code : Bytes) (hb : base < 65536) (hl : code.length < 65536) :
    ∃ f, bin base code = some f ∧ f.length = 4 + code.length ∧
      rd16 f = base ∧ rd16 (f.drop 2) = code.length ∧ f.drop 4 = code := by
  refine ⟨le16 base ++ le16 code.length ++ code, by simp [bin, hb, hl], by simp [le16]; omega, ?_, ?_, by simp [le16]⟩
  · simp [rd16, le16]; omega
  · simp [rd16, le16]; omega

/-- an image or base that does not fit the 16-bit header fields is not written as something else -/
theorem bin_refuses (base : Nat) (code : Bytes) (h : ¬ (base < 65536 ∧ code.length < 65536)) :
    bin base code = none := by simp [bin, h]

/-! ### RIFF -/

theorem rd32_le32 (n : Nat) (h : n < 4294967296) (rest : List Nat) : rd32 (le32 n ++ rest) = n := by
  simp [rd32, le32]; omega

theorem rd16_le16 (n : Nat) (h : n < 65536) (rest : List Nat) : rd16 (le16 n ++ rest) = n := by
  simp [rd16, le16]; omega

/-- the file is a well-formed 8-bit mono PCM RIFF/WAVE file whose data chunk is exactly the pulse train -/
theorem riff_wellformed (data : Bytes) (rate : Nat) (hr : rate < 4294967296) (hl : data.length + 36 < 4294967296) :
    parseRiff (makeWavFile data rate) = some ⟨1, rate, 8, data⟩ := by
  have e1 : (36 + data.length) % 256 + 256 * ((36 + data.length) / 256 % 256) + 65536 * ((36 + data.length) / 65536 % 256) +
      16777216 * ((36 + data.length) / 16777216 % 256) = 36 + data.length := by omega
  have e2 : data.length % 256 + 256 * (data.length / 256 % 256) + 65536 * (data.length / 65536 % 256) +
      16777216 * (data.length / 16777216 % 256) = data.length := by omega
  have e3 : rate % 256 + 256 * (rate / 256 % 256) + 65536 * (rate / 65536 % 256) + 16777216 * (rate / 16777216 % 256) = rate := by omega
  simp [parseRiff, makeWavFile, ascii, le32, le16, rd32, rd16, e1, e2, e3]
  omega

/-! ### the BK checksum -/

/-- closed form of the end-around-carry accumulator after a total of `t` -/
def eacOf (t : Nat) : Nat := if t = 0 then 0 else (t - 1) % 65535 + 1

theorem eacStep_eacOf (t b : Nat) (hb : b < 256) : eacStep (eacOf t) b = eacOf (t + b) := by
  unfold eacStep eacOf
  by_cases ht : t = 0
  · subst ht
    by_cases hb0 : b = 0
    · subst hb0; simp
    · have : ¬ 0 + b = 0 := by omega
      simp only [↓reduceIte, this]
      split <;> omega
  · by_cases hb0 : b = 0
    · subst hb0; simp [ht]; omega
    · have : ¬ t + b = 0 := by omega
      simp only [ht, this, ↓reduceIte]
      split <;> omega

theorem foldl_eac (code : Bytes) (t : Nat) (h : ∀ b ∈ code, b < 256) :
    code.foldl eacStep (eacOf t) = eacOf (t + sum code) := by
  induction code generalizing t with
  | nil => simp [sum]
  | cons b r ih =>
    have hb := h b (by simp)
    have hr : ∀ x ∈ r, x < 256 := fun x hx => h x (by simp [hx])
    simp only [List.foldl_cons]
    rw [eacStep_eacOf t b hb, ih (t + b) hr]
    have : sum (b :: r) = b + sum r := by
      simp only [sum, List.foldl_cons]
      have key : ∀ (l : List Nat) (a : Nat), l.foldl (· + ·) a = a + l.foldl (· + ·) 0 := by
        intro l
        induction l with
        | nil => simp
        | cons x xs ihx => intro a; simp only [List.foldl_cons]; rw [ihx (a + x), ihx (0 + x)]; omega
      rw [key r (0 + b)]; omega
    rw [this]; congr 1; omega

/-- **The checksum the assembler stores is the BK-0010 end-around-carry sum**, for every block -/
theorem checksum_eq_eac (code : Bytes) (h : ∀ b ∈ code, b < 256) : checksum code = eac code := by
  have := foldl_eac code 0 h
  simp only [eacOf, ↓reduceIte, Nat.zero_add] at this
  unfold eac checksum
  rw [this]

theorem checksum_lt (code : Bytes) : checksum code < 65536 := by
  unfold checksum; simp only; split <;> omega

/-! ### the pulse train -/

/-- bits are emitted least significant first: reading 8 bits back in that order gives the byte -/
theorem byte_bits_lsb_first (b : Nat) (hb : b < 256) :
    bitsToBytes ((List.range 8).map (fun i => decide (b / 2 ^ i % 2 = 1))) = [b] := by
  have hall : (List.range 256).all (fun b => bitsToBytes ((List.range 8).map (fun i => decide (b / 2 ^ i % 2 = 1))) == [b]) = true := by
    decide +kernel
  have := List.all_eq_true.mp hall b (List.mem_range.mpr hb)
  simpa using this

/-- the tape header is base, length and the 16-byte name -/
theorem tape_header_layout (base : Nat) (code name : Bytes) (hb : base < 65536) (hl : code.length < 65536) :
    (tapeHeader base code name).length = 20 ∧ rd16 (tapeHeader base code name) = base ∧
    rd16 ((tapeHeader base code name).drop 2) = code.length ∧
    ((tapeHeader base code name).drop 4).take 16 = name16 name := by
  have hn : (name16 name).length = 16 := by simp [name16]
  refine ⟨by simp [tapeHeader, le16, hn], ?_, ?_, ?_⟩
  · simp [tapeHeader, rd16, le16]; omega
  · simp [tapeHeader, rd16, le16]; omega
  · simp [tapeHeader, le16, ← hn]

/-- composition of the file: RIFF header, then pilot+marker, header bits, pause, data bits,
    (turbo: pause,) checksum bits, trailer -/
theorem wav_structure (turbo : Bool) (base : Nat) (code name : Bytes) (hb : base < 65536) (hl : code.length < 65536) :
    encodeAsWav turbo base code name =
      some (makeWavFile (pulseTrain (if turbo then wavTurboEnv else wavEnv) turbo base code name)
        (if turbo then wavTurboEnv else wavEnv).sampleRate) := by
  simp [encodeAsWav, hb, hl]

/-! ### the regenerated pulse shapes, read by the independent pulse detector -/

/-- normal speed: a zero is (sync, short), a one is (sync, long); the marker is an 8-sample
    pulse followed by a long one; pilot (4096 periods), short pilot and trailer are short pulses -/
theorem normal_shapes :
    pulses (expandRle wavEnv.zero) = [(2, 2), (2, 2)] ∧
    pulses (expandRle wavEnv.one) = [(2, 2), (4, 4)] ∧
    pulses (expandRle wavEnv.pause) = List.replicate 10 (2, 2) ++ [(8, 8), (4, 4)] ∧
    wavEnv.sync = ([([(200, 2), (48, 2)], 4096), ([(200, 8)], 1), ([(48, 8)], 1), ([(208, 4)], 1), ([(48, 4)], 1)] ++ wavEnv.pause) ∧
    wavEnv.eof = [([(200, 2), (48, 2)], 200)] ∧ wavEnv.sampleRate = 21428 := by
  decide +kernel

theorem turbo_shapes :
    pulses (expandRle wavTurboEnv.zero) = [(1, 2)] ∧
    pulses (expandRle wavTurboEnv.one) = [(3, 2)] ∧
    pulses (expandRle wavTurboEnv.pause) = [(0, 4)] ∧
    wavTurboEnv.sync = [([(200, 3), (48, 3)], 1024), ([(200, 12)], 1), ([(48, 12)], 1)] ∧
    pulses (expandRle wavTurboEnv.eof) = [(3, 3), (3, 3)] ∧ wavTurboEnv.sampleRate = 40000 := by
  decide +kernel

/-! ### non-vacuity -/
example : checksum (List.replicate 257 255) = 65535 ∧ eac (List.replicate 257 255) = 65535 := by decide +kernel
example : bin 0o1000 [1, 2, 3] = some [0, 2, 3, 0, 1, 2, 3] := by decide

end Pdpy11.Props.C13
