import Pdpy11.Model.Ops
import Pdpy11.Model.Eval
import Mathlib.Data.Int.Bitwise
/-
C05 — expression values follow the documented arithmetic.
Part 1: the operators on unbounded integers and the operator table.
-/
namespace Pdpy11.Props.C05
open Pdpy11 Pdpy11.Model Pdpy11.Model.Ops

/-! ### `/` and `%` floor toward minus infinity -/

/-- for `b ≠ 0`: `a = b·q + r`, and the remainder lies between 0 and `b` (sign of the divisor) -/
theorem div_mod_floor (a b : Int) (hb : b ≠ 0) :
    ∃ q r, binop "div" a b = some (q, none) ∧ binop "mod" a b = some (r, none) ∧
      a = b * q + r ∧ (0 < b → 0 ≤ r ∧ r < b) ∧ (b < 0 → b < r ∧ r ≤ 0) := by
  refine ⟨Int.fdiv a b, Int.fmod a b, by simp [binop, hb], by simp [binop, hb], (Int.mul_fdiv_add_fmod a b).symm, ?_, ?_⟩
  · intro hpos
    rw [Int.fmod_eq_emod]
    have h0 : (0 ≤ b ∨ b ∣ a) := Or.inl (by omega)
    simp only [h0, ↓reduceIte, Int.add_zero]
    exact ⟨Int.emod_nonneg _ hb, Int.emod_lt_of_pos _ hpos⟩
  · intro hneg
    rw [Int.fmod_eq_emod]
    by_cases hd : b ∣ a
    · have h0 : (0 ≤ b ∨ b ∣ a) := Or.inr hd
      simp only [h0, ↓reduceIte, Int.add_zero, Int.emod_eq_zero_of_dvd hd]
      omega
    · have h0 : ¬ (0 ≤ b ∨ b ∣ a) := by
        intro h; rcases h with h | h
        · omega
        · exact hd h
      simp only [h0, ↓reduceIte]
      have h1 := Int.emod_nonneg a hb
      have h2 : a % b < -b := by
        have := Int.emod_lt_of_pos a (show 0 < -b by omega)
        rwa [Int.emod_neg] at this
      have h3 : a % b ≠ 0 := fun h => hd (Int.dvd_of_emod_eq_zero h)
      omega

/-- division by zero is reported, not given some value silently -/
theorem div_by_zero_reports (a : Int) :
    binop "div" a 0 = some (0, some "arithmetic-error") ∧ binop "mod" a 0 = some (0, some "arithmetic-error") := by
  simp [binop]

/-! ### shifts -/

theorem shl_spec (a b : Int) (hb : 0 ≤ b) (hs : b ≤ Gen.maxShift) : binop "lshift" a b = some (a * 2 ^ b.toNat, none) := by
  have h1 : -(Gen.maxShift : Int) ≤ b := by have : (0 : Int) ≤ (Gen.maxShift : Int) := Int.natCast_nonneg _; omega
  simp [binop, shiftSane, hb, hs, h1]

/-- `>>` is the floor of `a / 2ᵇ` -/
theorem shr_spec (a b : Int) (hb : 0 ≤ b) (hs : b ≤ Gen.maxShift) : binop "rshift" a b = some (a / ((2 ^ b.toNat : Nat) : Int), none) := by
  have h1 : -(Gen.maxShift : Int) ≤ b := by have : (0 : Int) ≤ (Gen.maxShift : Int) := Int.natCast_nonneg _; omega
  by_cases h0 : b = 0
  · subst h0; simp [binop, shiftSane]
  · have hp : b > 0 := by omega
    simp [binop, shiftSane, hs, h1, h0, hp, Int.shiftRight_eq_div_pow]

/-- negative shift counts are reported -/
theorem neg_shift_reports (a b : Int) (hb : b < 0) :
    (∃ v, binop "lshift" a b = some (v, some "arithmetic-error")) ∧
    (∃ v, binop "rshift" a b = some (v, some "arithmetic-error")) := by
  have h1 : ¬ b ≥ 0 := by omega
  have h2 : ¬ b = 0 := by omega
  have h3 : ¬ b > 0 := by omega
  by_cases hs : shiftSane b = true
  · exact ⟨⟨a >>> (-b).toNat, by simp [binop, hs, h1]⟩, ⟨a * 2 ^ (-b).toNat, by simp [binop, hs, h2, h3]⟩⟩
  · exact ⟨⟨0, by simp [binop, hs]⟩, ⟨0, by simp [binop, hs]⟩⟩

/-- shift counts beyond `MAX_SHIFT` bits in either direction are reported by all three shift operators
(instead of being carried out) -/
theorem absurd_shift_reports (a b : Int) (hb : b > Gen.maxShift ∨ b < -(Gen.maxShift : Int)) :
    binop "lshift" a b = some (0, some "arithmetic-error") ∧ binop "rshift" a b = some (0, some "arithmetic-error") ∧
    binop "lsh" a b = some (0, some "arithmetic-error") := by
  have hs : shiftSane b = false := by
    unfold shiftSane
    rcases hb with h | h
    · have : ¬ b ≤ (Gen.maxShift : Int) := by omega
      simp [this]
    · have : ¬ -(Gen.maxShift : Int) ≤ b := by omega
      simp [this]
  simp [binop, hs]

/-- `_` shifts left for a non-negative count and right (floor) for a negative one, without error -/
theorem lsh_spec (a b : Int) (hs : shiftSane b = true) :
    (0 ≤ b → binop "lsh" a b = some (a * 2 ^ b.toNat, none)) ∧
    (b < 0 → binop "lsh" a b = some (a / ((2 ^ (-b).toNat : Nat) : Int), none)) := by
  constructor
  · intro h; simp [binop, hs, h]
  · intro h
    have : ¬ b ≥ 0 := by omega
    simp [binop, hs, this, Int.shiftRight_eq_div_pow]

/-! ### bitwise operators: two's complement on unbounded integers -/

theorem band_eq_land (a b : Int) : band a b = Int.land a b := by
  cases a <;> cases b <;> rfl

theorem bor_eq_lor (a b : Int) : bor a b = Int.lor a b := by
  cases a <;> cases b <;> rfl

theorem bxor_eq_xor (a b : Int) : bxor a b = Int.xor a b := by
  cases a <;> cases b <;> rfl

theorem bnot_eq_lnot (a : Int) : bnot a = Int.lnot a := by
  cases a <;> rfl

/-- bit `k` of `a & b`, `a | b`, `a ^ b`, `~a` is the Boolean combination of the bits of the
    operands, for every bit position and every pair of (possibly negative) integers -/
theorem bitwise_spec (a b : Int) (k : Nat) :
    Int.testBit (band a b) k = (Int.testBit a k && Int.testBit b k) ∧
    Int.testBit (bor a b) k = (Int.testBit a k || Int.testBit b k) ∧
    Int.testBit (bxor a b) k = xor (Int.testBit a k) (Int.testBit b k) ∧
    Int.testBit (bnot a) k = !(Int.testBit a k) := by
  rw [band_eq_land, bor_eq_lor, bxor_eq_xor, bnot_eq_lnot]
  exact ⟨Int.testBit_land a b k, Int.testBit_lor a b k, Int.testBit_lxor a b k, Int.testBit_lnot a k⟩

theorem inv_is_minus_minus_one (a : Int) : unop "inv" a = some (-a - 1, none) ∧ unop "inv2" a = some (-a - 1, none) := by
  cases a with
  | ofNat m => simp [unop, bnot] <;> omega
  | negSucc m => simp [unop, bnot] <;> omega

/-! ### the regenerated operator table -/

/-- every operator of the table has an implementation in the model -/
theorem ops_cover_table :
    Gen.operators.all (fun o => match o.kind with
      | .infix => (binop o.fname 6 3).isSome
      | _ => (unop o.fname 6).isSome) = true := by decide

/-- C-like precedence (lower binds tighter) and left associativity of all twelve arithmetic
    infix operators; unary `+ - ~ ^C` bind tighter than every infix operator, `# @ %` looser -/
theorem operator_table_is_c_like :
    (Gen.operators.filter (fun o => o.kind == .infix && o.fname != "call")).map (fun o => (o.char, o.prec, o.leftAssoc)) =
      [("*", 3, true), ("/", 3, true), ("%", 3, true), ("+", 4, true), ("-", 4, true),
       ("<<", 5, true), (">>", 5, true), ("_", 5, true), ("&", 8, true), ("^", 9, true), ("|", 10, true), ("!", 10, true)] ∧
    (Gen.operators.filter (fun o => o.kind == .prefix)).map (fun o => (o.char, o.prec)) =
      [("+", 2), ("-", 2), ("~", 2), ("^c", 2), ("#", 15), ("@", 15), ("%", 15)] ∧
    (Gen.operators.filter (fun o => o.kind == .infix)).map (fun o => (o.char, o.fname)) =
      [("*", "mul"), ("/", "div"), ("%", "mod"), ("+", "add"), ("-", "sub"), ("<<", "lshift"), (">>", "rshift"),
       ("_", "lsh"), ("&", "and_"), ("^", "xor"), ("|", "or_"), ("!", "or2"), ("$", "call")] := by decide

/-! ### character literals -/

/-- `'c` / `"cc` pack their (at most two) bytes little-endian -/
theorem char_literal_le (cs : Directive.Charset) (s : List Nat) (b0 b1 : Nat)
    (h : Directive.encodeStr cs s = some [b0, b1]) :
    (Eval.charLiteralValue cs s).run = ⟨.ok ((b0 + 256 * b1 : Nat) : Int), {}⟩ := by
  simp [Eval.charLiteralValue, h, Insn.M.run]

/-! ### non-vacuity -/
example : binop "div" (-7) 2 = some (-4, none) ∧ binop "mod" (-7) 2 = some (1, none) ∧ binop "mod" 7 (-2) = some (-1, none) := by decide
example : binop "and_" (-4) 7 = some (4, none) ∧ binop "xor" (-4) 1 = some (-3, none) ∧ binop "or_" (-4) 1 = some (-3, none) := by decide +kernel
example : binop "rshift" (-7) 1 = some (-4, none) := by decide

end Pdpy11.Props.C05
