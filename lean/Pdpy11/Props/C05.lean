import Pdpy11.Model.Shunt
import Pdpy11.Model.ShuntP
import Pdpy11.Model.Ops
import Pdpy11.Model.Eval
import Mathlib.Data.Int.Bitwise
/-
C05 — expression values follow the documented arithmetic.
Part 1: the operators on unbounded integers and the operator table.
-/
namespace Pdpy11.Props.C05
open Pdpy11 Pdpy11.Model Pdpy11.Model.Ops

/-! ### `/` and `%` floor toward minus infinity -/

/-- for `b ≠ 0`: `a = b·q + r`, and the remainder lies between 0 and `b` (sign of the divisor) -/
theorem div_mod_floor (a b : Int) (hb : b ≠ 0) :
    ∃ q r, binop "div" a b = some (q, none) ∧ binop "mod" a b = some (r, none) ∧
      a = b * q + r ∧ (0 < b → 0 ≤ r ∧ r < b) ∧ (b < 0 → b < r ∧ r ≤ 0) := by
  refine ⟨Int.fdiv a b, Int.fmod a b, by simp [binop, hb], by simp [binop, hb], (Int.mul_fdiv_add_fmod a b).symm, ?_, ?_⟩
  · intro hpos
    rw [Int.fmod_eq_emod]
    have h0 : (0 ≤ b ∨ b ∣ a) := Or.inl (by omega)
    simp only [h0, ↓reduceIte, Int.add_zero]
    exact ⟨Int.emod_nonneg _ hb, Int.emod_lt_of_pos _ hpos⟩
  · intro hneg
    rw [Int.fmod_eq_emod]
    by_cases hd : b ∣ a
    · have h0 : (0 ≤ b ∨ b ∣ a) := Or.inr hd
      simp only [h0, ↓reduceIte, Int.add_zero, Int.emod_eq_zero_of_dvd hd]
      omega
    · have h0 : ¬ (0 ≤ b ∨ b ∣ a) := by
        intro h; rcases h with h | h
        · omega
        · exact hd h
      simp only [h0, ↓reduceIte]
      have h1 := Int.emod_nonneg a hb
      have h2 : a % b < -b := by
        have := Int.emod_lt_of_pos a (show 0 < -b by omega)
        rwa [Int.emod_neg] at this
      have h3 : a % b ≠ 0 := fun h => hd (Int.dvd_of_emod_eq_zero h)
      omega

/-- division by zero is reported, not given some value silently -/
theorem div_by_zero_reports (a : Int) :
    binop "div" a 0 = some (0, some "arithmetic-error") ∧ binop "mod" a 0 = some (0, some "arithmetic-error") := by
  simp [binop]

/-! ### shifts -/

theorem shl_spec (a b : Int) (hb : 0 ≤ b) (hs : b ≤ Gen.maxShift) : binop "lshift" a b = some (a * 2 ^ b.toNat, none) := by
  have h1 : -(Gen.maxShift : Int) ≤ b := by have : (0 : Int) ≤ (Gen.maxShift : Int) := Int.natCast_nonneg _; omega
  simp [binop, shiftSane, hb, hs, h1]

/-- `>>` is the floor of `a / 2ᵇ` -/
theorem shr_spec (a b : Int) (hb : 0 ≤ b) (hs : b ≤ Gen.maxShift) : binop "rshift" a b = some (a / ((2 ^ b.toNat : Nat) : Int), none) := by
  have h1 : -(Gen.maxShift : Int) ≤ b := by have : (0 : Int) ≤ (Gen.maxShift : Int) := Int.natCast_nonneg _; omega
  by_cases h0 : b = 0
  · subst h0; simp [binop, shiftSane]
  · have hp : b > 0 := by omega
    simp [binop, shiftSane, hs, h1, h0, hp, Int.shiftRight_eq_div_pow]

/-- negative shift counts are reported -/
theorem neg_shift_reports (a b : Int) (hb : b < 0) :
    (∃ v, binop "lshift" a b = some (v, some "arithmetic-error")) ∧
    (∃ v, binop "rshift" a b = some (v, some "arithmetic-error")) := by
  have h1 : ¬ b ≥ 0 := by omega
  have h2 : ¬ b = 0 := by omega
  have h3 : ¬ b > 0 := by omega
  by_cases hs : shiftSane b = true
  · exact ⟨⟨a >>> (-b).toNat, by simp [binop, hs, h1]⟩, ⟨a * 2 ^ (-b).toNat, by simp [binop, hs, h2, h3]⟩⟩
  · exact ⟨⟨0, by simp [binop, hs]⟩, ⟨0, by simp [binop, hs]⟩⟩

/-- shift counts beyond `MAX_SHIFT` bits in either direction are reported by all three shift operators
(instead of being carried out) -/
theorem absurd_shift_reports (a b : Int) (hb : b > Gen.maxShift ∨ b < -(Gen.maxShift : Int)) :
    binop "lshift" a b = some (0, some "arithmetic-error") ∧ binop "rshift" a b = some (0, some "arithmetic-error") ∧
    binop "lsh" a b = some (0, some "arithmetic-error") := by
  have hs : shiftSane b = false := by
    unfold shiftSane
    rcases hb with h | h
    · have : ¬ b ≤ (Gen.maxShift : Int) := by omega
      simp [this]
    · have : ¬ -(Gen.maxShift : Int) ≤ b := by omega
      simp [this]
  simp [binop, hs]

/-- `_` shifts left for a non-negative count and right (floor) for a negative one, without error -/
theorem lsh_spec (a b : Int) (hs : shiftSane b = true) :
    (0 ≤ b → binop "lsh" a b = some (a * 2 ^ b.toNat, none)) ∧
    (b < 0 → binop "lsh" a b = some (a / ((2 ^ (-b).toNat : Nat) : Int), none)) := by
  constructor
  · intro h; simp [binop, hs, h]
  · intro h
    have : ¬ b ≥ 0 := by omega
    simp [binop, hs, this, Int.shiftRight_eq_div_pow]

/-! ### bitwise operators: two's complement on unbounded integers -/

theorem band_eq_land (a b : Int) : band a b = Int.land a b := by
  cases a <;> cases b <;> rfl

theorem bor_eq_lor (a b : Int) : bor a b = Int.lor a b := by
  cases a <;> cases b <;> rfl

theorem bxor_eq_xor (a b : Int) : bxor a b = Int.xor a b := by
  cases a <;> cases b <;> rfl

theorem bnot_eq_lnot (a : Int) : bnot a = Int.lnot a := by
  cases a <;> rfl

/-- bit `k` of `a & b`, `a | b`, `a ^ b`, `~a` is the Boolean combination of the bits of the
    operands, for every bit position and every pair of (possibly negative) integers -/
theorem bitwise_spec (a b : Int) (k : Nat) :
    Int.testBit (band a b) k = (Int.testBit a k && Int.testBit b k) ∧
    Int.testBit (bor a b) k = (Int.testBit a k || Int.testBit b k) ∧
    Int.testBit (bxor a b) k = xor (Int.testBit a k) (Int.testBit b k) ∧
    Int.testBit (bnot a) k = !(Int.testBit a k) := by
  rw [band_eq_land, bor_eq_lor, bxor_eq_xor, bnot_eq_lnot]
  exact ⟨Int.testBit_land a b k, Int.testBit_lor a b k, Int.testBit_lxor a b k, Int.testBit_lnot a k⟩

theorem inv_is_minus_minus_one (a : Int) : unop "inv" a = some (-a - 1, none) ∧ unop "inv2" a = some (-a - 1, none) := by
  cases a with
  | ofNat m => simp [unop, bnot] <;> omega
  | negSucc m => simp [unop, bnot] <;> omega

/-! ### the regenerated operator table -/

/-- every operator of the table has an implementation in the model -/
theorem ops_cover_table :
    Gen.operators.all (fun o => match o.kind with
      | .infix => (binop o.fname 6 3).isSome
      | _ => (unop o.fname 6).isSome) = true := by decide

/-- C-like precedence (lower binds tighter) and left associativity of all twelve arithmetic
    infix operators; unary `+ - ~ ^C` bind tighter than every infix operator, `# @ %` looser -/
theorem operator_table_is_c_like :
    (Gen.operators.filter (fun o => o.kind == .infix && o.fname != "call")).map (fun o => (o.char, o.prec, o.leftAssoc)) =
      [("*", 3, true), ("/", 3, true), ("%", 3, true), ("+", 4, true), ("-", 4, true),
       ("<<", 5, true), (">>", 5, true), ("_", 5, true), ("&", 8, true), ("^", 9, true), ("|", 10, true), ("!", 10, true)] ∧
    (Gen.operators.filter (fun o => o.kind == .prefix)).map (fun o => (o.char, o.prec)) =
      [("+", 2), ("-", 2), ("~", 2), ("^c", 2), ("#", 15), ("@", 15), ("%", 15)] ∧
    (Gen.operators.filter (fun o => o.kind == .infix)).map (fun o => (o.char, o.fname)) =
      [("*", "mul"), ("/", "div"), ("%", "mod"), ("+", "add"), ("-", "sub"), ("<<", "lshift"), (">>", "rshift"),
       ("_", "lsh"), ("&", "and_"), ("^", "xor"), ("|", "or_"), ("!", "or2"), ("$", "call")] := by decide

/-! ### character literals -/

/-- `'c` / `"cc` pack their (at most two) bytes little-endian -/
theorem char_literal_le (cs : Directive.Charset) (s : List Nat) (b0 b1 : Nat)
    (h : Directive.encodeStr cs s = some [b0, b1]) :
    (Eval.charLiteralValue cs s).run = ⟨.ok ((b0 + 256 * b1 : Nat) : Int), {}⟩ := by
  simp [Eval.charLiteralValue, h, Insn.M.run]

/-! ### non-vacuity -/
example : binop "div" (-7) 2 = some (-4, none) ∧ binop "mod" (-7) 2 = some (1, none) ∧ binop "mod" 7 (-2) = some (-1, none) := by decide
example : binop "and_" (-4) 7 = some (4, none) ∧ binop "xor" (-4) 1 = some (-3, none) ∧ binop "or_" (-4) 1 = some (-3, none) := by decide +kernel
example : binop "rshift" (-7) 1 = some (-4, none) := by decide

/-! ## second part -/
open Pdpy11.Model.Shunt

def rootPrec : Tree → Nat
  | .atom _ => 0
  | .node o _ _ => o.prec

def Normal : Tree → Prop
  | .atom _ => True
  | .node o l r => Normal l ∧ Normal r ∧ rootPrec l ≤ o.prec ∧ rootPrec r < o.prec

def stFlat : List (Tree × Op) → List Tok
  | [] => []
  | (l, o) :: rest => stFlat rest ++ flat l ++ [.o o]

def restFlat : List (Op × Nat) → List Tok
  | [] => []
  | (o, n) :: r => [.o o, .a n] ++ restFlat r

theorem popWhile_flat (p : Nat) (lf : Bool) (e : Tree) (st : List (Tree × Op)) :
    stFlat (popWhile p lf e st).2 ++ flat (popWhile p lf e st).1 = stFlat st ++ flat e := by
  induction st generalizing e with
  | nil => simp [popWhile]
  | cons hd tl ih =>
    obtain ⟨l, o⟩ := hd
    unfold popWhile
    split
    · rw [ih]; simp [stFlat, flat, List.append_assoc]
    · rfl

theorem popAll_flat (e : Tree) (st : List (Tree × Op)) :
    flat (popAll e st) = stFlat st ++ flat e := by
  induction st generalizing e with
  | nil => simp [popAll, stFlat]
  | cons hd tl ih =>
    obtain ⟨l, o⟩ := hd
    simp [popAll, ih, stFlat, flat, List.append_assoc]

theorem shuntAux_flat (e : Tree) (st : List (Tree × Op)) (rest : List (Op × Nat)) :
    flat (shuntAux e st rest) = stFlat st ++ flat e ++ restFlat rest := by
  induction rest generalizing e st with
  | nil => simp [shuntAux, popAll_flat, restFlat]
  | cons hd tl ih =>
    obtain ⟨o, n⟩ := hd
    simp only [shuntAux]
    rw [ih]
    simp only [stFlat, flat, restFlat]
    have := popWhile_flat o.prec o.left e st
    simp only [List.append_assoc] at *
    rw [← List.append_assoc (stFlat _), this]
    simp [List.append_assoc]

/-- the tree contains exactly the given operands and operators, in the given order (any
precedences, any associativity) -/
theorem flatten_shunt (n : Nat) (rest : List (Op × Nat)) :
    flat (shunt n rest) = .a n :: restFlat rest := by
  simp [shunt, shuntAux_flat, stFlat, flat]

/-- stack invariant -/
def StInv : Tree → List (Tree × Op) → Prop
  | _, [] => True
  | e, (l, o) :: rest => Normal l ∧ rootPrec l ≤ o.prec ∧ rootPrec e < o.prec ∧ StInv (.node o l e) rest

@[simp] theorem rootPrec_node (o l r) : rootPrec (.node o l r) = o.prec := rfl
@[simp] theorem rootPrec_atom (n) : rootPrec (.atom n) = 0 := rfl

theorem StInv_mono {e e' : Tree} {st} (h : rootPrec e' ≤ rootPrec e) (hi : StInv e st) : StInv e' st := by
  cases st with
  | nil => trivial
  | cons hd tl =>
    obtain ⟨l, o⟩ := hd
    obtain ⟨h1, h2, h3, h4⟩ := hi
    exact ⟨h1, h2, Nat.lt_of_le_of_lt h h3, by
      apply StInv_mono (e := .node o l e) _ h4
      simp⟩

theorem popAll_normal (e : Tree) (st) (he : Normal e) (hi : StInv e st) : Normal (popAll e st) := by
  induction st generalizing e with
  | nil => simpa [popAll]
  | cons hd tl ih =>
    obtain ⟨l, o⟩ := hd
    obtain ⟨h1, h2, h3, h4⟩ := hi
    simp only [popAll]
    exact ih _ ⟨h1, he, h2, h3⟩ h4

theorem popWhile_inv (p : Nat) (e : Tree) (st) (he : Normal e) (hi : StInv e st) :
    Normal (popWhile p true e st).1 ∧ StInv (popWhile p true e st).1 (popWhile p true e st).2 ∧
    (rootPrec (popWhile p true e st).1 ≤ max p (rootPrec e)) ∧
    (∀ l o tl, (popWhile p true e st).2 = (l, o) :: tl → p < o.prec) := by
  induction st generalizing e with
  | nil =>
    refine ⟨by simpa [popWhile] using he, by simp [popWhile, StInv], by simp [popWhile]; omega, by simp [popWhile]⟩
  | cons hd tl ih =>
    obtain ⟨l, o⟩ := hd
    obtain ⟨h1, h2, h3, h4⟩ := hi
    unfold popWhile
    split
    · rename_i hle
      have := ih (.node o l e) ⟨h1, he, h2, h3⟩ h4
      obtain ⟨a, b, c, d⟩ := this
      refine ⟨a, b, ?_, d⟩
      rw [rootPrec_node] at c
      have : o.prec ≤ p := by rcases hle with h | h <;> omega
      omega
    · rename_i hnle
      refine ⟨he, ⟨h1, h2, h3, h4⟩, by simp only []; omega, ?_⟩
      intro l' o' tl' heq
      simp only [List.cons.injEq, Prod.mk.injEq] at heq
      obtain ⟨⟨_, rfl⟩, _⟩ := heq
      have : ¬ (o.prec < p ∨ o.prec = p) := by simpa using hnle
      omega

theorem shuntAux_normal (n0 : Nat) (st) (rest : List (Op × Nat)) (hi : StInv (.atom n0) st)
    (hpos : ∀ x ∈ rest, 0 < x.1.prec ∧ x.1.left = true) :
    Normal (shuntAux (.atom n0) st rest) := by
  induction rest generalizing n0 st with
  | nil => exact popAll_normal _ st trivial hi
  | cons hd tl ih =>
    obtain ⟨o, n⟩ := hd
    simp only [shuntAux]
    have hl : o.left = true := (hpos (o, n) (by simp)).2
    rw [hl]
    obtain ⟨a, b, c, d⟩ := popWhile_inv o.prec (.atom n0) st trivial hi
    apply ih
    · have hc : rootPrec (popWhile o.prec true (.atom n0) st).1 ≤ o.prec := by
        rw [rootPrec_atom] at c; omega
      refine ⟨a, hc, ?_, ?_⟩
      · rw [rootPrec_atom]; exact (hpos (o, n) (by simp)).1
      · generalize hst : (popWhile o.prec true (.atom n0) st).2 = st' at *
        generalize he' : (popWhile o.prec true (.atom n0) st).1 = e' at *
        cases st' with
        | nil => trivial
        | cons hd' tl' =>
          obtain ⟨l', o'⟩ := hd'
          obtain ⟨b1, b2, b3, b4⟩ := b
          have := d l' o' tl' rfl
          refine ⟨b1, b2, by rw [rootPrec_node]; exact this, ?_⟩
          exact StInv_mono (e := .node o' l' e') (by simp) b4
    · intro x hx; exact hpos x (by simp [hx])

/-- for left-associative operators (all of pdpy11's value operators) the tree is in precedence
normal form: tighter operators are nested deeper, equal precedence groups to the left -/
theorem shunt_normal (n : Nat) (rest : List (Op × Nat)) (hpos : ∀ x ∈ rest, 0 < x.1.prec ∧ x.1.left = true) :
    Normal (shunt n rest) := shuntAux_normal n [] rest trivial hpos


/-! ### the normal form is unique: the loop's tree is *the* C-like reading -/

def tokPrec : Tok → Nat
  | .a _ => 0
  | .o o => o.prec

theorem tok_le_root (t : Tree) (h : Normal t) : ∀ tok ∈ flat t, tokPrec tok ≤ rootPrec t := by
  induction t with
  | atom n => intro tok hm; simp [flat] at hm; subst hm; simp [tokPrec]
  | node o l r ihl ihr =>
    obtain ⟨hl, hr, h1, h2⟩ := h
    intro tok hm
    simp only [flat, List.mem_append, List.mem_singleton] at hm
    rcases hm with (hm | hm) | hm
    · have := ihl hl tok hm; simp; omega
    · subst hm; simp [tokPrec]
    · have := ihr hr tok hm; simp; omega

/-- a list splits in only one way into (things of weight ≤ w a) ++ a :: (things of weight < w a) -/
theorem split_unique {α : Type} (w : α → Nat) (xs ys xs' ys' : List α) (a a' : α)
    (h : xs ++ a :: ys = xs' ++ a' :: ys')
    (hx : ∀ t ∈ xs, w t ≤ w a) (hy : ∀ t ∈ ys, w t < w a)
    (hx' : ∀ t ∈ xs', w t ≤ w a') (hy' : ∀ t ∈ ys', w t < w a') : xs = xs' ∧ a = a' ∧ ys = ys' := by
  induction xs generalizing xs' with
  | nil =>
    cases xs' with
    | nil => simp at h; exact ⟨rfl, h.1, h.2⟩
    | cons b xs'' =>
      simp only [List.nil_append, List.cons_append, List.cons.injEq] at h
      obtain ⟨hab, hys⟩ := h
      have h1 : w a' < w a := hy a' (by rw [hys]; simp)
      have h2 : w a ≤ w a' := by rw [hab]; exact hx' b (by simp)
      omega
  | cons b xs1 ih =>
    cases xs' with
    | nil =>
      simp only [List.nil_append, List.cons_append, List.cons.injEq] at h
      obtain ⟨hba, hys⟩ := h
      have h1 : w a < w a' := hy' a (by rw [← hys]; simp)
      have h2 : w a' ≤ w a := by rw [← hba]; exact hx b (by simp)
      omega
    | cons b' xs1' =>
      simp only [List.cons_append, List.cons.injEq] at h
      obtain ⟨hb, ht⟩ := h
      have := ih xs1' ht (fun t ht' => hx t (by simp [ht'])) (fun t ht' => hx' t (by simp [ht']))
      exact ⟨by rw [hb, this.1], this.2.1, this.2.2⟩

theorem flat_length_pos (t : Tree) : 0 < (flat t).length := by
  cases t with
  | atom n => simp [flat]
  | node o l r => simp [flat]; omega

/-- Two trees in normal form with the same tokens in the same order are the same tree. Together
with `flatten_shunt` and `shunt_normal`: the loop returns the unique tree that has the given
tokens in order and respects precedence and left associativity. -/
theorem normal_unique (t1 t2 : Tree) (h1 : Normal t1) (h2 : Normal t2) (hf : flat t1 = flat t2) : t1 = t2 := by
  induction t1 generalizing t2 with
  | atom n =>
    cases t2 with
    | atom m => simp [flat] at hf; rw [hf]
    | node o l r =>
      have hl := flat_length_pos l
      have hr := flat_length_pos r
      have := congrArg List.length hf
      simp [flat] at this
      omega
  | node o l r ihl ihr =>
    cases t2 with
    | atom m =>
      have hl := flat_length_pos l
      have hr := flat_length_pos r
      have := congrArg List.length hf
      simp [flat] at this
      omega
    | node o' l' r' =>
      obtain ⟨nl, nr, p1, p2⟩ := h1
      obtain ⟨nl', nr', p1', p2'⟩ := h2
      simp only [flat, List.append_assoc, List.singleton_append] at hf
      have key := split_unique tokPrec (flat l) (flat r) (flat l') (flat r') (.o o) (.o o') hf
        (fun t ht => by have := tok_le_root l nl t ht; show tokPrec t ≤ o.prec; omega)
        (fun t ht => by have := tok_le_root r nr t ht; show tokPrec t < o.prec; omega)
        (fun t ht => by have := tok_le_root l' nl' t ht; show tokPrec t ≤ o'.prec; omega)
        (fun t ht => by have := tok_le_root r' nr' t ht; show tokPrec t < o'.prec; omega)
      obtain ⟨e1, e2, e3⟩ := key
      have eo : o = o' := by injection e2
      rw [ihl l' nl nl' e1, ihr r' nr nr' e3, eo]

/-- the loop computes the one and only normal-form reading of its input -/
theorem shunt_is_the_reading (n : Nat) (rest : List (Op × Nat)) (hpos : ∀ x ∈ rest, 0 < x.1.prec ∧ x.1.left = true)
    (t : Tree) (ht : Normal t) (hflat : flat t = .a n :: restFlat rest) : shunt n rest = t :=
  normal_unique _ _ (shunt_normal n rest hpos) ht (by rw [flatten_shunt, hflat])

/-- `1 + 2 * 3 - 4` with `*` at 3 and `+ -` at 4: `((1 + (2 * 3)) - 4)` -/
example : render (shunt 1 [(⟨3, 4, true⟩, 2), (⟨0, 3, true⟩, 3), (⟨4, 4, true⟩, 4)]) = "((1 3 (2 0 3)) 4 4)" := by decide


end Pdpy11.Props.C05

/-! ## prefix operators in front of the first operand (Model.ShuntP) -/

namespace Pdpy11.Props.C05.Prefix
open Pdpy11.Model.Shunt (Op Tree)
open Pdpy11.Model.ShuntP
open Pdpy11.Model

/-- a tree of the infix-only model, with its leftmost operand replaced by `L` -/
def substL (L : PTree) : Tree → PTree
  | .atom _ => L
  | .node o l r => .node o (substL L l) (embed r)
where embed : Tree → PTree
  | .atom n => .atom n
  | .node o l r => .node o (embed l) (embed r)

abbrev embed := substL.embed

@[simp] theorem embed_atom (n : Nat) : embed (.atom n) = .atom n := rfl

/-- prefix operators applied to an operand, outermost first -/
def wrap : List Op → PTree → PTree
  | [], t => t
  | o :: r, t => .pre o (wrap r t)

/-- the stack of the infix-only model inside the stack with entries; the leftmost operand
lives in the bottom entry -/
def embedSt (L : PTree) : List (Tree × Op) → List Entry
  | [] => []
  | [(l, o)] => [.bin (substL L l) o]
  | (l, o) :: x :: rest => .bin (embed l) o :: embedSt L (x :: rest)

theorem popWhile_commutes (L : PTree) (p : Nat) (lf : Bool) (e : Tree) (st : List (Tree × Op)) (hne : st ≠ []) :
    popWhile p lf (embed e) (embedSt L st) =
      (match (Shunt.popWhile p lf e st).2 with
       | [] => (substL L (Shunt.popWhile p lf e st).1, [])
       | x :: r => (embed (Shunt.popWhile p lf e st).1, embedSt L (x :: r))) := by
  induction st generalizing e with
  | nil => exact absurd rfl hne
  | cons hd tl ih =>
    obtain ⟨l, o⟩ := hd
    cases tl with
    | nil =>
      by_cases hc : o.prec < p ∨ (o.prec = p ∧ lf = true)
      · simp [embedSt, popWhile, entryOp, Shunt.popWhile, hc, reduce, substL]
      · simp [embedSt, popWhile, entryOp, Shunt.popWhile, hc]
    | cons x rest =>
      by_cases hc : o.prec < p ∨ (o.prec = p ∧ lf = true)
      · have := ih (.node o l e) (by simp)
        have he : PTree.node o (embed l) (embed e) = embed (.node o l e) := rfl
        have lhs : popWhile p lf (embed e) (embedSt L ((l, o) :: x :: rest)) =
            popWhile p lf (embed (.node o l e)) (embedSt L (x :: rest)) := by
          simp only [embedSt]
          rw [popWhile]
          simp only [entryOp, hc, ↓reduceIte, reduce, he]
        have rhs : Shunt.popWhile p lf e ((l, o) :: x :: rest) = Shunt.popWhile p lf (.node o l e) (x :: rest) := by
          rw [Shunt.popWhile]; simp only [hc, ↓reduceIte]
        rw [lhs, rhs]; exact this
      · have lhs : popWhile p lf (embed e) (embedSt L ((l, o) :: x :: rest)) = (embed e, embedSt L ((l, o) :: x :: rest)) := by
          simp only [embedSt]
          rw [popWhile]
          simp only [entryOp, hc, ↓reduceIte]
        have rhs : Shunt.popWhile p lf e ((l, o) :: x :: rest) = (e, (l, o) :: x :: rest) := by
          rw [Shunt.popWhile]; simp only [hc, ↓reduceIte]
        rw [lhs, rhs]

theorem popAll_commutes (L : PTree) (e : Tree) (st : List (Tree × Op)) (hne : st ≠ []) :
    popAll (embed e) (embedSt L st) = substL L (Shunt.popAll e st) := by
  induction st generalizing e with
  | nil => exact absurd rfl hne
  | cons hd tl ih =>
    obtain ⟨l, o⟩ := hd
    cases tl with
    | nil => simp [embedSt, popAll, reduce, Shunt.popAll, substL]
    | cons x rest =>
      simp only [embedSt, popAll, reduce, Shunt.popAll]
      have he : PTree.node o (embed l) (embed e) = embed (.node o l e) := rfl
      rw [he]; exact ih _ (by simp)

/-- with a non-empty stack the two loops run in step -/
theorem shuntAux_commutes (L : PTree) (e : Tree) (st : List (Tree × Op)) (hne : st ≠ []) (rest : List (Op × Nat)) :
    shuntAux (embed e) (embedSt L st) rest = substL L (Shunt.shuntAux e st rest) := by
  induction rest generalizing e st with
  | nil => simp only [shuntAux, Shunt.shuntAux]; exact popAll_commutes L e st hne
  | cons hd tl ih =>
    obtain ⟨o, n⟩ := hd
    simp only [shuntAux, Shunt.shuntAux]
    rw [popWhile_commutes L o.prec o.left e st hne]
    cases hs : (Shunt.popWhile o.prec o.left e st).2 with
    | nil =>
      simp only
      have := ih (.atom n) [((Shunt.popWhile o.prec o.left e st).1, o)] (by simp)
      simpa [embedSt] using this
    | cons x r =>
      simp only
      have := ih (.atom n) (((Shunt.popWhile o.prec o.left e st).1, o) :: x :: r) (by simp)
      simpa [embedSt] using this

/-- prefix operators in stack order (innermost first) applied to an operand -/
def wrapRev : List Op → PTree → PTree
  | [], t => t
  | u :: r, t => wrapRev r (.pre u t)

theorem wrapRev_append (a b : List Op) (t : PTree) : wrapRev (a ++ b) t = wrapRev b (wrapRev a t) := by
  induction a generalizing t with
  | nil => rfl
  | cons u r ih => simp [wrapRev, ih]

theorem wrapRev_reverse (pre : List Op) (t : PTree) : wrapRev pre.reverse t = wrap pre t := by
  induction pre generalizing t with
  | nil => rfl
  | cons o r ih => simp [wrapRev_append, wrapRev, wrap, ih]

theorem popWhile_unsS (p : Nat) (lf : Bool) (e : PTree) (us : List Op) (h : ∀ q ∈ us, q.prec < p) :
    popWhile p lf e (us.map .un) = (wrapRev us e, []) := by
  induction us generalizing e with
  | nil => simp [popWhile, wrapRev]
  | cons u r ih =>
    have hl : u.prec < p := h u (by simp)
    simp only [List.map_cons]
    rw [popWhile]
    simp only [entryOp, hl, true_or, ↓reduceIte, reduce]
    rw [ih (.pre u e) (fun q hq => h q (by simp [hq]))]
    rfl

theorem popAll_unsS (e : PTree) (us : List Op) : popAll e (us.map .un) = wrapRev us e := by
  induction us generalizing e with
  | nil => simp [popAll, wrapRev]
  | cons u r ih => simp only [List.map_cons, popAll, reduce, ih, wrapRev]

theorem popWhile_uns (p : Nat) (lf : Bool) (e : PTree) (pre : List Op) (h : ∀ q ∈ pre, q.prec < p) :
    popWhile p lf e (pre.reverse.map .un) = (wrap pre e, []) := by
  rw [popWhile_unsS p lf e pre.reverse (fun q hq => h q (by simpa using hq)), wrapRev_reverse]

theorem popAll_uns (e : PTree) (pre : List Op) : popAll e (pre.reverse.map .un) = wrap pre e := by
  rw [popAll_unsS, wrapRev_reverse]

/-- **prefix operators bind tighter than every infix operator**: when each prefix operator has
a smaller precedence number than each infix operator of the chain (pdpy11's table: 2 against
3-10), the tree of `- ~ a * b + c …` is the tree of `a * b + c …` with `a` replaced by
`-(~a)` — for chains of any length -/
theorem prefix_binds_tightest (pre : List Op) (n : Nat) (rest : List (Op × Nat))
    (h : ∀ q ∈ pre, ∀ x ∈ rest, q.prec < x.1.prec) :
    shuntP pre n rest = substL (wrap pre (.atom n)) (Shunt.shunt n rest) := by
  unfold shuntP Shunt.shunt
  cases rest with
  | nil => simp only [shuntAux, Shunt.shuntAux, Shunt.popAll, substL]; exact popAll_uns _ pre
  | cons hd tl =>
    obtain ⟨o, m⟩ := hd
    simp only [shuntAux, Shunt.shuntAux]
    rw [popWhile_uns o.prec o.left (.atom n) pre (fun q hq => h q hq (o, m) (by simp))]
    simp only [Shunt.popWhile]
    have := shuntAux_commutes (wrap pre (.atom n)) (.atom m) [(.atom n, o)] (by simp) tl
    simpa [embedSt, substL] using this

/-- the regenerated table meets the hypothesis: the value prefix operators `+ - ~ ^C` have a
smaller precedence number than every infix value operator -/
theorem table_meets_prefix_hypothesis :
    (Pdpy11.Gen.operators.filter (fun o => o.kind == .prefix && o.prec < 10)).all (fun p =>
      (Pdpy11.Gen.operators.filter (fun o => o.kind == .infix && o.fname != "call")).all (fun i => decide (p.prec < i.prec))) = true := by
  decide

example : shuntP [⟨14, 2, true⟩, ⟨15, 2, true⟩] 7 [(⟨0, 3, true⟩, 8), (⟨3, 4, true⟩, 9)] =
    .node ⟨3, 4, true⟩ (.node ⟨0, 3, true⟩ (.pre ⟨14, 2, true⟩ (.pre ⟨15, 2, true⟩ (.atom 7))) (.atom 8)) (.atom 9) := by decide

end Pdpy11.Props.C05.Prefix
