import Pdpy11.Model.Bk
import Pdpy11.Spec.Koi8r
/-
C14 — the BK charset is a bijection consistent with ASCII and KOI-8.
-/
namespace Pdpy11.Props.C14
open Pdpy11 Pdpy11.Model Pdpy11.Model.Bk

abbrev D := Gen.bkDecodingTable
abbrev E := Gen.bkEncodingTable

/-! ### the regenerated tables -/

theorem table_256 : D.length = 256 ∧ D.all (fun e => !e.isEmpty) = true := by decide +kernel

/-- the dictionary the codec uses is exactly the one its comprehension builds from the
decoding table (as a finite map: same value for every key of either list) -/
theorem encoding_table_is_built :
    (E.all (fun kv => lookup (buildEncoding D) kv.1 == some kv.2) &&
     (buildEncoding D).all (fun kv => lookup E kv.1 == lookup (buildEncoding D) kv.1)) = true := by
  decide +kernel

/-- every byte decodes to a character that encodes back to the same byte -/
theorem bk_roundtrip_all :
    (List.range 256).all (fun b => (decodeByte D b).bind (lookup E) == some b) = true := by
  decide +kernel

theorem bk_roundtrip (b : Nat) (hb : b < 256) : (decodeByte D b).bind (lookup E) = some b := by
  have h := List.all_eq_true.mp bk_roundtrip_all b (List.mem_range.mpr hb)
  simpa using h

theorem bk_ascii_all : (List.range 0x7F).all (fun b => decodeByte D b == some b) = true := by
  decide +kernel

/-- ASCII on 0x00–0x7E -/
theorem bk_ascii (b : Nat) (hb : b ≤ 0x7E) : decodeByte D b = some b := by
  have h := List.all_eq_true.mp bk_ascii_all b (List.mem_range.mpr (by omega))
  simpa using h

theorem bk_koi8_all :
    (List.range 64).all (fun i => decodeByte D (0xC0 + i) == Spec.koi8rUpper[i]?) = true := by
  decide +kernel

/-- KOI8-R on 0xC0–0xFF -/
theorem bk_koi8 (b : Nat) (h1 : 0xC0 ≤ b) (h2 : b < 256) :
    decodeByte D b = Spec.koi8rUpper[b - 0xC0]? := by
  have h := List.all_eq_true.mp bk_koi8_all (b - 0xC0) (List.mem_range.mpr (by omega))
  have e : 0xC0 + (b - 0xC0) = b := by omega
  simpa [e] using h

/-- the encoder only ever produces bytes -/
theorem encoding_values_are_bytes : E.all (fun kv => kv.2 < 256) = true := by decide +kernel

/-! ### strings (any length) -/

theorem mapM_some_iff {e : List (Nat × Nat)} (s : Str) :
    (s.mapM (lookup e)).isSome ↔ ∀ c ∈ s, encodable e c = true := by
  induction s with
  | nil => simp
  | cons c r ih =>
    simp only [List.mapM_cons, List.mem_cons, forall_eq_or_imp]
    cases h : lookup e c with
    | none =>
      have : encodable e c = false := by simp [encodable, h]
      simp [this]
    | some v =>
      have hc : encodable e c = true := by simp [encodable, h]
      cases h2 : r.mapM (lookup e) with
      | none =>
        have : ¬ ∀ c ∈ r, encodable e c = true := by rw [← ih]; simp [h2]
        simp only [hc, true_and]
        constructor
        · intro hh; simp at hh
        · intro hh; exact absurd hh this
      | some l =>
        have : ∀ c ∈ r, encodable e c = true := by rw [← ih]; simp [h2]
        simp only [hc, true_and]
        constructor
        · intro _; exact this
        · intro _; simp

/-- encoding succeeds exactly on strings made of table characters … -/
theorem encode_total_iff (s : Str) :
    (∃ bs, encode E s = .ok bs) ↔ ∀ c ∈ s, encodable E c = true := by
  rw [← mapM_some_iff]
  unfold encode
  cases h : s.mapM (lookup E) <;> simp

/-- … and then yields one byte per character -/
theorem encode_length (s : Str) (bs : Bytes) (h : encode E s = .ok bs) : bs.length = s.length := by
  unfold encode at h
  cases h2 : s.mapM (lookup E) with
  | none => simp [h2] at h
  | some l =>
    simp [h2] at h; subst h
    induction s generalizing l with
    | nil => simp at h2; simp [h2]
    | cons c r ih =>
      simp only [List.mapM_cons] at h2
      cases h3 : lookup E c with
      | none => simp [h3] at h2
      | some v =>
        cases h4 : r.mapM (lookup E) with
        | none => simp [h3, h4] at h2
        | some l' =>
          simp [h3, h4] at h2; subst h2
          simp [ih l' h4]

theorem firstBad_spec {e : List (Nat × Nat)} (s : Str) (i : Nat) (h : firstBad e s = some i) :
    i < s.length ∧ (∃ c, s[i]? = some c ∧ encodable e c = false) ∧
    ∀ k < i, ∃ c, s[k]? = some c ∧ encodable e c = true := by
  induction s generalizing i with
  | nil => simp [firstBad] at h
  | cons c r ih =>
    unfold firstBad at h
    split at h
    · rename_i hc
      cases h2 : firstBad e r with
      | none => simp [h2] at h
      | some j =>
        simp [h2] at h; subst h
        obtain ⟨a, b, d⟩ := ih j h2
        refine ⟨by simp; omega, by simpa using b, ?_⟩
        intro k hk
        cases k with
        | zero => exact ⟨c, by simp, hc⟩
        | succ k => simpa using d k (by omega)
    · rename_i hc
      cases h
      refine ⟨by simp, ⟨c, by simp, by simpa using hc⟩, by intro k hk; omega⟩

theorem firstBad_none {e : List (Nat × Nat)} (s : Str) (h : firstBad e s = none) :
    ∀ c ∈ s, encodable e c = true := by
  induction s with
  | nil => simp
  | cons c r ih =>
    unfold firstBad at h
    split at h
    · rename_i hc
      cases h2 : firstBad e r with
      | none => intro x hx; rcases List.mem_cons.mp hx with rfl | hx; exact hc; exact ih h2 x hx
      | some j => simp [h2] at h
    · simp at h

/-- **Error position.** When a string cannot be encoded, the reported range starts at the
first unencodable character and ends just after the last one. -/
theorem encode_error_position (s : Str) (i j : Nat) (h : encode E s = .error i j) :
    (i < s.length ∧ (∃ c, s[i]? = some c ∧ encodable E c = false) ∧
      ∀ k < i, ∃ c, s[k]? = some c ∧ encodable E c = true) ∧
    (j ≤ s.length ∧ i < j ∧ (∃ c, s[j - 1]? = some c ∧ encodable E c = false) ∧
      ∀ k, j ≤ k → k < s.length → ∃ c, s[k]? = some c ∧ encodable E c = true) := by
  unfold encode at h
  cases h2 : s.mapM (lookup E) with
  | some l => simp [h2] at h
  | none =>
    simp only [h2, EncResult.error.injEq] at h
    obtain ⟨hi, hj⟩ := h
    have hbad : ¬ ∀ c ∈ s, encodable E c = true := by rw [← mapM_some_iff]; simp [h2]
    cases h3 : firstBad E s with
    | none => exact absurd (firstBad_none s h3) hbad
    | some i' =>
      simp [h3] at hi; subst hi
      have hbadr : ¬ ∀ c ∈ s.reverse, encodable E c = true := by simpa using hbad
      cases h4 : firstBad E s.reverse with
      | none => exact absurd (firstBad_none _ h4) hbadr
      | some k =>
        simp [lastBadEnd, h4] at hj; subst hj
        obtain ⟨a1, ⟨c1, b1, b1'⟩, d1⟩ := firstBad_spec s i' h3
        obtain ⟨a2, ⟨c2, b2, b2'⟩, d2⟩ := firstBad_spec s.reverse k h4
        simp only [List.length_reverse] at a2
        have hrev : ∀ m, m < s.length → s.reverse[m]? = s[s.length - 1 - m]? := by
          intro m hm; rw [List.getElem?_reverse hm]
        refine ⟨⟨a1, ⟨c1, b1, b1'⟩, d1⟩, by omega, ?_, ⟨c2, ?_, b2'⟩, ?_⟩
        · -- i' < length - k : the first bad index is not after the last bad index
          rcases Nat.lt_or_ge i' (s.length - k) with hlt | hge
          · exact hlt
          · exfalso
            -- position i' (bad) read from the end is at reverse index length-1-i' < k, hence encodable
            have hm : s.length - 1 - i' < k := by omega
            obtain ⟨c, hc, hce⟩ := d2 (s.length - 1 - i') hm
            rw [hrev _ (by omega)] at hc
            have : s.length - 1 - (s.length - 1 - i') = i' := by omega
            rw [this, b1] at hc
            cases hc
            rw [hce] at b1'; cases b1'
        · rw [hrev k a2] at b2
          have : s.length - k - 1 = s.length - 1 - k := by omega
          rw [this]; exact b2
        · intro m hm1 hm2
          have hm : s.length - 1 - m < k := by omega
          obtain ⟨c, hc, hce⟩ := d2 (s.length - 1 - m) hm
          rw [hrev _ (by omega)] at hc
          have : s.length - 1 - (s.length - 1 - m) = m := by omega
          rw [this] at hc
          exact ⟨c, hc, hce⟩

/-- decoding any byte string and encoding it again returns the bytes -/
theorem encode_decode (bs : Bytes) (hb : ∀ b ∈ bs, b < 256) :
    ∃ s, decode D bs = some s ∧ encode E s = .ok bs := by
  induction bs with
  | nil => exact ⟨[], by simp [decode], by simp [encode]⟩
  | cons b r ih =>
    obtain ⟨s, hs1, hs2⟩ := ih (fun x hx => hb x (by simp [hx]))
    have hrt := bk_roundtrip b (hb b (by simp))
    cases hd : decodeByte D b with
    | none => simp [hd] at hrt
    | some c =>
      simp [hd] at hrt
      refine ⟨c :: s, ?_, ?_⟩
      · simp only [decode] at hs1 ⊢
        simp [List.mapM_cons, hd, hs1]
      · unfold encode at hs2 ⊢
        cases hm : s.mapM (lookup E) with
        | none => simp [hm] at hs2
        | some l =>
          simp [hm] at hs2; subst hs2
          simp [List.mapM_cons, hrt, hm]

/-! ### non-vacuity -/
example : encode E [72, 1102, 36, 164] = .ok [72, 0xC0, 36, 36] := by decide +kernel
example : encode E [72, 8364, 73, 955, 74] = .error 1 4 := by decide +kernel   -- "H€Iλ J": € at 1, λ at 3
example : decodeByte D 0x7F = some 0x25A0 := by decide +kernel                   -- the one non-ASCII entry below 0x80

end Pdpy11.Props.C14
