import Pdpy11.Model.Parse
import Pdpy11.Model.Insn
import Pdpy11.Model.Directive
import Pdpy11.Props.C02
/-
C10  Spelling does not matter.

Theorems about the total functions the parser and encoder models call for the spelling
rules that have a value-level content: the radix a number is written in (`Parse.intOf`),
letter case of digits and names (`Parse.digitVal`, `Parse.lowerC/lowerS`, through which
every table lookup goes), register spellings (`Insn.regNum`, `Gen.insnRegisterNames`),
`(rN)` against legacy `@rN` (`Insn.encodeRM`), explicit `.word` against the implicit word
list (`Directive.wordDir` / `wordList`).  Mnemonic synonyms are `C01.synonyms_encode_equal`.
Whitespace, comments and the three bracket spellings have no value-level content (they vanish
in the syntax tree); for them the tie is the correspondence check alone.
-/
namespace Pdpy11.Props.C10
open Pdpy11.Model Pdpy11.Model.Parse Pdpy11.Model.Insn Pdpy11.Model.Directive

/-! ### radix -/

def digitChar (d : Nat) : Char := if d < 10 then Char.ofNat (48 + d) else Char.ofNat (87 + d)

/-- the digits of `n` in `base`, most significant first (fuel-structural) -/
def digitsAux (base : Nat) : Nat → Nat → List Char
  | 0, n => [digitChar (n % base)]
  | f + 1, n => if n < base then [digitChar n] else digitsAux base f (n / base) ++ [digitChar (n % base)]

def digitsOf (base n : Nat) : List Char := digitsAux base n n

theorem digitVal_digitChar (d : Nat) (h : d < 16) : digitVal (digitChar d) = d := by
  have : d = 0 ∨ d = 1 ∨ d = 2 ∨ d = 3 ∨ d = 4 ∨ d = 5 ∨ d = 6 ∨ d = 7 ∨ d = 8 ∨ d = 9 ∨ d = 10 ∨ d = 11 ∨
      d = 12 ∨ d = 13 ∨ d = 14 ∨ d = 15 := by omega
  rcases this with h | h | h | h | h | h | h | h | h | h | h | h | h | h | h | h <;> subst h <;> decide

theorem intOf_append (s : List Char) (c : Char) (base : Nat) : intOf (s ++ [c]) base = intOf s base * base + digitVal c := by
  simp [intOf, List.foldl_append]

theorem intOf_digitsAux (base : Nat) (hb : 2 ≤ base) (hb16 : base ≤ 16) (f n : Nat) (hf : n ≤ f) :
    intOf (digitsAux base f n) base = n := by
  induction f generalizing n with
  | zero =>
    have : n = 0 := by omega
    subst this
    simp [digitsAux, intOf, Nat.zero_mod]
    exact digitVal_digitChar 0 (by omega)
  | succ f ih =>
    unfold digitsAux
    by_cases hn : n < base
    · simp only [hn, if_true]
      simp [intOf]
      exact digitVal_digitChar n (by omega)
    · simp only [hn, if_false]
      rw [intOf_append]
      have hdiv : n / base ≤ f := by
        have : n / base < n := Nat.div_lt_self (by omega) (by omega)
        omega
      rw [ih (n / base) hdiv, digitVal_digitChar (n % base) (by have := Nat.mod_lt n (show base > 0 by omega); omega)]
      exact Nat.div_add_mod' n base

/-- A number written in any radix from 2 to 16 has the value it denotes: the function the
lexer uses reads back every rendering. -/
theorem radix_roundtrip (base : Nat) (hb : 2 ≤ base) (hb16 : base ≤ 16) (n : Nat) : intOf (digitsOf base n) base = n :=
  intOf_digitsAux base hb hb16 n n (Nat.le_refl n)

/-- octal, decimal, hexadecimal and binary spellings of one number agree -/
theorem radix_irrelevant (n : Nat) :
    intOf (digitsOf 8 n) 8 = intOf (digitsOf 10 n) 10 ∧ intOf (digitsOf 10 n) 10 = intOf (digitsOf 16 n) 16 ∧
    intOf (digitsOf 16 n) 16 = intOf (digitsOf 2 n) 2 := by
  simp [radix_roundtrip]

/-! ### letter case -/

/-- ASCII upper case (what a respelling does) -/
def upperC (c : Char) : Char := if 'a' ≤ c && c ≤ 'z' then Char.ofNat (c.toNat - 32) else c

theorem char_cases (c : Char) : c = Char.ofNat c.toNat := by simp

theorem lowerC_upperC_letter (n : Nat) (h : 97 ≤ n ∧ n ≤ 122) : lowerC (upperC (Char.ofNat n)) = lowerC (Char.ofNat n) := by
  have : n = 97 ∨ n = 98 ∨ n = 99 ∨ n = 100 ∨ n = 101 ∨ n = 102 ∨ n = 103 ∨ n = 104 ∨ n = 105 ∨ n = 106 ∨ n = 107 ∨ n = 108 ∨
      n = 109 ∨ n = 110 ∨ n = 111 ∨ n = 112 ∨ n = 113 ∨ n = 114 ∨ n = 115 ∨ n = 116 ∨ n = 117 ∨ n = 118 ∨ n = 119 ∨ n = 120 ∨
      n = 121 ∨ n = 122 := by omega
  rcases this with h | h | h | h | h | h | h | h | h | h | h | h | h | h | h | h | h | h | h | h | h | h | h | h | h | h <;>
    subst h <;> decide

theorem lowerC_upperC (c : Char) : lowerC (upperC c) = lowerC c := by
  by_cases h : ('a' ≤ c && c ≤ 'z') = true
  · have hc := char_cases c
    have hr : 97 ≤ c.toNat ∧ c.toNat ≤ 122 := by
      simp only [Bool.and_eq_true, decide_eq_true_eq] at h
      have h1 : 'a'.toNat ≤ c.toNat := h.1
      have h2 : c.toNat ≤ 'z'.toNat := h.2
      exact ⟨h1, h2⟩
    rw [hc]
    exact lowerC_upperC_letter c.toNat hr
  · simp [upperC, h]

theorem lowerC_idem_letter (n : Nat) (h : 65 ≤ n ∧ n ≤ 90) : lowerC (lowerC (Char.ofNat n)) = lowerC (Char.ofNat n) := by
  have : n = 65 ∨ n = 66 ∨ n = 67 ∨ n = 68 ∨ n = 69 ∨ n = 70 ∨ n = 71 ∨ n = 72 ∨ n = 73 ∨ n = 74 ∨ n = 75 ∨ n = 76 ∨
      n = 77 ∨ n = 78 ∨ n = 79 ∨ n = 80 ∨ n = 81 ∨ n = 82 ∨ n = 83 ∨ n = 84 ∨ n = 85 ∨ n = 86 ∨ n = 87 ∨ n = 88 ∨
      n = 89 ∨ n = 90 := by omega
  rcases this with h | h | h | h | h | h | h | h | h | h | h | h | h | h | h | h | h | h | h | h | h | h | h | h | h | h <;>
    subst h <;> decide

theorem lowerC_idem (c : Char) : lowerC (lowerC c) = lowerC c := by
  by_cases h : ('A' ≤ c && c ≤ 'Z') = true
  · have hc := char_cases c
    have hr : 65 ≤ c.toNat ∧ c.toNat ≤ 90 := by
      simp only [Bool.and_eq_true, decide_eq_true_eq] at h
      have h1 : 'A'.toNat ≤ c.toNat := h.1
      have h2 : c.toNat ≤ 'Z'.toNat := h.2
      exact ⟨h1, h2⟩
    rw [hc]
    exact lowerC_idem_letter c.toNat hr
  · have : lowerC c = c := by simp [lowerC, h]
    rw [this, this]

def upperS (s : String) : String := String.ofList (s.toList.map upperC)

/-- Every table lookup (mnemonics, directives, registers, symbols) goes through `lowerS`; the
upper-case spelling of a name is the same key. -/
theorem lowerS_upperS (s : String) : lowerS (upperS s) = lowerS s := by
  simp [lowerS, upperS, List.map_map, Function.comp_def, lowerC_upperC]

theorem lowerS_idem (s : String) : lowerS (lowerS s) = lowerS s := by
  simp [lowerS, List.map_map, Function.comp_def, lowerC_idem]

/-- any mixture of cases: a spelling whose lower-casing is the same finds the same entries -/
theorem lookups_case_blind (a b : String) (h : lowerS a = lowerS b) :
    findInsn a = findInsn b ∧ findMeta a = findMeta b ∧ isRegisterName a = isRegisterName b ∧ isBuiltin a = isBuiltin b := by
  simp [findInsn, findMeta, isRegisterName, isBuiltin, h]

theorem lookups_upper (a : String) :
    findInsn (upperS a) = findInsn a ∧ findMeta (upperS a) = findMeta a ∧ isRegisterName (upperS a) = isRegisterName a :=
  let h := lookups_case_blind (upperS a) a (lowerS_upperS a)
  ⟨h.1, h.2.1, h.2.2.1⟩

/-- hexadecimal digits in either case -/
theorem digitVal_case_letter (n : Nat) (h : 97 ≤ n ∧ n ≤ 122) : digitVal (upperC (Char.ofNat n)) = digitVal (Char.ofNat n) := by
  have : n = 97 ∨ n = 98 ∨ n = 99 ∨ n = 100 ∨ n = 101 ∨ n = 102 ∨ n = 103 ∨ n = 104 ∨ n = 105 ∨ n = 106 ∨ n = 107 ∨ n = 108 ∨
      n = 109 ∨ n = 110 ∨ n = 111 ∨ n = 112 ∨ n = 113 ∨ n = 114 ∨ n = 115 ∨ n = 116 ∨ n = 117 ∨ n = 118 ∨ n = 119 ∨ n = 120 ∨
      n = 121 ∨ n = 122 := by omega
  rcases this with h | h | h | h | h | h | h | h | h | h | h | h | h | h | h | h | h | h | h | h | h | h | h | h | h | h <;>
    subst h <;> decide

theorem digitVal_upperC (c : Char) : digitVal (upperC c) = digitVal c := by
  by_cases h : ('a' ≤ c && c ≤ 'z') = true
  · have hc := char_cases c
    have hr : 97 ≤ c.toNat ∧ c.toNat ≤ 122 := by
      simp only [Bool.and_eq_true, decide_eq_true_eq] at h
      have h1 : 'a'.toNat ≤ c.toNat := h.1
      have h2 : c.toNat ≤ 'z'.toNat := h.2
      exact ⟨h1, h2⟩
    rw [hc]
    exact digitVal_case_letter c.toNat hr
  · simp [upperC, h]

theorem intOf_upper (s : List Char) (base : Nat) : intOf (s.map upperC) base = intOf s base := by
  unfold intOf
  rw [List.foldl_map]
  simp [digitVal_upperC]

/-! ### registers -/

/-- `sp` is `r6`, `pc` is `r7`, and the table has no other aliases -/
theorem register_aliases :
    Gen.insnRegisterNames.lookup "sp" = Gen.insnRegisterNames.lookup "r6" ∧
    Gen.insnRegisterNames.lookup "pc" = Gen.insnRegisterNames.lookup "r7" ∧
    (List.range 8).all (fun i => Gen.insnRegisterNames.lookup (String.ofList ['r', Char.ofNat (48 + i)]) == some i) = true := by decide

/-- `%N` is `rN` -/
theorem percent_is_register (n : Nat) (h : n < 8) (l : Log) : regNum (.pct (n : Int)) l = regNum (.named n) l := by
  have : n = 0 ∨ n = 1 ∨ n = 2 ∨ n = 3 ∨ n = 4 ∨ n = 5 ∨ n = 6 ∨ n = 7 := by omega
  rcases this with h | h | h | h | h | h | h | h <;> subst h <;> rfl

/-- every register operand form spelled with `%N` encodes as with `rN` -/
theorem percent_operands (n : Nat) (h : n < 8) (rel : Int) (l : Log) :
    encodeRM (.reg (.pct n)) rel l = encodeRM (.reg (.named n)) rel l ∧
    encodeRM (.regDef (.pct n) false) rel l = encodeRM (.regDef (.named n) false) rel l ∧
    encodeRM (.autoInc (.pct n)) rel l = encodeRM (.autoInc (.named n)) rel l ∧
    encodeRM (.autoDec (.pct n)) rel l = encodeRM (.autoDec (.named n)) rel l ∧
    encodeRM (.autoIncDef (.pct n)) rel l = encodeRM (.autoIncDef (.named n)) rel l ∧
    encodeRM (.autoDecDef (.pct n)) rel l = encodeRM (.autoDecDef (.named n)) rel l := by
  have : n = 0 ∨ n = 1 ∨ n = 2 ∨ n = 3 ∨ n = 4 ∨ n = 5 ∨ n = 6 ∨ n = 7 := by omega
  rcases this with h | h | h | h | h | h | h | h <;> subst h <;> exact ⟨rfl, rfl, rfl, rfl, rfl, rfl⟩

/-! ### `(rN)` and legacy `@rN` -/

/-- the same field, the same extension words, the same errors; only a warning differs -/
theorem legacy_deferred (r : RegRef) (rel : Int) (l : Log) :
    (encodeRM (.regDef r true) rel l).r = (encodeRM (.regDef r false) rel l).r ∧
    (encodeRM (.regDef r true) rel l).log.errs = (encodeRM (.regDef r false) rel l).log.errs := by
  simp only [encodeRM, bind_apply]
  cases h : regNum r l with
  | mk res l' =>
    cases res with
    | error e => simp
    | ok n => simp

/-! ### explicit `.word` and the implicit word list -/

theorem implicit_word_list (emit : Int) (vals : List Int) (hne : vals ≠ []) (l : Log) :
    wordList emit vals l = wordDir emit vals l := by
  simp only [wordList, wordDir, bind_apply]
  cases hm : mapM' (getAsIntM (some 16) false) vals l with
  | mk res l' =>
    cases res with
    | error e => rfl
    | ok cooked =>
      have hl := Pdpy11.Props.C02.mapMp_length _ _ _ _ _ hm
      have : cooked.isEmpty = false := by
        cases cooked with
        | nil => simp at hl; exact absurd (List.eq_nil_of_length_eq_zero hl.symm) hne
        | cons a b => rfl
      simp only []
      cases hp : oddPrefix emit l' with
      | mk res2 l'' =>
        cases res2 with
        | error e => rfl
        | ok pre => simp [this]

/-! ### not vacuous -/

example : intOf "177716".toList 8 = 65486 ∧ intOf "65486".toList 10 = 65486 ∧ intOf "FfCe".toList 16 = 65486 ∧
    intOf "1111111111001110".toList 2 = 65486 := by decide
example : digitsOf 16 65486 = "ffce".toList ∧ digitsOf 8 65486 = "177716".toList := by decide
example : lowerS "MoV" = "mov" ∧ lowerS (upperS "mov") = "mov" := by decide
example : (findInsn "MOV").isSome ∧ (findMeta ".WORD").isSome ∧ isRegisterName "Sp" := by decide

end Pdpy11.Props.C10
