import Mathlib.Tactic.Ring
import Mathlib.Tactic.Positivity
import Pdpy11.Model.Pattern
import Pdpy11.Spec.Isa
/-
C01 — machine-code fidelity of every instruction form.
Part 1: every entry of the regenerated table against the independent ISA table.
-/
namespace Pdpy11.Props.C01
open Pdpy11 Pdpy11.Model Pdpy11.Model.Insn Pdpy11.Model.Pattern Pdpy11.Gen Pdpy11.Spec.Isa

/-! ### `init()` re-computed for all 252 entries -/

/-- the 16-symbol template the implementation derived from each octal pattern is what the
    model of `init()` derives -/
theorem pattern_expansion :
    Gen.opcodes.all (fun e => expandRaw e.raw == some e.pattern) = true := by decide +kernel

/-- the operand stubs (class, field letter, bit indexes, signedness, order) are what the model
    of `init()` infers from the template -/
theorem stubs_inferred :
    Gen.opcodes.all (fun e => inferStubs e.pattern == some e.stubs) = true := by decide +kernel

theorem table_size : Gen.opcodes.length = 252 ∧ Gen.extraInstructionKeys = [] ∧ Gen.instructionCount = 252 ∧
    Gen.specHints.length = 252 := by decide +kernel

/-! ### every field is contiguous and every entry equals the ISA's encoding -/

/-- every stub of every entry addresses a contiguous field of the word (bit `i` of the value
    lands on bit `shift + i`) and all other symbols are binary digits -/
theorem fields_contiguous :
    Gen.opcodes.all (fun e => (layoutOf e).isSome) = true := by decide +kernel

def kindMatches (s : Slot) (f : Field) : Bool :=
  s.shift == f.shift && s.width == f.width &&
  (match s.cls, f.kind with
   | .registerMode, .rm => true
   | .register, .reg => true
   | .fp11rm, .frm => true
   | .fp11acc, .ac => true
   | .immediate, .num => true
   | .offset, .br => !s.unsigned
   | .offset, .sob => s.unsigned
   | _, _ => false)

/-- base opcode and fields of the instruction a convenience mnemonic stands for, with the
    implied operand filled in -/
def convLayout (c : Canon) : Conv → Option (Nat × List Field)
  | .push => if c.name == "mov" then some (c.base + 0o46, [⟨.rm, 6, 6⟩]) else none       -- mov x, -(sp)
  | .pop => if c.name == "mov" then some (c.base + 0o2600, [⟨.rm, 0, 6⟩]) else none      -- mov (sp)+, x
  | .ret => if c.name == "rts" then some (c.base + 7, []) else none                       -- rts pc
  | .call => if c.name == "jsr" then some (c.base + 0o700, [⟨.rm, 0, 6⟩]) else none      -- jsr pc, x

/-- what the specification says the mnemonic `name` encodes to, found through the (untrusted)
    hint `(canon index, synonym index, convenience index)`; every name the hint points at is
    compared with the mnemonic, so a wrong hint can only yield `none` -/
def specVia (name : String) (h : Nat × Nat × Nat) : Option (Nat × List Field) := do
  let target ← if h.2.1 = 9999 then some name else
    match synonyms[h.2.1]? with
    | some (a, t) => if a == name then some t else none
    | none => none
  let c ← canon[h.1]?
  if h.2.2 = 9999 then
    if c.name == target then some (c.base, fields c.fmt) else none
  else
    match conveniences[h.2.2]? with
    | some (a, conv) => if a == target then convLayout c conv else none
    | none => none

def entryMatches (e : InsnG) (h : Nat × Nat × Nat) : Bool :=
  match layoutOf e, specVia e.name h with
  | some (b, slots), some (b', fs) => b == b' && slots.length == fs.length && (slots.zip fs).all (fun (s, f) => kindMatches s f)
  | _, _ => false

/-- **Every octal digit and every bit index of the table is under this theorem**: for each of
    the 252 mnemonics, base opcode, field positions, field widths, operand classes and operand
    order equal those of the independent ISA table (synonyms and convenience mnemonics through
    the instruction they stand for). -/
theorem table_matches_isa :
    (Gen.opcodes.zip Gen.specHints).all (fun p => entryMatches p.1 p.2) = true := by decide +kernel

/-- the ISA table has exactly as many mnemonics as the assembler -/
theorem isa_size : canon.length + synonyms.length + conveniences.length = 252 := by decide +kernel

/-- synonymous mnemonics denote the same base opcode and the same operand fields, classes and
    order (the field *letters* may differ: `callr` is written with `s`, `jmp` with `d`) -/
theorem synonyms_encode_equal :
    synonyms.length = Gen.synonymHints.length ∧
    (synonyms.zip Gen.synonymHints).all (fun p =>
      match Gen.opcodes[p.2.1]?, Gen.opcodes[p.2.2]? with
      | some a, some b => a.name == p.1.1 && b.name == p.1.2 && (layoutOf a).isSome && layoutOf a == layoutOf b
      | _, _ => false) = true := by decide +kernel

/-- canonical operations do not share encodings: the fixed bits of any two differ -/
def varMask (fs : List Field) : Nat := (fs.map (fun f => (2 ^ f.width - 1) * 2 ^ f.shift)).foldl (· + ·) 0

def fixedParts : List (Nat × Nat) := canon.map (fun c => (c.base, 0xFFFF ^^^ varMask (fields c.fmt)))

def pairwiseDisjoint : List (Nat × Nat) → Bool
  | [] => true
  | a :: rest => rest.all (fun b => ((a.1 ^^^ b.1) &&& a.2 &&& b.2) != 0) && pairwiseDisjoint rest

theorem canon_disjoint : pairwiseDisjoint fixedParts = true := by decide +kernel

/-! ## second part: `get_opcode` is arithmetic, for all operand values -/

/-! ### binary digit lists -/

def bitOf (c : Char) : Nat := if c = '1' then 1 else 0
def isBin (c : Char) : Bool := c == '0' || c == '1'

/-- value of a template in which every symbol other than `1` counts as 0 -/
def digitsVal (l : List Char) : Nat := l.foldl (fun acc c => 2 * acc + bitOf c) 0

theorem foldl_digits_acc (l : List Char) (a : Nat) :
    l.foldl (fun acc c => 2 * acc + bitOf c) a = a * 2 ^ l.length + digitsVal l := by
  induction l generalizing a with
  | nil => simp [digitsVal]
  | cons c t ih =>
    simp only [List.foldl_cons, List.length_cons, digitsVal]
    rw [ih, ih (2 * 0 + bitOf c)]
    rw [Nat.pow_succ]
    ring

theorem digitsVal_cons (c : Char) (t : List Char) : digitsVal (c :: t) = bitOf c * 2 ^ t.length + digitsVal t := by
  have := foldl_digits_acc t (2 * 0 + bitOf c)
  simp only [digitsVal, List.foldl_cons] at *
  rw [this]
  simp

theorem binValue_foldlM (l : List Char) (h : l.all isBin = true) (a : Nat) :
    l.foldlM (fun acc c => if c = '0' then some (2 * acc) else if c = '1' then some (2 * acc + 1) else none) a
      = some (l.foldl (fun acc c => 2 * acc + bitOf c) a) := by
  induction l generalizing a with
  | nil => rfl
  | cons c t ih =>
    simp only [List.all_cons, Bool.and_eq_true] at h
    simp only [List.foldlM_cons, List.foldl_cons]
    have hc : c = '0' ∨ c = '1' := by simpa [isBin] using h.1
    rcases hc with hc | hc
    · subst hc; simp [bitOf, ih h.2]
    · subst hc; simp [bitOf, ih h.2]

/-- a template of binary digits reads, in base 2, as `digitsVal` -/
theorem binValue_of_bin (l : List Char) (h : l.all isBin = true) : binValue l = some (digitsVal l) := by
  cases l with
  | nil => rfl
  | cons c t => unfold binValue; exact binValue_foldlM (c :: t) h 0

theorem digitsVal_set (l : List Char) (j : Nat) (c : Char) (hj : j < l.length) (h0 : ∀ x, l[j]? = some x → bitOf x = 0) :
    digitsVal (l.set j c) = digitsVal l + bitOf c * 2 ^ (l.length - 1 - j) := by
  induction l generalizing j with
  | nil => simp at hj
  | cons c0 t ih =>
    cases j with
    | zero =>
      have : bitOf c0 = 0 := h0 c0 (by simp)
      simp [List.set, digitsVal_cons, this]
      omega
    | succ j =>
      simp only [List.set_cons_succ, digitsVal_cons, List.length_set, List.length_cons]
      have hj' : j < t.length := by simpa using hj
      rw [ih j hj' (fun x hx => h0 x (by simpa using hx))]
      have : t.length + 1 - 1 - (j + 1) = t.length - 1 - j := by omega
      rw [this]
      omega

/-- contribution of a list of writes to the value of a template of length `n` -/
def writesVal (n : Nat) (ws : List (Nat × Char)) : Nat := (ws.map (fun w => bitOf w.2 * 2 ^ (n - 1 - w.1))).sum

theorem applyWrites_length (p : List Char) (ws : List (Nat × Char)) : (applyWrites p ws).length = p.length := by
  induction ws generalizing p with
  | nil => rfl
  | cons w ws ih => simp [applyWrites, List.foldl_cons] at *; rw [ih]; simp

/-- writes at pairwise distinct positions that hold no `1` add their bits to the value -/
theorem digitsVal_applyWrites (p : List Char) (ws : List (Nat × Char)) (hnd : (ws.map Prod.fst).Nodup)
    (hlt : ∀ w ∈ ws, w.1 < p.length) (h0 : ∀ w ∈ ws, ∀ x, p[w.1]? = some x → bitOf x = 0) :
    digitsVal (applyWrites p ws) = digitsVal p + writesVal p.length ws := by
  induction ws generalizing p with
  | nil => simp [applyWrites, writesVal]
  | cons w ws ih =>
    simp only [List.map_cons, List.nodup_cons] at hnd
    have hw := hlt w (by simp)
    have step := digitsVal_set p w.1 w.2 hw (h0 w (by simp))
    have : applyWrites p (w :: ws) = applyWrites (p.set w.1 w.2) ws := by simp [applyWrites]
    rw [this, ih (p.set w.1 w.2) hnd.2]
    · rw [step]; simp [writesVal]; omega
    · intro w' hw'; simpa using hlt w' (by simp [hw'])
    · intro w' hw' x hx
      have hne : w.1 ≠ w'.1 := by
        intro heq
        exact hnd.1 (by rw [heq]; exact List.mem_map_of_mem (f := Prod.fst) hw')
      rw [List.getElem?_set_ne hne] at hx
      exact h0 w' (by simp [hw']) x hx

/-- after the writes every symbol is a binary digit, provided every non-digit position is written -/
theorem all_bin_applyWrites (p : List Char) (ws : List (Nat × Char)) (hb : ∀ w ∈ ws, isBin w.2 = true)
    (hcov : ∀ j x, p[j]? = some x → isBin x = true ∨ j ∈ ws.map Prod.fst) :
    (applyWrites p ws).all isBin = true := by
  induction ws generalizing p with
  | nil =>
    simp only [applyWrites, List.foldl_nil, List.all_eq_true]
    intro x hx
    obtain ⟨j, hj, rfl⟩ := List.getElem_of_mem hx
    rcases hcov j p[j] (by simp [hj]) with h | h
    · exact h
    · simp at h
  | cons w ws ih =>
    have : applyWrites p (w :: ws) = applyWrites (p.set w.1 w.2) ws := by simp [applyWrites]
    rw [this]
    apply ih
    · intro w' hw'; exact hb w' (by simp [hw'])
    · intro j x hx
      by_cases hj : w.1 = j
      · subst hj
        by_cases hlen : w.1 < p.length
        · rw [List.getElem?_set_self hlen] at hx
          left; rw [← Option.some.inj hx]; exact hb w (by simp)
        · rw [List.getElem?_eq_none (by simp; omega)] at hx; cases hx
      · rw [List.getElem?_set_ne hj] at hx
        rcases hcov j x hx with h | h
        · left; exact h
        · right
          simp only [List.map_cons, List.mem_cons] at h
          rcases h with h | h
          · exact absurd h.symm hj
          · exact h

/-! ### the bits of an operand value -/

def bitNat (v : Int) (i : Nat) : Nat := bitOf (bitChar v i)

theorem bitNat_cast (v : Int) (i : Nat) : ((bitNat v i : Nat) : Int) = (v >>> i) % 2 := by
  unfold bitNat bitChar
  have h : (v >>> i) % 2 = 0 ∨ (v >>> i) % 2 = 1 := by omega
  rcases h with h | h <;> simp [h, bitOf]

/-- the low `w` bits of `v`, bit by bit as `get_opcode` writes them -/
def lowBits (v : Int) : Nat → Nat
  | 0 => 0
  | w + 1 => lowBits v w + bitNat v w * 2 ^ w

theorem emod_two_pow_succ (v : Int) (w : Nat) :
    v % (2 ^ (w + 1) : Int) = v % (2 ^ w : Int) + (v / (2 ^ w : Int) % 2) * (2 ^ w : Int) := by
  have hP : (0 : Int) < 2 ^ w := by positivity
  generalize hPdef : (2 ^ w : Int) = P at *
  have h1 : P * (v / P) + v % P = v := Int.mul_ediv_add_emod v P
  have h2 : 2 * (v / P / 2) + v / P % 2 = v / P := Int.mul_ediv_add_emod (v / P) 2
  have hr0 : 0 ≤ v % P := Int.emod_nonneg v (by omega)
  have hr1 : v % P < P := Int.emod_lt_of_pos v hP
  have hb : v / P % 2 = 0 ∨ v / P % 2 = 1 := by omega
  have hpow : (2 : Int) ^ (w + 1) = P * 2 := by rw [pow_succ, hPdef]
  rw [hpow]
  have key : (v / (P * 2) = v / P / 2 ∧ v % (P * 2) = v % P + (v / P % 2) * P) := by
    rw [Int.ediv_emod_unique (by omega)]
    refine ⟨?_, ?_, ?_⟩
    · have : v % P + v / P % 2 * P + P * 2 * (v / P / 2) = P * (2 * (v / P / 2) + v / P % 2) + v % P := by ring
      rw [this, h2, h1]
    · rcases hb with hb | hb <;> rw [hb] <;> omega
    · rcases hb with hb | hb <;> rw [hb] <;> omega
  exact key.2

theorem lowBits_cast (v : Int) (w : Nat) : ((lowBits v w : Nat) : Int) = v % (2 ^ w : Int) := by
  induction w with
  | zero => simp [lowBits, Int.emod_one]
  | succ w ih =>
    rw [emod_two_pow_succ, ← ih]
    simp only [lowBits, Nat.cast_add, Nat.cast_mul, Nat.cast_pow, Nat.cast_ofNat]
    rw [bitNat_cast, Int.shiftRight_eq_div_pow]
    simp

/-- `lowBits v w` is `v mod 2^w` (two's complement for negative `v`) -/
theorem lowBits_eq (v : Int) (w : Nat) : lowBits v w = (v % (2 ^ w : Int)).toNat := by
  have := lowBits_cast v w
  omega

/-! ### where `get_opcode` writes: positions do not depend on the values -/

def stubPositions (p : List Char) (s : StubG) : Option (List (Nat × Nat)) :=
  (s.bits.zipIdx).mapM (fun x => ((indexesOfChar p s.ch)[x.1]?).map (fun pos => (pos, x.2)))

theorem mapM_map_post {α β γ δ : Type} (f : α → Option β) (g : α → β → γ) (g' : α → β → δ) (h : δ → γ)
    (hg : ∀ a b, g a b = h (g' a b)) (L : List α) :
    L.mapM (fun a => (f a).map (g a)) = (L.mapM (fun a => (f a).map (g' a))).map (List.map h) := by
  induction L with
  | nil => simp
  | cons a t ih =>
    simp only [List.mapM_cons]
    cases hf : f a with
    | none => simp
    | some b =>
      rw [ih]
      cases List.mapM (fun a => Option.map (g' a) (f a)) t with
      | none => simp
      | some r => simp [hg]

theorem stubWrites_eq (p : List Char) (s : StubG) (v : Int) :
    stubWrites p s v = (stubPositions p s).map (List.map (fun q => (q.1, bitChar v q.2))) := by
  unfold stubWrites stubPositions
  exact mapM_map_post (fun (x : Nat × Nat) => (indexesOfChar p s.ch)[x.1]?) (fun (x : Nat × Nat) pos => (pos, bitChar v x.2))
    (fun (x : Nat × Nat) pos => (pos, x.2)) (fun (q : Nat × Nat) => (q.1, bitChar v q.2)) (fun _ _ => rfl) _

def charge (v : Int) (w : List (Nat × Nat)) : List (Nat × Char) := w.map (fun q => (q.1, bitChar v q.2))

def chargeAll : List (List (Nat × Nat)) → List Int → List (List (Nat × Char))
  | w :: ws, v :: vs => charge v w :: chargeAll ws vs
  | _, _ => []

/-- all writes of one instruction: the value-free positions, charged with the bits of the values -/
theorem writes_of_positions (p : List Char) (stubs : List StubG) (W : List (List (Nat × Nat))) (vs : List Int)
    (hW : stubs.mapM (stubPositions p) = some W) (hlen : vs.length = stubs.length) :
    (stubs.zip vs).mapM (fun x => stubWrites p x.1 x.2) = some (chargeAll W vs) := by
  induction stubs generalizing W vs with
  | nil =>
    simp at hW; subst hW
    cases vs <;> simp [chargeAll]
  | cons s t ih =>
    cases vs with
    | nil => simp at hlen
    | cons v vs =>
      simp only [List.mapM_cons] at hW
      cases hs : stubPositions p s with
      | none => simp [hs] at hW
      | some w =>
        cases ht : t.mapM (stubPositions p) with
        | none => simp [hs, ht] at hW
        | some W' =>
          simp [hs, ht] at hW
          subst hW
          have ih' := ih W' vs ht (by simpa using hlen)
          simp only [List.zip_cons_cons, List.mapM_cons, ih']
          simp [stubWrites_eq, hs, chargeAll, charge]

theorem chargeAll_positions (W : List (List (Nat × Nat))) (vs : List Int) (hlen : vs.length = W.length) :
    ((chargeAll W vs).flatten).map Prod.fst = (W.flatten).map Prod.fst := by
  induction W generalizing vs with
  | nil => cases vs <;> simp [chargeAll]
  | cons w W ih =>
    cases vs with
    | nil => simp at hlen
    | cons v vs =>
      simp only [chargeAll, List.flatten_cons, List.map_append]
      rw [ih vs (by simpa using hlen)]
      simp [charge, List.map_map, Function.comp_def]

theorem chargeAll_bin (W : List (List (Nat × Nat))) (vs : List Int) : ∀ w ∈ (chargeAll W vs).flatten, isBin w.2 = true := by
  induction W generalizing vs with
  | nil => cases vs <;> simp [chargeAll]
  | cons w W ih =>
    cases vs with
    | nil => simp [chargeAll]
    | cons v vs =>
      intro x hx
      simp only [chargeAll, List.flatten_cons, List.mem_append] at hx
      rcases hx with hx | hx
      · simp only [charge, List.mem_map] at hx
        obtain ⟨q, _, rfl⟩ := hx
        simp only [bitChar]
        split <;> rfl
      · exact ih vs x hx

/-! ### one field -/

def expectedPositions (sl : Slot) : List (Nat × Nat) := (List.range sl.width).map (fun i => (15 - sl.shift - i, i))

theorem writesVal_append (n : Nat) (a b : List (Nat × Char)) : writesVal n (a ++ b) = writesVal n a + writesVal n b := by
  simp [writesVal]

theorem writesVal_field (v : Int) (shift w : Nat) (h : shift + w ≤ 16) :
    writesVal 16 (charge v ((List.range w).map (fun i => (15 - shift - i, i)))) = lowBits v w * 2 ^ shift := by
  induction w with
  | zero => simp [writesVal, charge, lowBits]
  | succ w ih =>
    rw [List.range_succ, List.map_append, charge, List.map_append, writesVal_append]
    have := ih (by omega)
    simp only [charge] at this
    rw [this]
    simp only [List.map_cons, List.map_nil, writesVal, List.sum_cons, List.sum_nil, lowBits, bitNat]
    have he : 16 - 1 - (15 - shift - w) = shift + w := by omega
    rw [he, Nat.pow_add]
    ring

def fieldSum : List Slot → List Int → Nat
  | sl :: ss, v :: vs => lowBits v sl.width * 2 ^ sl.shift + fieldSum ss vs
  | _, _ => 0

theorem writesVal_all (slots : List Slot) (vs : List Int) (hlen : vs.length = slots.length)
    (hfit : ∀ sl ∈ slots, sl.shift + sl.width ≤ 16) :
    writesVal 16 (chargeAll (slots.map expectedPositions) vs).flatten = fieldSum slots vs := by
  induction slots generalizing vs with
  | nil => cases vs <;> simp [chargeAll, writesVal, fieldSum]
  | cons sl ss ih =>
    cases vs with
    | nil => simp at hlen
    | cons v vs =>
      simp only [List.map_cons, chargeAll, List.flatten_cons, writesVal_append, fieldSum]
      rw [ih vs (by simpa using hlen) (fun s hs => hfit s (by simp [hs]))]
      rw [expectedPositions, writesVal_field v sl.shift sl.width (hfit sl (by simp))]

/-! ### the value-free wiring of an entry, checked for the whole table -/

def wiringOk (e : InsnG) : Bool :=
  match e.stubs.mapM (stubPositions e.pattern), layoutOf e with
  | some W, some (_, slots) =>
    e.pattern.length == 16 && (W == slots.map expectedPositions) &&
    slots.all (fun sl => sl.shift + sl.width ≤ 16) &&
    decide ((W.flatten.map Prod.fst).Nodup) &&
    (W.flatten.map Prod.fst).all (fun j => match e.pattern[j]? with | some c => c != '1' | none => false) &&
    (List.range 16).all (fun j => match e.pattern[j]? with | some c => isBin c || (W.flatten.map Prod.fst).contains j | none => false)
  | _, _ => false

/-- every entry of the regenerated table: each stub writes value bit `i` to template position
`15 - shift - i` of its field, the fields are disjoint, hold no fixed `1`, and cover every
non-digit symbol of the template -/
theorem wiring_ok_all : Gen.opcodes.all wiringOk = true := by decide +kernel

/-! ### the theorem -/

theorem bitOf_base (c : Char) : bitOf (if c = '1' then '1' else '0') = bitOf c := by
  by_cases h : c = '1' <;> simp [bitOf, h]

theorem digitsVal_basePattern (p : List Char) : digitsVal (basePattern p) = digitsVal p := by
  unfold digitsVal basePattern
  rw [List.foldl_map]
  simp [bitOf_base]

theorem basePattern_bin (p : List Char) : (basePattern p).all isBin = true := by
  simp only [basePattern, List.all_map, List.all_eq_true]
  intro c _
  by_cases h : c = '1' <;> simp [isBin, h]

theorem layout_base (e : InsnG) (base : Nat) (slots : List Slot) (h : layoutOf e = some (base, slots)) :
    base = digitsVal e.pattern := by
  unfold layoutOf at h
  cases hs : e.stubs.mapM (stubSlot e.pattern) with
  | none => simp [hs] at h
  | some sl =>
    rw [binValue_of_bin _ (basePattern_bin e.pattern)] at h
    simp only [hs, Option.bind_eq_bind, Option.bind_some, digitsVal_basePattern] at h
    by_cases h16 : e.pattern.length = 16
    · simp [h16] at h; exact h.1.symm
    · simp [h16] at h

theorem mapM_length {α β : Type} (f : α → Option β) (l : List α) (r : List β) (h : l.mapM f = some r) : r.length = l.length := by
  induction l generalizing r with
  | nil => simp at h; subst h; rfl
  | cons a t ih =>
    simp only [List.mapM_cons] at h
    cases hf : f a with
    | none => simp [hf] at h
    | some b =>
      cases ht : t.mapM f with
      | none => simp [hf, ht] at h
      | some r' =>
        simp [hf, ht] at h
        subst h
        simp [ih r' ht]

/-- **`get_opcode` is arithmetic.** For an entry whose wiring is as checked (`wiring_ok_all`: every
entry of the table) and *any* operand values, the word read from the substituted template is the
base opcode plus each value's low `width` bits at the field's `shift`. -/
theorem getOpcode_numeric (e : InsnG) (h : wiringOk e = true) (vs : List Int) (hlen : vs.length = e.stubs.length) :
    ∃ base slots, layoutOf e = some (base, slots) ∧
      getOpcode e.pattern (e.stubs.zip vs) = some (base + fieldSum slots vs) := by
  unfold wiringOk at h
  cases hW : e.stubs.mapM (stubPositions e.pattern) with
  | none => simp [hW] at h
  | some W =>
    cases hL : layoutOf e with
    | none => simp [hW, hL] at h
    | some bl =>
      obtain ⟨base, slots⟩ := bl
      simp only [hW, hL, Bool.and_eq_true, beq_iff_eq, decide_eq_true_eq, List.all_eq_true] at h
      obtain ⟨⟨⟨⟨⟨h16, hWeq⟩, hfit⟩, hnd⟩, h0⟩, hcov⟩ := h
      refine ⟨base, slots, rfl, ?_⟩
      have hWlen : W.length = e.stubs.length := mapM_length _ _ _ hW
      have hslen : slots.length = e.stubs.length := by rw [← hWlen, hWeq]; simp
      -- the writes
      have hfun : (fun (x : StubG × Int) => match x with | (s, v) => stubWrites e.pattern s v) = fun x => stubWrites e.pattern x.1 x.2 := by
        funext x; obtain ⟨s, v⟩ := x; rfl
      have hws := writes_of_positions e.pattern e.stubs W vs hW hlen
      unfold getOpcode
      simp only [hfun, hws, Option.bind_eq_bind, Option.bind_some]
      -- positions of the flattened writes
      have hpos := chargeAll_positions W vs (by omega)
      -- all symbols binary afterwards
      have hbin : (applyWrites e.pattern (chargeAll W vs).flatten).all isBin = true := by
        apply all_bin_applyWrites _ _ (chargeAll_bin W vs)
        intro j x hx
        rw [hpos]
        have hj : j < 16 := by
          have := List.getElem?_eq_some_iff.mp hx
          obtain ⟨hlt, _⟩ := this
          omega
        have := hcov j (by simp [hj])
        rw [hx] at this
        simp only [Bool.or_eq_true] at this
        rcases this with h1 | h1
        · left; exact h1
        · right; simpa using h1
      rw [binValue_of_bin _ hbin]
      -- the value
      have hval := digitsVal_applyWrites e.pattern (chargeAll W vs).flatten (by rw [hpos]; exact hnd)
        (by
          intro w hw
          have : w.1 ∈ (chargeAll W vs).flatten.map Prod.fst := List.mem_map_of_mem (f := Prod.fst) hw
          rw [hpos] at this
          have := h0 w.1 this
          cases hp : e.pattern[w.1]? with
          | none => simp [hp] at this
          | some c => exact (List.getElem?_eq_some_iff.mp hp).1)
        (by
          intro w hw x hx
          have : w.1 ∈ (chargeAll W vs).flatten.map Prod.fst := List.mem_map_of_mem (f := Prod.fst) hw
          rw [hpos] at this
          have := h0 w.1 this
          rw [hx] at this
          simp only [bne_iff_ne, ne_eq] at this
          simp [bitOf, this])
      rw [hval, ← layout_base e base slots hL, h16, hWeq,
        writesVal_all slots vs (by omega) (fun sl hs => by simpa using hfit sl hs)]

/-! ### … and it is the ISA's encoding -/

open Pdpy11.Spec.Isa in
/-- the ISA's encoding of an instruction: base opcode plus every operand field's value (its low
`width` bits) at the field's position -/
def specFieldSum : List Field → List Int → Nat
  | f :: fs, v :: vs => lowBits v f.width * 2 ^ f.shift + specFieldSum fs vs
  | _, _ => 0

open Pdpy11.Spec.Isa in
theorem fieldSum_eq_spec (slots : List Slot) (fs : List Field) (vs : List Int) (hl : slots.length = fs.length)
    (hm : (slots.zip fs).all (fun x => kindMatches x.1 x.2) = true) : fieldSum slots vs = specFieldSum fs vs := by
  induction slots generalizing fs vs with
  | nil => cases fs <;> cases vs <;> simp [fieldSum, specFieldSum] at *
  | cons sl ss ih =>
    cases fs with
    | nil => simp at hl
    | cons f fs =>
      cases vs with
      | nil => simp [fieldSum, specFieldSum]
      | cons v vs =>
        simp only [List.zip_cons_cons, List.all_cons, Bool.and_eq_true] at hm
        have hk := hm.1
        simp only [kindMatches, Bool.and_eq_true, beq_iff_eq] at hk
        simp only [fieldSum, specFieldSum]
        rw [ih fs vs (by simpa using hl) hm.2, hk.1.1, hk.1.2]

open Pdpy11.Spec.Isa in
/-- **Machine-code fidelity of the opcode word, for all operand values.** For every mnemonic of
the regenerated table (with its hint into the ISA table) and any values of its operand fields, the
word `get_opcode` produces is the base opcode the independent ISA table gives for that mnemonic
(synonyms and convenience mnemonics through the instruction they stand for) plus each value's low
`width` bits at the ISA's field position, in the ISA's operand order. -/
theorem opcode_word_is_isa_encoding (e : InsnG) (hint : Nat × Nat × Nat)
    (hmem : (e, hint) ∈ Gen.opcodes.zip Gen.specHints) (vs : List Int) (hlen : vs.length = e.stubs.length) :
    ∃ b fs, specVia e.name hint = some (b, fs) ∧ fs.length = e.stubs.length ∧
      getOpcode e.pattern (e.stubs.zip vs) = some (b + specFieldSum fs vs) := by
  have hm := (List.all_eq_true.mp table_matches_isa) (e, hint) hmem
  have he : e ∈ Gen.opcodes := (List.of_mem_zip hmem).1
  have hw := (List.all_eq_true.mp wiring_ok_all) e he
  obtain ⟨base, slots, hL, hG⟩ := getOpcode_numeric e hw vs hlen
  simp only [entryMatches, hL] at hm
  cases hs : specVia e.name hint with
  | none => simp [hs] at hm
  | some bf =>
    obtain ⟨b, fs⟩ := bf
    simp only [hs, Bool.and_eq_true, beq_iff_eq] at hm
    obtain ⟨⟨hb, hl⟩, hk⟩ := hm
    -- the number of fields is the number of stubs
    have hslots : slots.length = e.stubs.length := by
      unfold layoutOf at hL
      cases hsl : e.stubs.mapM (stubSlot e.pattern) with
      | none => simp [hsl] at hL
      | some sl =>
        have := mapM_length _ _ _ hsl
        cases hbv : binValue (basePattern e.pattern) with
        | none => simp [hsl, hbv] at hL
        | some bv =>
          by_cases h16 : e.pattern.length = 16
          · simp [hsl, hbv, h16] at hL; rw [← hL.2]; exact this
          · simp [hsl, hbv, h16] at hL
    refine ⟨b, fs, rfl, by omega, ?_⟩
    rw [hG, hb, fieldSum_eq_spec slots fs vs hl hk]


end Pdpy11.Props.C01
