import Pdpy11.Model.Pattern
import Pdpy11.Spec.Isa
/-
C01 — machine-code fidelity of every instruction form.
Part 1: every entry of the regenerated table against the independent ISA table.
-/
namespace Pdpy11.Props.C01
open Pdpy11 Pdpy11.Model Pdpy11.Model.Insn Pdpy11.Model.Pattern Pdpy11.Gen Pdpy11.Spec.Isa

/-! ### `init()` re-computed for all 252 entries -/

/-- the 16-symbol template the implementation derived from each octal pattern is what the
    model of `init()` derives -/
theorem pattern_expansion :
    Gen.opcodes.all (fun e => expandRaw e.raw == some e.pattern) = true := by decide +kernel

/-- the operand stubs (class, field letter, bit indexes, signedness, order) are what the model
    of `init()` infers from the template -/
theorem stubs_inferred :
    Gen.opcodes.all (fun e => inferStubs e.pattern == some e.stubs) = true := by decide +kernel

theorem table_size : Gen.opcodes.length = 252 ∧ Gen.extraInstructionKeys = [] ∧ Gen.instructionCount = 252 ∧
    Gen.specHints.length = 252 := by decide +kernel

/-! ### every field is contiguous and every entry equals the ISA's encoding -/

/-- every stub of every entry addresses a contiguous field of the word (bit `i` of the value
    lands on bit `shift + i`) and all other symbols are binary digits -/
theorem fields_contiguous :
    Gen.opcodes.all (fun e => (layoutOf e).isSome) = true := by decide +kernel

def kindMatches (s : Slot) (f : Field) : Bool :=
  s.shift == f.shift && s.width == f.width &&
  (match s.cls, f.kind with
   | .registerMode, .rm => true
   | .register, .reg => true
   | .fp11rm, .frm => true
   | .fp11acc, .ac => true
   | .immediate, .num => true
   | .offset, .br => !s.unsigned
   | .offset, .sob => s.unsigned
   | _, _ => false)

/-- base opcode and fields of the instruction a convenience mnemonic stands for, with the
    implied operand filled in -/
def convLayout (c : Canon) : Conv → Option (Nat × List Field)
  | .push => if c.name == "mov" then some (c.base + 0o46, [⟨.rm, 6, 6⟩]) else none       -- mov x, -(sp)
  | .pop => if c.name == "mov" then some (c.base + 0o2600, [⟨.rm, 0, 6⟩]) else none      -- mov (sp)+, x
  | .ret => if c.name == "rts" then some (c.base + 7, []) else none                       -- rts pc
  | .call => if c.name == "jsr" then some (c.base + 0o700, [⟨.rm, 0, 6⟩]) else none      -- jsr pc, x

/-- what the specification says the mnemonic `name` encodes to, found through the (untrusted)
    hint `(canon index, synonym index, convenience index)`; every name the hint points at is
    compared with the mnemonic, so a wrong hint can only yield `none` -/
def specVia (name : String) (h : Nat × Nat × Nat) : Option (Nat × List Field) := do
  let target ← if h.2.1 = 9999 then some name else
    match synonyms[h.2.1]? with
    | some (a, t) => if a == name then some t else none
    | none => none
  let c ← canon[h.1]?
  if h.2.2 = 9999 then
    if c.name == target then some (c.base, fields c.fmt) else none
  else
    match conveniences[h.2.2]? with
    | some (a, conv) => if a == target then convLayout c conv else none
    | none => none

def entryMatches (e : InsnG) (h : Nat × Nat × Nat) : Bool :=
  match layoutOf e, specVia e.name h with
  | some (b, slots), some (b', fs) => b == b' && slots.length == fs.length && (slots.zip fs).all (fun (s, f) => kindMatches s f)
  | _, _ => false

/-- **Every octal digit and every bit index of the table is under this theorem**: for each of
    the 252 mnemonics, base opcode, field positions, field widths, operand classes and operand
    order equal those of the independent ISA table (synonyms and convenience mnemonics through
    the instruction they stand for). -/
theorem table_matches_isa :
    (Gen.opcodes.zip Gen.specHints).all (fun p => entryMatches p.1 p.2) = true := by decide +kernel

/-- the ISA table has exactly as many mnemonics as the assembler -/
theorem isa_size : canon.length + synonyms.length + conveniences.length = 252 := by decide +kernel

/-- synonymous mnemonics denote the same base opcode and the same operand fields, classes and
    order (the field *letters* may differ: `callr` is written with `s`, `jmp` with `d`) -/
theorem synonyms_encode_equal :
    synonyms.length = Gen.synonymHints.length ∧
    (synonyms.zip Gen.synonymHints).all (fun p =>
      match Gen.opcodes[p.2.1]?, Gen.opcodes[p.2.2]? with
      | some a, some b => a.name == p.1.1 && b.name == p.1.2 && (layoutOf a).isSome && layoutOf a == layoutOf b
      | _, _ => false) = true := by decide +kernel

/-- canonical operations do not share encodings: the fixed bits of any two differ -/
def varMask (fs : List Field) : Nat := (fs.map (fun f => (2 ^ f.width - 1) * 2 ^ f.shift)).foldl (· + ·) 0

def fixedParts : List (Nat × Nat) := canon.map (fun c => (c.base, 0xFFFF ^^^ varMask (fields c.fmt)))

def pairwiseDisjoint : List (Nat × Nat) → Bool
  | [] => true
  | a :: rest => rest.all (fun b => ((a.1 ^^^ b.1) &&& a.2 &&& b.2) != 0) && pairwiseDisjoint rest

theorem canon_disjoint : pairwiseDisjoint fixedParts = true := by decide +kernel

end Pdpy11.Props.C01
