import Pdpy11.Model.Listing
/-
C19 — the listing agrees with the image (the part that is about the listing text itself:
every symbol once, ordering, octal round trip, path; that a label's value is the offset of
the following byte is C02).
-/
namespace Pdpy11.Props.C19
open Pdpy11 Pdpy11.Model Pdpy11.Model.Listing

/-! ### octal -/

def ofOct : List Nat → Nat := fun ds => ds.foldl (fun acc d => 8 * acc + d) 0

theorem ofOct_append (a : List Nat) (d : Nat) : ofOct (a ++ [d]) = 8 * ofOct a + d := by
  simp [ofOct, List.foldl_append]

theorem ofOct_octDigitsAux (f n : Nat) (h : n ≤ f) : ofOct (octDigitsAux f n) = n := by
  induction f generalizing n with
  | zero => have : n = 0 := by omega
            subst this; simp [octDigitsAux, ofOct]
  | succ f ih =>
    unfold octDigitsAux
    split
    · simp [ofOct]
    · rw [ofOct_append, ih (n / 8) (by omega)]
      omega

theorem ofOct_octDigits (n : Nat) : ofOct (octDigits n) = n := ofOct_octDigitsAux n n (Nat.le_refl n)

theorem octDigitsAux_lt8 (f n : Nat) : ∀ d ∈ octDigitsAux f n, d < 8 := by
  induction f generalizing n with
  | zero => intro d hd; simp [octDigitsAux] at hd; omega
  | succ f ih =>
    unfold octDigitsAux
    split
    · intro d hd; simp at hd; omega
    · intro d hd
      rcases List.mem_append.mp hd with hd | hd
      · exact ih (n / 8) d hd
      · simp at hd; omega

theorem octDigits_lt8 (n : Nat) : ∀ d ∈ octDigits n, d < 8 := octDigitsAux_lt8 n n

theorem ofOct_pad6 (ds : List Nat) : ofOct (pad6 ds) = ofOct ds := by
  unfold pad6
  generalize 6 - ds.length = k
  induction k with
  | zero => simp
  | succ k ih =>
    have : List.replicate (k + 1) 0 ++ ds = 0 :: (List.replicate k 0 ++ ds) := by simp [List.replicate_succ]
    rw [this]
    have h0 : ∀ (l : List Nat), ofOct (0 :: l) = ofOct l := by intro l; simp [ofOct]
    rw [h0, ih]

/-- **Octal round trip**: the digits printed for a value read back, in base 8, as its magnitude;
    the sign is printed separately; at least six digits are printed -/
theorem listing_octal_roundtrip (v : Int) :
    ofOct (pad6 (octDigits v.natAbs)) = v.natAbs ∧ 6 ≤ (pad6 (octDigits v.natAbs)).length ∧
    (∀ d ∈ pad6 (octDigits v.natAbs), d < 8) := by
  refine ⟨by rw [ofOct_pad6, ofOct_octDigits], by simp [pad6]; omega, ?_⟩
  intro d hd
  simp only [pad6, List.mem_append, List.mem_replicate] at hd
  rcases hd with ⟨_, rfl⟩ | hd
  · omega
  · exact octDigits_lt8 _ d hd

/-- the line of a symbol: optional minus, the digits, a blank, the name, a newline -/
theorem line_shape (s : Sym) :
    line s = (if s.value < 0 then [45] else []) ++ (pad6 (octDigits s.value.natAbs)).map digitChar ++ [32] ++ s.name ++ [10] := rfl

/-! ### ordering -/

theorem lexLe_total (a b : Str) : lexLe a b = true ∨ lexLe b a = true := by
  induction a generalizing b with
  | nil => left; simp [lexLe]
  | cons x xs ih =>
    cases b with
    | nil => right; simp [lexLe]
    | cons y ys =>
      simp only [lexLe, Bool.or_eq_true, decide_eq_true_eq, Bool.and_eq_true, beq_iff_eq]
      rcases Nat.lt_trichotomy x y with h | h | h
      · left; left; exact h
      · subst h
        rcases ih ys with h2 | h2
        · left; right; exact ⟨rfl, h2⟩
        · right; right; exact ⟨rfl, h2⟩
      · right; left; exact h

theorem lexLe_trans (a b c : Str) (h1 : lexLe a b = true) (h2 : lexLe b c = true) : lexLe a c = true := by
  induction a generalizing b c with
  | nil => simp [lexLe]
  | cons x xs ih =>
    cases b with
    | nil => simp [lexLe] at h1
    | cons y ys =>
      cases c with
      | nil => simp [lexLe] at h2
      | cons z zs =>
        simp only [lexLe, Bool.or_eq_true, decide_eq_true_eq, Bool.and_eq_true, beq_iff_eq] at h1 h2 ⊢
        rcases h1 with h1 | ⟨rfl, h1⟩
        · rcases h2 with h2 | ⟨rfl, _⟩
          · left; omega
          · left; exact h1
        · rcases h2 with h2 | ⟨rfl, h2⟩
          · left; exact h2
          · right; exact ⟨rfl, ih ys zs h1 h2⟩

theorem keyLe_total (a b : Sym) : (keyLe a b || keyLe b a) = true := by
  simp only [keyLe, Bool.or_eq_true, decide_eq_true_eq, Bool.and_eq_true, beq_iff_eq]
  rcases Int.lt_trichotomy a.value b.value with h | h | h
  · left; left; exact h
  · rcases lexLe_total a.name b.name with h2 | h2
    · left; right; exact ⟨h, h2⟩
    · right; right; exact ⟨h.symm, h2⟩
  · right; left; exact h

theorem keyLe_trans (a b c : Sym) (h1 : keyLe a b = true) (h2 : keyLe b c = true) : keyLe a c = true := by
  simp only [keyLe, Bool.or_eq_true, decide_eq_true_eq, Bool.and_eq_true, beq_iff_eq] at h1 h2 ⊢
  rcases h1 with h1 | ⟨e1, h1⟩
  · rcases h2 with h2 | ⟨e2, _⟩
    · left; omega
    · left; omega
  · rcases h2 with h2 | ⟨e2, h2⟩
    · left; omega
    · right; exact ⟨by omega, lexLe_trans _ _ _ h1 h2⟩

theorem insertBy_perm (a : Sym) (l : List Sym) : (insertBy a l).Perm (a :: l) := by
  induction l with
  | nil => simp [insertBy]
  | cons b r ih =>
    unfold insertBy
    split
    · exact List.Perm.refl _
    · exact (List.Perm.cons b ih).trans (List.Perm.swap a b r)

theorem isort_perm (l : List Sym) : (isort l).Perm l := by
  induction l with
  | nil => simp [isort]
  | cons a r ih => exact (insertBy_perm a (isort r)).trans (List.Perm.cons a ih)

theorem insertBy_sorted (a : Sym) (l : List Sym) (h : l.Pairwise (fun x y => keyLe x y = true)) :
    (insertBy a l).Pairwise (fun x y => keyLe x y = true) := by
  induction l with
  | nil => simp [insertBy]
  | cons b r ih =>
    unfold insertBy
    have hb := (List.pairwise_cons.mp h)
    split
    · rename_i hab
      refine List.pairwise_cons.mpr ⟨?_, h⟩
      intro c hc
      rcases List.mem_cons.mp hc with rfl | hc
      · exact hab
      · exact keyLe_trans a b c hab (hb.1 c hc)
    · rename_i hab
      have hba : keyLe b a = true := by
        have := keyLe_total a b
        simp only [Bool.or_eq_true] at this
        rcases this with h1 | h1
        · exact absurd h1 hab
        · exact h1
      refine List.pairwise_cons.mpr ⟨?_, ih hb.2⟩
      intro c hc
      have hc' := (insertBy_perm a r).mem_iff.mp hc
      rcases List.mem_cons.mp hc' with rfl | hc'
      · exact hba
      · exact hb.1 c hc'

theorem isort_sorted (l : List Sym) : (isort l).Pairwise (fun x y => keyLe x y = true) := by
  induction l with
  | nil => simp [isort]
  | cons a r ih => exact insertBy_sorted a _ ih

/-- **Ordered by value then name**: within each file's group every symbol is `≤` every later one -/
theorem listing_sorted (syms : List Sym) (f : Str) : (group syms f).Pairwise (fun a b => keyLe a b = true) :=
  isort_sorted _

/-- **Every symbol of a file exactly once**: the group listed under a file name is a permutation
    of that file's symbols -/
theorem listing_each_once (syms : List Sym) (f : Str) : (group syms f).Perm (syms.filter (·.file = f)) :=
  isort_perm _

/-- every symbol's file is a heading, and each heading appears once -/
theorem files_complete (syms : List Sym) : (∀ s ∈ syms, s.file ∈ files syms) ∧ (files syms).Nodup := by
  induction syms with
  | nil => simp [files]
  | cons s r ih =>
    constructor
    · intro t ht
      rcases List.mem_cons.mp ht with rfl | ht
      · simp [files]
      · by_cases h : t.file = s.file
        · simp [files, h]
        · simp only [files, List.mem_cons, List.mem_filter]
          right; exact ⟨ih.1 t ht, by simpa using h⟩
    · simp only [files, List.nodup_cons, List.mem_filter]
      refine ⟨by simp, ih.2.filter _⟩

/-! ### the path -/

example : lstPath ("dir/out.bin".toList.map Char.toNat) ("bin".toList.map Char.toNat) = "dir/out.lst".toList.map Char.toNat := by decide
example : lstPath ("prog".toList.map Char.toNat) ("raw".toList.map Char.toNat) = "prog.lst".toList.map Char.toNat := by decide
example : lstPath ("t.wav".toList.map Char.toNat) ("bk_wav".toList.map Char.toNat) = "t.wav.lst".toList.map Char.toNat := by decide

/-- the listing path always ends in `.lst` (the only special case is `-` ↦ `listing.lst`) -/
theorem lst_path_suffix (path fmt : Str) : endsWith (lstPath path fmt) [46, 108, 115, 116] = true := by
  unfold lstPath
  simp only
  generalize (if endsWith path ([46] ++ fmt) = true then beforeLastDot path else path) = base
  split
  · decide
  · simp [endsWith]

/-! ### non-vacuity -/
example : listing [⟨[97], [120], -5⟩, ⟨[97], [121], 512⟩, ⟨[98], [122], 70000⟩, ⟨[97], [119], 512⟩] =
    [97, 10] ++ ("-000005 x\n001000 w\n001000 y\n".toList.map Char.toNat) ++ [10] ++
    [98, 10] ++ ("210560 z\n".toList.map Char.toNat) ++ [10] := by decide +kernel

/-! ### the listing is a function of the set of symbols -/

theorem lexLe_antisymm (a b : Str) (h1 : lexLe a b = true) (h2 : lexLe b a = true) : a = b := by
  induction a generalizing b with
  | nil => cases b with
    | nil => rfl
    | cons y ys => simp [lexLe] at h2
  | cons x xs ih => cases b with
    | nil => simp [lexLe] at h1
    | cons y ys =>
      simp only [lexLe, Bool.or_eq_true, decide_eq_true_eq, Bool.and_eq_true, beq_iff_eq] at h1 h2
      rcases h1 with h1 | ⟨e1, h1⟩
      · rcases h2 with h2 | ⟨e2, _⟩
        · omega
        · omega
      · rcases h2 with h2 | ⟨_, h2⟩
        · omega
        · rw [e1, ih ys h1 h2]

/-- two symbols of one file with the same value and name are the same symbol, so the sort key
    is antisymmetric inside a file -/
theorem keyLe_antisymm (a b : Sym) (hf : a.file = b.file) (h1 : keyLe a b = true) (h2 : keyLe b a = true) : a = b := by
  simp only [keyLe, Bool.or_eq_true, decide_eq_true_eq, Bool.and_eq_true, beq_iff_eq] at h1 h2
  have hv : a.value = b.value := by
    rcases h1 with h1 | ⟨e1, _⟩ <;> rcases h2 with h2 | ⟨e2, _⟩ <;> omega
  have hn : a.name = b.name := by
    rcases h1 with h1 | ⟨_, h1⟩
    · omega
    · rcases h2 with h2 | ⟨_, h2⟩
      · omega
      · exact lexLe_antisymm _ _ h1 h2
  cases a; cases b; simp_all

/-- **The listing of a file does not depend on the order in which its symbols were defined**
    (the order of the symbol table): any two symbol tables that hold the same symbols give the
    same section, line for line. -/
theorem listing_order_independent (s1 s2 : List Sym) (h : s1.Perm s2) (f : Str) : group s1 f = group s2 f := by
  have hp : (group s1 f).Perm (group s2 f) :=
    (listing_each_once s1 f).trans ((h.filter _).trans (listing_each_once s2 f).symm)
  refine List.Perm.eq_of_pairwise (le := fun a b => keyLe a b = true) ?_ (listing_sorted s1 f) (listing_sorted s2 f) hp
  intro a b ha hb hab hba
  have fa : a.file = f := by
    have := (listing_each_once s1 f).subset ha
    simpa using (List.mem_filter.mp this).2
  have fb : b.file = f := by
    have := (listing_each_once s2 f).subset hb
    simpa using (List.mem_filter.mp this).2
  exact keyLe_antisymm a b (fa.trans fb.symm) hab hba

example : group [⟨[97], [120], 5⟩, ⟨[97], [121], -2⟩] [97] = group [⟨[97], [121], -2⟩, ⟨[97], [120], 5⟩] [97] := by decide

end Pdpy11.Props.C19
