import Pdpy11.Model.Link
import Pdpy11.Props.C09
import Pdpy11.Props.C06
/-
C12 — the link base is what the source says, or an error.
-/
namespace Pdpy11.Props.C12
open Pdpy11.Model Pdpy11.Model.Lin Pdpy11.Model.Link Pdpy11.Props.C09

/-! ### the decision -/

/-- no `.link` and no leading `. =`: the load address is 0o1000 -/
theorem default_base : decideBase none = (0o1000, none) := rfl

/-- **The base is the arithmetic value of its own expression**: when the base cancels in the
    link expression (`K + end − start` …) and the value fits 16 bits, the base is that value —
    and evaluating the expression with the base set to *any* number, in particular to the base
    itself, gives the same value (fixpoint) -/
theorem base_fixpoint (e : RExpr) (h : (toLin e).coef = 0) (hr : -(2 ^ 16 : Int) < (toLin e).const ∧ (toLin e).const < 2 ^ 16) :
    ∃ b, decideBase (some (.value (toLin e))) = (b, none) ∧ b = (toLin e).const % 65536 ∧
      ∀ b', evalAt b' e = (toLin e).const := by
  refine ⟨(toLin e).const % 65536, ?_, rfl, ?_⟩
  · obtain ⟨x, hx⟩ := (C06.getAsInt_signed_ok_iff 16 (toLin e).const).mpr hr
    have hv := (C06.getAsInt_value 16 false _ x hx).1
    have e16 : (2 : Int) ^ 16 = 65536 := by decide
    simp [decideBase, h, hx, hv, e16]
  · intro b'
    rw [evalAt_affine]
    simp [valueAt, h]

/-- a base that genuinely depends on itself is reported, never assembled with an arbitrary value
    silently: the error is `recursive-definition` -/
theorem self_dependent_reports (l : Lin) (h : l.coef ≠ 0) :
    (decideBase (some (.value l))).2 = some "recursive-definition" ∧
    (decideBase (some .needsBase)).2 = some "recursive-definition" := by
  simp [decideBase, h]

/-- a link value that does not fit 16 bits is an error -/
theorem link_out_of_range_reports (c : Int) (h : ¬ (-(2 ^ 16 : Int) < c ∧ c < 2 ^ 16)) :
    (decideBase (some (.value ⟨0, c⟩))).2 = some "value-out-of-bounds" := by
  simp only [decideBase, ↓reduceIte]
  cases hg : Insn.getAsInt (some 16) false c with
  | ok v => exact absurd ((C06.getAsInt_signed_ok_iff 16 c).mp ⟨v, hg⟩) h
  | error e =>
    have := C06.getAsInt_error _ _ _ _ hg
    subst this
    rfl

/-- the first `.link` (or leading `. =`) wins; every later `.link` is a conflict and changes nothing -/
theorem second_link_reports {α : Type} (first second : α) :
    setLink (none : Option α) first = (some first, false) ∧
    setLink (some first) second = (some first, true) := ⟨rfl, rfl⟩

/-- … for any number of later attempts -/
theorem links_first_wins {α : Type} (first : α) (later : List α) :
    (later.foldl (fun st x => (setLink st x).1) (some first)) = some first := by
  induction later with
  | nil => rfl
  | cons x r ih => simpa [setLink] using ih

/-! ### `. = X` once the base is set -/

/-- forward: accepted exactly when the new address is not lower, and fills the gap with zeros -/
theorem dot_assign_forward (old new : Int) :
    (new ≥ old → ∃ bs, skipBytes old new = .ok bs ∧ (bs.length : Int) = new - old ∧ ∀ b ∈ bs, b = 0) ∧
    (new < old → skipBytes old new = .error "value-out-of-bounds") := by
  constructor
  · intro h
    have : ¬ new < old := by omega
    refine ⟨List.replicate (new - old).toNat 0, by simp [skipBytes, this], ?_, ?_⟩
    · simp; omega
    · intro b hb; exact (List.mem_replicate.mp hb).2
  · intro h; simp [skipBytes, h]

/-! ### non-vacuity -/
-- `.link 1000 + end - start` with start at offset 0 and end at offset 6
example : decideBase (some (.value (toLin (.add (.num 0o1000) (.sub (.address 6) (.address 0)))))) = (0o1006, none) := by decide
example : (decideBase (some (.value (toLin (.add (.num 0o1000) (.address 6)))))).2 = some "recursive-definition" := by decide
example : skipBytes 10 14 = .ok [0, 0, 0, 0] := by rfl

end Pdpy11.Props.C12
