import Pdpy11.Model.Link
import Pdpy11.Model.Poly
import Pdpy11.Props.C09
import Pdpy11.Props.C06
/-
C12 — the link base is what the source says, or an error.
-/
namespace Pdpy11.Props.C12
open Pdpy11.Model Pdpy11.Model.Lin Pdpy11.Model.Link Pdpy11.Props.C09

/-! ### the decision -/

/-- no `.link` and no leading `. =`: the load address is 0o1000 -/
theorem default_base : decideBase none = (0o1000, none) := rfl

/-- **The base is the arithmetic value of its own expression**: when the base cancels in the
    link expression (`K + end − start` …) and the value fits 16 bits, the base is that value —
    and evaluating the expression with the base set to *any* number, in particular to the base
    itself, gives the same value (fixpoint) -/
theorem base_fixpoint (e : RExpr) (h : (toLin e).coef = 0) (hr : -(2 ^ 16 : Int) < (toLin e).const ∧ (toLin e).const < 2 ^ 16) :
    ∃ b, decideBase (some (.value (toLin e))) = (b, none) ∧ b = (toLin e).const % 65536 ∧
      ∀ b', evalAt b' e = (toLin e).const := by
  refine ⟨(toLin e).const % 65536, ?_, rfl, ?_⟩
  · obtain ⟨x, hx⟩ := (C06.getAsInt_signed_ok_iff 16 (toLin e).const).mpr hr
    have hv := (C06.getAsInt_value 16 false _ x hx).1
    have e16 : (2 : Int) ^ 16 = 65536 := by decide
    simp [decideBase, h, hx, hv, e16]
  · intro b'
    rw [evalAt_affine]
    simp [valueAt, h]

/-- a base that genuinely depends on itself is reported, never assembled with an arbitrary value
    silently: the error is `recursive-definition` -/
theorem self_dependent_reports (l : Lin) (h : l.coef ≠ 0) :
    (decideBase (some (.value l))).2 = some "recursive-definition" ∧
    (decideBase (some .needsBase)).2 = some "recursive-definition" := by
  simp [decideBase, h]

/-- a link value that does not fit 16 bits is an error -/
theorem link_out_of_range_reports (c : Int) (h : ¬ (-(2 ^ 16 : Int) < c ∧ c < 2 ^ 16)) :
    (decideBase (some (.value ⟨0, c⟩))).2 = some "value-out-of-bounds" := by
  simp only [decideBase, ↓reduceIte]
  cases hg : Insn.getAsInt (some 16) false c with
  | ok v => exact absurd ((C06.getAsInt_signed_ok_iff 16 c).mp ⟨v, hg⟩) h
  | error e =>
    have := C06.getAsInt_error _ _ _ _ hg
    subst this
    rfl

/-- the first `.link` (or leading `. =`) wins; every later `.link` is a conflict and changes nothing -/
theorem second_link_reports {α : Type} (first second : α) :
    setLink (none : Option α) first = (some first, false) ∧
    setLink (some first) second = (some first, true) := ⟨rfl, rfl⟩

/-- … for any number of later attempts -/
theorem links_first_wins {α : Type} (first : α) (later : List α) :
    (later.foldl (fun st x => (setLink st x).1) (some first)) = some first := by
  induction later with
  | nil => rfl
  | cons x r ih => simpa [setLink] using ih

/-! ### `. = X` once the base is set -/

/-- forward: accepted exactly when the new address is not lower, and fills the gap with zeros -/
theorem dot_assign_forward (old new : Int) :
    (new ≥ old → ∃ bs, skipBytes old new = .ok bs ∧ (bs.length : Int) = new - old ∧ ∀ b ∈ bs, b = 0) ∧
    (new < old → skipBytes old new = .error "value-out-of-bounds") := by
  constructor
  · intro h
    have : ¬ new < old := by omega
    refine ⟨List.replicate (new - old).toNat 0, by simp [skipBytes, this], ?_, ?_⟩
    · simp; omega
    · intro b hb; exact (List.mem_replicate.mp hb).2
  · intro h; simp [skipBytes, h]

/-! ### non-vacuity -/
-- `.link 1000 + end - start` with start at offset 0 and end at offset 6
example : decideBase (some (.value (toLin (.add (.num 0o1000) (.sub (.address 6) (.address 0)))))) = (0o1006, none) := by decide
example : (decideBase (some (.value (toLin (.add (.num 0o1000) (.address 6)))))).2 = some "recursive-definition" := by decide
example : skipBytes 10 14 = .ok [0, 0, 0, 0] := by rfl

end Pdpy11.Props.C12

/-! ## `deferred.LinearPolynomial` — the symbolic arithmetic behind "the dependence cancels" -/

namespace Pdpy11.Props.C12.LinPoly
open Pdpy11.Model.Poly

/-! ### `LinearPolynomial`: the symbolic arithmetic keeps the meaning -/

theorem termSum_append (env : Var → Int) (a b : List (Var × Int)) :
    termSum env (a ++ b) = termSum env a + termSum env b := by
  induction a with
  | nil => simp [termSum]
  | cons hd tl ih => obtain ⟨v, c⟩ := hd; simp [termSum, ih]; omega

theorem termSum_bump (env : Var → Int) (d : List (Var × Int)) (k : Var) (v : Int) :
    termSum env (bump d k v) = termSum env d + v * env k := by
  induction d with
  | nil => simp [bump, termSum]
  | cons hd tl ih =>
    obtain ⟨k', v'⟩ := hd
    unfold bump
    split
    · rename_i h; subst h; simp [termSum, Int.add_mul]; omega
    · simp [termSum, ih]; omega

theorem termSum_foldl_bump (env : Var → Int) (pairs d : List (Var × Int)) :
    termSum env (pairs.foldl (fun d kv => bump d kv.1 kv.2) d) = termSum env d + termSum env pairs := by
  induction pairs generalizing d with
  | nil => simp [termSum]
  | cons hd tl ih =>
    obtain ⟨k, v⟩ := hd
    simp only [List.foldl_cons, ih, termSum_bump, termSum]; omega

theorem termSum_dropZero (env : Var → Int) (d : List (Var × Int)) :
    termSum env (dropZero d) = termSum env d := by
  induction d with
  | nil => rfl
  | cons hd tl ih =>
    obtain ⟨k, v⟩ := hd
    by_cases h : v = 0
    · subst h
      have : dropZero ((k, 0) :: tl) = dropZero tl := by simp [dropZero]
      rw [this, ih]; simp [termSum]
    · have : dropZero ((k, v) :: tl) = (k, v) :: dropZero tl := by simp [dropZero, h]
      rw [this]; simp [termSum, ih]

/-- the constructor merges duplicate variables and drops zero coefficients without changing
what the polynomial means -/
theorem eval_mk (env : Var → Int) (pairs : List (Var × Int)) (c : Int) :
    evalP env (mk pairs c) = termSum env pairs + c := by
  simp [evalP, mk, termSum_dropZero, build, termSum_foldl_bump, termSum]

theorem eval_mkDict (env : Var → Int) (d : List (Var × Int)) (c : Int) :
    evalP env (mkDict d c) = termSum env d + c := by
  simp [evalP, mkDict, termSum_dropZero]

theorem termSum_map_mul (env : Var → Int) (d : List (Var × Int)) (k : Int) :
    termSum env (d.map (fun kv => (kv.1, kv.2 * k))) = termSum env d * k := by
  induction d with
  | nil => simp [termSum]
  | cons hd tl ih =>
    obtain ⟨v, a⟩ := hd
    simp only [List.map_cons, termSum, ih, Int.add_mul]
    rw [Int.mul_assoc, Int.mul_comm k, ← Int.mul_assoc]

theorem termSum_map_neg (env : Var → Int) (d : List (Var × Int)) :
    termSum env (d.map (fun kv => (kv.1, -kv.2))) = - termSum env d := by
  induction d with
  | nil => simp [termSum]
  | cons hd tl ih =>
    obtain ⟨v, a⟩ := hd
    simp only [List.map_cons, termSum, ih, Int.neg_mul]; omega

/-- `__add__`, `__mul__` by a known integer, `__neg__`: ring homomorphisms of the meaning -/
theorem eval_add (env : Var → Int) (p q : P) : evalP env (add p q) = evalP env p + evalP env q := by
  rw [add, eval_mk, termSum_append]; simp only [evalP]; omega

theorem eval_addConst (env : Var → Int) (p : P) (k : Int) : evalP env (addConst p k) = evalP env p + k := by
  rw [addConst, eval_mkDict]; simp only [evalP]; omega

theorem eval_mulConst (env : Var → Int) (p : P) (k : Int) : evalP env (mulConst p k) = evalP env p * k := by
  rw [mulConst, eval_mkDict, termSum_map_mul]; simp only [evalP, Int.add_mul]

theorem eval_neg (env : Var → Int) (p : P) : evalP env (neg p) = - evalP env p := by
  rw [neg, eval_mkDict, termSum_map_neg]; simp only [evalP]; omega

theorem eval_ofVar (env : Var → Int) (v : Var) : evalP env (ofVar v) = env v := by
  rw [ofVar, eval_mkDict]; simp [termSum]

/-- a polynomial without variables *is* its constant -/
theorem estimate_sound (env : Var → Int) (p : P) (k : Int) (h : estimate p = some k) : evalP env p = k := by
  unfold estimate at h
  split at h
  · rename_i he
    have : p.coeffs = [] := by simpa using he
    simp [evalP, this, termSum]; simpa using h
  · cases h


/-! ### normal form: each variable once, no zero coefficient, cancellation is exact -/

def keys (d : List (Var × Int)) : List Var := d.map (·.1)

/-- the total coefficient a list of pairs gives to a variable -/
def coeffOf (v : Var) : List (Var × Int) → Int
  | [] => 0
  | (w, a) :: r => (if w = v then a else 0) + coeffOf v r

theorem keys_bump (d : List (Var × Int)) (k : Var) (v : Int) :
    keys (bump d k v) = if k ∈ keys d then keys d else keys d ++ [k] := by
  induction d with
  | nil => simp [bump, keys]
  | cons hd tl ih =>
    obtain ⟨k', v'⟩ := hd
    unfold bump
    by_cases h : k' = k
    · subst h; simp [keys]
    · have h' : ¬ k = k' := fun e => h e.symm
      simp only [h, ↓reduceIte]
      have : keys ((k', v') :: bump tl k v) = k' :: keys (bump tl k v) := rfl
      rw [this, ih]
      by_cases hm : k ∈ keys tl
      · have : k ∈ keys ((k', v') :: tl) := by simp only [keys, List.map_cons, List.mem_cons]; exact Or.inr hm
        rw [if_pos hm, if_pos this]; rfl
      · have : k ∉ keys ((k', v') :: tl) := by
          simp only [keys, List.map_cons, List.mem_cons, not_or]; exact ⟨h', hm⟩
        rw [if_neg hm, if_neg this]; rfl

theorem bump_nodup (d : List (Var × Int)) (k : Var) (v : Int) (h : (keys d).Nodup) : (keys (bump d k v)).Nodup := by
  rw [keys_bump]
  split
  · exact h
  · rename_i hm
    rw [List.nodup_append]
    refine ⟨h, by simp, ?_⟩
    intro a ha b hb
    simp at hb; subst hb
    intro e; subst e; exact hm ha

theorem foldl_bump_nodup (pairs d : List (Var × Int)) (h : (keys d).Nodup) :
    (keys (pairs.foldl (fun d kv => bump d kv.1 kv.2) d)).Nodup := by
  induction pairs generalizing d with
  | nil => exact h
  | cons hd tl ih => exact ih _ (bump_nodup d hd.1 hd.2 h)

theorem keys_dropZero_sub (d : List (Var × Int)) : (keys (dropZero d)).Sublist (keys d) := by
  unfold keys dropZero
  exact (List.filter_sublist).map _

/-- every variable occurs once among the coefficients -/
theorem mk_nodup (pairs : List (Var × Int)) (c : Int) : (keys (mk pairs c).coeffs).Nodup :=
  (foldl_bump_nodup pairs [] (by simp [keys])).sublist (keys_dropZero_sub _)

/-- … and never with coefficient zero -/
theorem mk_nonzero (pairs : List (Var × Int)) (c : Int) : ∀ kv ∈ (mk pairs c).coeffs, kv.2 ≠ 0 := by
  intro kv h
  simp [mk, dropZero] at h
  exact h.2

theorem coeffOf_append (v : Var) (a b : List (Var × Int)) : coeffOf v (a ++ b) = coeffOf v a + coeffOf v b := by
  induction a with
  | nil => simp [coeffOf]
  | cons hd tl ih => obtain ⟨w, x⟩ := hd; simp [coeffOf, ih]; omega

theorem coeffOf_bump (v : Var) (d : List (Var × Int)) (k : Var) (x : Int) :
    coeffOf v (bump d k x) = coeffOf v d + (if k = v then x else 0) := by
  induction d with
  | nil => simp [bump, coeffOf]
  | cons hd tl ih =>
    obtain ⟨k', x'⟩ := hd
    unfold bump
    by_cases h : k' = k
    · subst h; simp only [↓reduceIte, coeffOf]; split <;> omega
    · simp only [h, ↓reduceIte, coeffOf, ih]; omega

theorem coeffOf_build (v : Var) (pairs d : List (Var × Int)) :
    coeffOf v (pairs.foldl (fun d kv => bump d kv.1 kv.2) d) = coeffOf v d + coeffOf v pairs := by
  induction pairs generalizing d with
  | nil => simp [coeffOf]
  | cons hd tl ih => obtain ⟨k, x⟩ := hd; simp only [List.foldl_cons, ih, coeffOf_bump, coeffOf]; omega

theorem coeffOf_dropZero (v : Var) (d : List (Var × Int)) : coeffOf v (dropZero d) = coeffOf v d := by
  induction d with
  | nil => rfl
  | cons hd tl ih =>
    obtain ⟨k, x⟩ := hd
    by_cases h : x = 0
    · subst h
      have : dropZero ((k, 0) :: tl) = dropZero tl := by simp [dropZero]
      rw [this, ih]; simp [coeffOf]
    · have : dropZero ((k, x) :: tl) = (k, x) :: dropZero tl := by simp [dropZero, h]
      rw [this]; simp [coeffOf, ih]

theorem coeffOf_not_mem (v : Var) (d : List (Var × Int)) (h : v ∉ keys d) : coeffOf v d = 0 := by
  induction d with
  | nil => rfl
  | cons hd tl ih =>
    obtain ⟨k, x⟩ := hd
    simp [keys] at h
    have : ¬ k = v := fun e => h.1 e.symm
    simp [coeffOf, this]
    exact ih (by simpa [keys] using h.2)

theorem coeffOf_mem_nodup (v : Var) (d : List (Var × Int)) (hn : (keys d).Nodup) (x : Int) (h : (v, x) ∈ d) :
    coeffOf v d = x := by
  induction d with
  | nil => cases h
  | cons hd tl ih =>
    obtain ⟨k, y⟩ := hd
    have hn' : k ∉ keys tl ∧ (keys tl).Nodup := by simpa [keys] using hn
    rcases List.mem_cons.mp h with e | e
    · cases e
      simp [coeffOf, coeffOf_not_mem v tl hn'.1]
    · have hk : v ∈ keys tl := by simp only [keys, List.mem_map]; exact ⟨(v, x), e, rfl⟩
      have : ¬ k = v := fun e' => hn'.1 (e' ▸ hk)
      simp [coeffOf, this, ih hn'.2 e]

/-- the coefficient the normal form carries for a variable is the sum of everything the pairs
said about it -/
theorem mk_coeff (pairs : List (Var × Int)) (c : Int) (v : Var) :
    coeffOf v (mk pairs c).coeffs = coeffOf v pairs := by
  simp [mk, coeffOf_dropZero, build, coeffOf_build, coeffOf]

/-- **cancellation is exact**: a variable disappears from the polynomial if and only if its
coefficients sum to zero (`K + end − start`: the base drops out exactly when it cancels) -/
theorem cancel_iff (pairs : List (Var × Int)) (c : Int) (v : Var) :
    v ∉ keys (mk pairs c).coeffs ↔ coeffOf v pairs = 0 := by
  constructor
  · intro h; rw [← mk_coeff pairs c v]; exact coeffOf_not_mem v _ h
  · intro h hm
    simp only [keys, List.mem_map] at hm
    obtain ⟨⟨w, x⟩, hx, rfl⟩ := hm
    have h1 := coeffOf_mem_nodup w _ (mk_nodup pairs c) x hx
    rw [mk_coeff, h] at h1
    exact mk_nonzero pairs c _ hx h1.symm

/-- a polynomial does not depend on a variable it does not mention -/
theorem eval_indep (env env' : Var → Int) (p : P) (h : ∀ v ∈ keys p.coeffs, env v = env' v) :
    evalP env p = evalP env' p := by
  unfold evalP
  congr 1
  generalize p.coeffs = d at h
  induction d with
  | nil => rfl
  | cons hd tl ih =>
    obtain ⟨k, x⟩ := hd
    simp only [termSum]
    rw [h k (by simp [keys]), ih (fun v hv => h v (by simp [keys] at hv ⊢; exact Or.inr hv))]

/-- **relocation at the level of the engine**: moving one variable (the link base) by `D` moves
the value by (its coefficient) · `D` — nothing else in the polynomial reacts -/
theorem eval_shift (env : Var → Int) (v : Var) (D : Int) (p : P) :
    evalP (fun w => if w = v then env w + D else env w) p = evalP env p + coeffOf v p.coeffs * D := by
  unfold evalP
  generalize p.coeffs = d
  induction d with
  | nil => simp [termSum, coeffOf]
  | cons hd tl ih =>
    obtain ⟨k, x⟩ := hd
    have ih' : termSum (fun w => if w = v then env w + D else env w) tl = termSum env tl + coeffOf v tl * D := by omega
    simp only [termSum, coeffOf, ih']
    by_cases h : k = v
    · subst h; simp only [↓reduceIte, Int.mul_add, Int.add_mul]; omega
    · simp only [h, ↓reduceIte, Int.add_mul, Int.zero_mul]; omega

/-! ### substituting what is known, and the value `wait()` arrives at -/

/-- an assignment agrees with what the variables are said to stand for -/
def ConsistentR (env : Var → Int) (r : Var → Option Est) : Prop :=
  ∀ v e, r v = some e →
    match e with
    | .int k => env v = k
    | .var w => env v = env w
    | .poly q => env v = evalP env q

abbrev Consistent (env : Var → Int) (σ : Known) : Prop := ConsistentR env (look σ)

theorem consistent_look2 (env : Var → Int) (σ : Known) (hc : Consistent env σ) : ConsistentR env (look2 σ) := by
  intro v e h
  unfold look2 at h
  cases hl : look σ v with
  | none => rw [hl] at h; cases h
  | some e1 =>
    rw [hl] at h
    have h1 := hc v e1 hl
    cases e1 with
    | int k => simp only at h; cases h; exact h1
    | poly q => simp only at h; cases h; exact h1
    | var w =>
      simp only at h h1
      cases hw : look σ w with
      | none => rw [hw] at h; simp only at h; cases h; exact h1
      | some e2 =>
        rw [hw] at h; simp only at h; cases h
        have h2 := hc w e hw
        cases e with
        | int k => simp only at h2 ⊢; omega
        | var w2 => simp only at h2 ⊢; omega
        | poly q => simp only at h2 ⊢; omega

theorem substStep_sound (env : Var → Int) (r : Var → Option Est) (hc : ConsistentR env r) (acc : List (Var × Int) × Int) (kv : Var × Int) :
    termSum env (substStep r acc kv).1 + (substStep r acc kv).2 = termSum env acc.1 + acc.2 + kv.2 * env kv.1 := by
  unfold substStep
  cases hl : r kv.1 with
  | none => simp [termSum_append, termSum]; omega
  | some e =>
    have := hc kv.1 e hl
    cases e with
    | int k => simp only at this ⊢; rw [this, Int.mul_comm]; omega
    | var w => simp only at this ⊢; rw [this]; simp [termSum_append, termSum]; omega
    | poly q =>
      simp only at this ⊢
      rw [this, termSum_append, termSum_map_mul]
      simp only [evalP, Int.mul_add, Int.add_mul]
      rw [Int.mul_comm kv.2 (termSum env q.coeffs), Int.mul_comm kv.2 q.const]; omega

theorem foldl_substStep_sound (env : Var → Int) (r : Var → Option Est) (hc : ConsistentR env r) (d : List (Var × Int)) (acc : List (Var × Int) × Int) :
    termSum env (d.foldl (substStep r) acc).1 + (d.foldl (substStep r) acc).2 = termSum env acc.1 + acc.2 + termSum env d := by
  induction d generalizing acc with
  | nil => simp [termSum]
  | cons hd tl ih =>
    obtain ⟨k, x⟩ := hd
    simp only [List.foldl_cons]
    rw [ih, substStep_sound env r hc]; simp [termSum]; omega

theorem eval_substWith (env : Var → Int) (r : Var → Option Est) (hc : ConsistentR env r) (p : P) :
    evalP env (substWith r p) = evalP env p := by
  unfold substWith
  simp only [eval_mk]
  have := foldl_substStep_sound env r hc p.coeffs ([], p.const)
  simp only [termSum] at this
  unfold evalP; omega

/-- adding a promise adds what the promise stands for -/
theorem eval_addEst (env : Var → Int) (σ : Known) (hc : Consistent env σ) (p : P) (i : Var) :
    evalP env (addEst σ p i) = evalP env p + env i := by
  unfold addEst
  cases hl : look σ i with
  | none => simp only; rw [eval_add, eval_ofVar]
  | some e =>
    have := hc i e hl
    cases e with
    | int k => simp only at this ⊢; rw [eval_addConst, this]
    | var w => simp only at this ⊢; rw [eval_add, eval_ofVar, this]
    | poly q => simp only at this ⊢; rw [eval_add, this]

/-- `_substitute_known` keeps the meaning under every assignment that agrees with what is known -/
theorem eval_substKnown (env : Var → Int) (σ : Known) (hc : Consistent env σ) (p : P) :
    evalP env (substKnown σ p) = evalP env p := eval_substWith env _ hc p

/-- … and so does the whole body of `_wait` -/
theorem eval_waitRound (env : Var → Int) (σ : Known) (hc : Consistent env σ) (p : P) :
    evalP env (waitRound σ p) = evalP env p := by
  unfold waitRound
  rw [eval_substKnown env σ hc, eval_substWith env _ (consistent_look2 env σ hc), eval_substKnown env σ hc]

/-- **the value `wait()` returns is the arithmetic value**: whatever number the engine arrives
at for a polynomial is its value under every assignment consistent with the definitions -/
theorem waitP_sound (env : Var → Int) (σ : Known) (hc : Consistent env σ) (f : Nat) (p : P) (k : Int)
    (h : waitP σ f p = .value k) : evalP env p = k := by
  induction f generalizing p with
  | zero => simp [waitP] at h
  | succ f ih =>
    simp only [waitP] at h
    split at h
    · rename_i he
      have hz : (waitRound σ p).coeffs = [] := by simpa using he
      have := eval_waitRound env σ hc p
      rw [← this]; simp only [evalP, hz, termSum]; simp at h; omega
    · split at h
      · cases h
      · rw [← eval_waitRound env σ hc p, ← eval_substKnown env σ hc (waitRound σ p)]; exact ih _ h

/-- two runs of the engine that know different things (definitions met in a different order,
a different moment of the same run) can never arrive at different numbers -/
theorem waitP_deterministic (env : Var → Int) (σ₁ σ₂ : Known) (h1 : Consistent env σ₁) (h2 : Consistent env σ₂)
    (f₁ f₂ : Nat) (p : P) (k₁ k₂ : Int) (e1 : waitP σ₁ f₁ p = .value k₁) (e2 : waitP σ₂ f₂ p = .value k₂) : k₁ = k₂ := by
  rw [← waitP_sound env σ₁ h1 f₁ p k₁ e1, ← waitP_sound env σ₂ h2 f₂ p k₂ e2]

/-! non-vacuity: `1000 + end − start` with `start = base + 0`, `end = base + 6` (variable 0 is
the base, 1 and 2 are the labels) -/
example : waitP [(1, .poly ⟨[(0, 1)], 0⟩), (2, .poly ⟨[(0, 1)], 6⟩)] 5
    (add (addConst (ofVar 2) 0o1000) (neg (ofVar 1))) = .value 0o1006 := by decide
example : waitP [(1, .poly ⟨[(0, 1)], 0⟩), (2, .poly ⟨[(0, 1)], 6⟩)] 5
    (addConst (ofVar 2) 0o1000) = .notReady := by decide
example : Consistent (fun v => if v = 0 then 512 else if v = 1 then 512 else 518) [(1, .poly ⟨[(0, 1)], 0⟩), (2, .poly ⟨[(0, 1)], 6⟩)] := by
  intro v e h
  simp only [look, List.find?] at h
  by_cases h1 : v = 1
  · subst h1; simp at h; subst h; simp [evalP, termSum]
  · by_cases h2 : v = 2
    · subst h2; simp at h; subst h; simp [evalP, termSum]
    · have e1 : (1 == v) = false := by simp; exact fun e => h1 e.symm
      have e2 : (2 == v) = false := by simp; exact fun e => h2 e.symm
      simp [e1, e2] at h
example : (mk [(0, 1), (3, 2), (0, -1)] 7).coeffs = [(3, 2)] := by decide

end Pdpy11.Props.C12.LinPoly
